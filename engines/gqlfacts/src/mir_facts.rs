// MIR facts: per fn-like body a CFG with resolved call terminators, switch terminators and
// the assignments needed for def-use reasoning. Built from `optimized_mir` at -Zmir-opt-level=0.
use crate::ast_facts::loc;
use crate::hir_facts::dps;
use crate::json::J;
use rustc_hir::def::DefKind;
use rustc_middle::mir::{self, Operand, Rvalue, StatementKind, TerminatorKind};
use rustc_middle::ty::{self, TyCtxt};

fn operand<'tcx>(tcx: TyCtxt<'tcx>, op: &Operand<'tcx>) -> J {
    match op {
        Operand::Copy(p) | Operand::Move(p) => J::kv(vec![
            ("o", J::s("place")),
            ("local", J::Num(p.local.as_u32() as i128)),
            ("proj", J::s(&format!("{:?}", p.projection))),
        ]),
        Operand::Constant(c) => {
            let mut o = J::obj();
            o.set("o", J::s("const"));
            let t = c.const_.ty();
            if let ty::FnDef(d, _) = t.kind() {
                o.set("fn", J::s(&dps(tcx, *d)));
            } else {
                o.set("v", J::s(&crate::pr!(format!("{}", c.const_))));
            }
            o
        }
        #[allow(unreachable_patterns)]
        _ => J::kv(vec![("o", J::s("other"))]),
    }
}

pub fn collect<'tcx>(tcx: TyCtxt<'tcx>) -> J {
    let mut out = Vec::new();
    for owner in tcx.hir_body_owners() {
        let dk = tcx.def_kind(owner);
        if !matches!(dk, DefKind::Fn | DefKind::AssocFn | DefKind::Closure) {
            continue;
        }
        let did = owner.to_def_id();
        if !tcx.is_mir_available(did) {
            continue;
        }
        let body: &mir::Body<'tcx> = tcx.optimized_mir(did);
        let env = ty::TypingEnv::post_analysis(tcx, did);
        let mut o = J::obj();
        o.set("path", J::s(&dps(tcx, did)));
        o.set("dk", J::s(&format!("{:?}", dk)));
        o.set("arg_count", J::Num(body.arg_count as i128));
        // locals
        let mut names: Vec<Option<String>> = vec![None; body.local_decls.len()];
        for vdi in body.var_debug_info.iter() {
            if let mir::VarDebugInfoContents::Place(p) = &vdi.value {
                if p.projection.is_empty() {
                    names[p.local.as_usize()] = Some(vdi.name.to_string());
                }
            }
        }
        let mut locals = Vec::new();
        for (l, d) in body.local_decls.iter_enumerated() {
            locals.push(J::kv(vec![
                ("ty", J::s(&crate::pr!(format!("{}", d.ty)))),
                ("name", J::opt(names[l.as_usize()].as_ref().map(|n| J::s(n)))),
            ]));
        }
        o.set("locals", J::Arr(locals));
        let mut blocks = Vec::new();
        for (_bb, data) in body.basic_blocks.iter_enumerated() {
            let mut stmts = Vec::new();
            for st in data.statements.iter() {
                if let StatementKind::Assign(bx) = &st.kind {
                    let (place, rv) = &**bx;
                    let mut s = J::obj();
                    s.set("dl", J::Num(place.local.as_u32() as i128));
                    s.set("dp", J::s(&format!("{:?}", place.projection)));
                    match rv {
                        Rvalue::Use(op, ..) => {
                            s.set("rk", J::s("use"));
                            s.set("op", operand(tcx, op));
                        }
                        Rvalue::Ref(_, _, p) | Rvalue::RawPtr(_, p) => {
                            s.set("rk", J::s("ref"));
                            s.set("local", J::Num(p.local.as_u32() as i128));
                            s.set("proj", J::s(&format!("{:?}", p.projection)));
                        }
                        Rvalue::Discriminant(p) => {
                            s.set("rk", J::s("discr"));
                            s.set("local", J::Num(p.local.as_u32() as i128));
                            s.set("proj", J::s(&format!("{:?}", p.projection)));
                        }
                        Rvalue::Aggregate(kind, ops) => {
                            s.set("rk", J::s("agg"));
                            s.set("kind", J::s(&crate::pr!(format!("{:?}", kind))));
                            s.set("ops", J::Arr(ops.iter().map(|x| operand(tcx, x)).collect()));
                        }
                        Rvalue::Cast(_, op, _) => {
                            s.set("rk", J::s("cast"));
                            s.set("op", operand(tcx, op));
                        }
                        Rvalue::BinaryOp(bop, bx) => {
                            s.set("rk", J::s("bin"));
                            s.set("bop", J::s(&format!("{:?}", bop)));
                            s.set("l", operand(tcx, &bx.0));
                            s.set("r", operand(tcx, &bx.1));
                        }
                        Rvalue::UnaryOp(uop, op) => {
                            s.set("rk", J::s("un"));
                            s.set("uop", J::s(&format!("{:?}", uop)));
                            s.set("op", operand(tcx, op));
                        }
                        other => {
                            s.set("rk", J::s("other"));
                            s.set("dbg", J::s(&crate::pr!(format!("{:?}", other))));
                        }
                    }
                    stmts.push(s);
                }
            }
            let mut t = J::obj();
            if let Some(term) = &data.terminator {
                t.set("sp", J::s(&loc(tcx, term.source_info.span)));
                match &term.kind {
                    TerminatorKind::Call { func, args, destination, target, unwind, .. } => {
                        t.set("k", J::s("call"));
                        if let Some((d, gargs)) = func.const_fn_def() {
                            t.set("fn", J::s(&dps(tcx, d)));
                            let gargs2 = tcx.erase_and_anonymize_regions(gargs);
                            if gargs2.len() != tcx.generics_of(d).count() {
                            } else if let Ok(Some(inst)) = ty::Instance::try_resolve(tcx, env, d, gargs2) {
                                if inst.def_id() != d {
                                    t.set("resolved", J::s(&dps(tcx, inst.def_id())));
                                }
                            }
                            t.set("gargs", J::s(&crate::pr!(format!("{:?}", gargs))));
                        } else {
                            t.set("fnop", operand(tcx, func));
                        }
                        t.set("args", J::Arr(args.iter().map(|a| operand(tcx, &a.node)).collect()));
                        t.set("dest", J::Num(destination.local.as_u32() as i128));
                        t.set("dest_proj", J::s(&format!("{:?}", destination.projection)));
                        t.set("target", J::opt(target.map(|b| J::Num(b.as_u32() as i128))));
                        if let mir::UnwindAction::Cleanup(b) = unwind {
                            t.set("unwind", J::Num(b.as_u32() as i128));
                        }
                    }
                    TerminatorKind::SwitchInt { discr, targets } => {
                        t.set("k", J::s("switch"));
                        t.set("discr", operand(tcx, discr));
                        let mut ts = Vec::new();
                        for (v, b) in targets.iter() {
                            ts.push(J::Arr(vec![J::Num(v as i128), J::Num(b.as_u32() as i128)]));
                        }
                        t.set("targets", J::Arr(ts));
                        t.set("otherwise", J::Num(targets.otherwise().as_u32() as i128));
                    }
                    TerminatorKind::Goto { target } => {
                        t.set("k", J::s("goto"));
                        t.set("target", J::Num(target.as_u32() as i128));
                    }
                    TerminatorKind::Return => t.set("k", J::s("return")),
                    TerminatorKind::Unreachable => t.set("k", J::s("unreachable")),
                    TerminatorKind::UnwindResume => t.set("k", J::s("resume")),
                    TerminatorKind::UnwindTerminate(_) => t.set("k", J::s("terminate")),
                    TerminatorKind::Drop { place, target, unwind, .. } => {
                        t.set("k", J::s("drop"));
                        t.set("local", J::Num(place.local.as_u32() as i128));
                        t.set("proj", J::s(&format!("{:?}", place.projection)));
                        t.set("target", J::Num(target.as_u32() as i128));
                        if let mir::UnwindAction::Cleanup(b) = unwind {
                            t.set("unwind", J::Num(b.as_u32() as i128));
                        }
                    }
                    TerminatorKind::Assert { target, unwind, msg, .. } => {
                        t.set("k", J::s("assert"));
                        t.set("msg", J::s(&format!("{:?}", msg)));
                        t.set("target", J::Num(target.as_u32() as i128));
                        if let mir::UnwindAction::Cleanup(b) = unwind {
                            t.set("unwind", J::Num(b.as_u32() as i128));
                        }
                    }
                    TerminatorKind::FalseEdge { real_target, .. } => {
                        t.set("k", J::s("goto"));
                        t.set("target", J::Num(real_target.as_u32() as i128));
                    }
                    TerminatorKind::FalseUnwind { real_target, .. } => {
                        t.set("k", J::s("goto"));
                        t.set("target", J::Num(real_target.as_u32() as i128));
                    }
                    other => {
                        t.set("k", J::s("other"));
                        t.set("dbg", J::s(&format!("{:?}", std::mem::discriminant(other))));
                    }
                }
            }
            blocks.push(J::kv(vec![
                ("cleanup", J::Bool(data.is_cleanup)),
                ("stmts", J::Arr(stmts)),
                ("term", t),
            ]));
        }
        o.set("blocks", J::Arr(blocks));
        out.push(o);
    }
    J::Arr(out)
}
