// Resolved HIR facts: expression trees of every body owner with callees resolved through typeck,
// locals identified by HirId, types, macro provenance; ADTs; statics; impls.
use crate::ast_facts::loc;
use crate::json::J;
use rustc_hir as hir;
use rustc_hir::def::{DefKind, Res};
use rustc_hir::def_id::{DefId, LocalDefId};
use rustc_middle::ty::print::PrintTraitRefExt;
use rustc_middle::ty::{self, TyCtxt, TypeVisitableExt, TypeckResults};
use rustc_span::hygiene::{ExpnKind, MacroKind};
use rustc_span::Span;

pub fn keyword_oracle() -> J {
    use rustc_span::edition::Edition;
    use rustc_span::Symbol;
    let mut out = J::obj();
    for (name, ed) in [
        ("2015", Edition::Edition2015),
        ("2018", Edition::Edition2018),
        ("2021", Edition::Edition2021),
        ("2024", Edition::Edition2024),
    ] {
        let mut v = Vec::new();
        // keywords are the first entries of the compiler's pre-interned symbol table
        for i in 0..200u32 {
            let s = Symbol::new(i);
            let text = s.as_str();
            if text.is_empty() || !text.chars().all(|c| c.is_ascii_alphanumeric() || c == '_') {
                continue;
            }
            if s.is_reserved(|| ed) {
                v.push(J::s(text));
            }
        }
        out.set(name, J::Arr(v));
    }
    out
}

const WORKSPACE: [&str; 5] = [
    "graphql_client_codegen",
    "graphql_query_derive",
    "graphql_introspection_query",
    "graphql_client",
    "graphql_client_cli",
];

/// def path string.  Items of workspace crates are printed by their *definition* path (re-exports such as
/// `graphql_client_codegen::GraphQLClientCodegenOptions` would otherwise give one item two names, depending on
/// the crate that mentions it); foreign items by their visible path (what users write).
pub fn dps(tcx: TyCtxt<'_>, d: DefId) -> String {
    let krate = tcx.crate_name(d.krate);
    if WORKSPACE.contains(&krate.as_str()) {
        crate::pr!(rustc_middle::ty::print::with_no_visible_paths!(tcx.def_path_str(d)))
    } else {
        crate::pr!(tcx.def_path_str(d))
    }
}

fn hid(h: hir::HirId) -> String {
    format!("{}.{}", h.owner.def_id.local_def_index.as_u32(), h.local_id.as_u32())
}

/// outermost *macro* expansion this span comes from: (macro name, kind, call-site span)
fn macro_root(sp: Span) -> Option<(String, &'static str, Span)> {
    if !sp.from_expansion() {
        return None;
    }
    let mut last = None;
    for ed in sp.macro_backtrace() {
        if let ExpnKind::Macro(kind, name) = ed.kind {
            let k = match kind {
                MacroKind::Bang => "bang",
                MacroKind::Attr => "attr",
                MacroKind::Derive => "derive",
            };
            last = Some((name.to_string(), k, ed.call_site));
        }
    }
    last
}

struct Cx<'tcx> {
    tcx: TyCtxt<'tcx>,
    tr: &'tcx TypeckResults<'tcx>,
    owner: LocalDefId,
    cur_macro: Option<Span>,
    arg_stack: Vec<Vec<J>>,
}

impl<'tcx> Cx<'tcx> {
    fn ty(&self, t: ty::Ty<'tcx>) -> J {
        J::s(&crate::pr!(format!("{}", t)))
    }

    fn res(&self, res: Res) -> J {
        match res {
            Res::Local(h) => J::kv(vec![
                ("r", J::s("local")),
                ("hid", J::s(&hid(h))),
                ("name", J::s(self.tcx.hir_name(h).as_str())),
            ]),
            Res::Def(kind, d) => J::kv(vec![
                ("r", J::s("def")),
                ("dk", J::s(&format!("{:?}", kind))),
                ("path", J::s(&dps(self.tcx, d))),
                ("local", J::Bool(d.is_local())),
            ]),
            Res::SelfCtor(d) | Res::SelfTyAlias { alias_to: d, .. } => J::kv(vec![
                ("r", J::s("self")),
                ("path", J::s(&dps(self.tcx, d))),
            ]),
            other => J::kv(vec![("r", J::s("other")), ("dbg", J::s(&format!("{:?}", other)))]),
        }
    }

    /// resolve a callee def + generic args to (declared path, resolved impl path)
    fn callee(&self, d: DefId, args: ty::GenericArgsRef<'tcx>) -> (String, Option<String>, String) {
        let declared = dps(self.tcx, d);
        let mut resolved = None;
        let dk = self.tcx.def_kind(d);
        if matches!(dk, DefKind::Fn | DefKind::AssocFn) {
            let env = ty::TypingEnv::post_analysis(self.tcx, self.owner.to_def_id());
            // erase regions so resolution does not trip on inference leftovers
            let args = self.tcx.erase_and_anonymize_regions(args);
            let want = self.tcx.generics_of(d).count();
            if args.len() == want && !args.has_non_region_infer() && !args.has_escaping_bound_vars() {
                if let Ok(Some(inst)) = ty::Instance::try_resolve(self.tcx, env, d, args) {
                    let rd = inst.def_id();
                    if rd != d {
                        resolved = Some(dps(self.tcx, rd));
                    }
                }
            }
        }
        let a = crate::pr!(format!("{:?}", args));
        (declared, resolved, a)
    }

    fn qpath_res(&self, q: &hir::QPath<'tcx>, id: hir::HirId) -> Res {
        self.tr.qpath_res(q, id)
    }

    fn lit(&self, l: &hir::Lit) -> J {
        use rustc_ast::LitKind;
        match &l.node {
            LitKind::Str(s, _) => J::kv(vec![("lk", J::s("str")), ("v", J::s(s.as_str()))]),
            LitKind::Int(n, _) => J::kv(vec![("lk", J::s("int")), ("v", J::Num(n.get() as i128))]),
            LitKind::Bool(b) => J::kv(vec![("lk", J::s("bool")), ("v", J::Bool(*b))]),
            LitKind::Char(c) => J::kv(vec![("lk", J::s("char")), ("v", J::s(&c.to_string()))]),
            LitKind::Float(s, _) => J::kv(vec![("lk", J::s("float")), ("v", J::s(s.as_str()))]),
            other => J::kv(vec![("lk", J::s("other")), ("v", J::s(&format!("{:?}", other)))]),
        }
    }

    fn pat(&mut self, p: &'tcx hir::Pat<'tcx>) -> J {
        use hir::PatKind as P;
        let mut o = J::obj();
        o.set("id", J::s(&hid(p.hir_id)));
        if let Some(t) = self.tr.node_type_opt(p.hir_id) {
            o.set("ty", self.ty(t));
        }
        match &p.kind {
            P::Wild | P::Missing | P::Never => o.set("k", J::s("wild")),
            P::Binding(mode, h, ident, sub) => {
                o.set("k", J::s("bind"));
                o.set("hid", J::s(&hid(*h)));
                o.set("name", J::s(ident.name.as_str()));
                o.set("mode", J::s(&format!("{:?}", mode)));
                if let Some(s) = sub {
                    o.set("sub", self.pat(s));
                }
            }
            P::Struct(q, fields, rest) => {
                o.set("k", J::s("struct"));
                o.set("res", self.res(self.qpath_res(q, p.hir_id)));
                o.set(
                    "fields",
                    J::Arr(
                        fields
                            .iter()
                            .map(|f| {
                                J::kv(vec![
                                    ("name", J::s(f.ident.name.as_str())),
                                    ("pat", self.pat(f.pat)),
                                ])
                            })
                            .collect(),
                    ),
                );
                o.set("rest", J::Bool(rest.is_some()));
            }
            P::TupleStruct(q, pats, dd) => {
                o.set("k", J::s("tstruct"));
                o.set("res", self.res(self.qpath_res(q, p.hir_id)));
                o.set("pats", J::Arr(pats.iter().map(|x| self.pat(x)).collect()));
                o.set("dd", J::opt(dd.as_opt_usize().map(|n| J::Num(n as i128))));
            }
            P::Or(pats) => {
                o.set("k", J::s("or"));
                o.set("pats", J::Arr(pats.iter().map(|x| self.pat(x)).collect()));
            }
            P::Tuple(pats, dd) => {
                o.set("k", J::s("tuple"));
                o.set("pats", J::Arr(pats.iter().map(|x| self.pat(x)).collect()));
                o.set("dd", J::opt(dd.as_opt_usize().map(|n| J::Num(n as i128))));
            }
            P::Box(x) | P::Deref(x) | P::Ref(x, ..) => {
                o.set("k", J::s("ref"));
                o.set("pat", self.pat(x));
            }
            P::Expr(pe) => {
                o.set("k", J::s("expr"));
                match &pe.kind {
                    hir::PatExprKind::Lit { lit, negated } => {
                        o.set("lit", self.lit(lit));
                        o.set("neg", J::Bool(*negated));
                    }
                    hir::PatExprKind::Path(q) => {
                        o.set("res", self.res(self.qpath_res(q, pe.hir_id)));
                    }
                }
            }
            P::Guard(x, e) => {
                o.set("k", J::s("guard"));
                o.set("pat", self.pat(x));
                o.set("cond", self.expr(e));
            }
            P::Range(..) => o.set("k", J::s("range")),
            P::Slice(a, mid, b) => {
                o.set("k", J::s("slice"));
                o.set("before", J::Arr(a.iter().map(|x| self.pat(x)).collect()));
                o.set("mid", J::opt(mid.map(|x| self.pat(x))));
                o.set("after", J::Arr(b.iter().map(|x| self.pat(x)).collect()));
            }
            P::Err(_) => o.set("k", J::s("err")),
        }
        o
    }

    fn block(&mut self, b: &'tcx hir::Block<'tcx>) -> J {
        let mut stmts = Vec::new();
        for s in b.stmts {
            match &s.kind {
                hir::StmtKind::Let(l) => {
                    let mut o = J::obj();
                    o.set("k", J::s("let"));
                    o.set("sp", J::s(&loc(self.tcx, s.span)));
                    o.set("pat", self.pat(l.pat));
                    o.set("init", J::opt(l.init.map(|e| self.expr(e))));
                    o.set("els", J::opt(l.els.map(|b| self.block(b))));
                    stmts.push(o);
                }
                hir::StmtKind::Expr(e) | hir::StmtKind::Semi(e) => {
                    let mut o = J::obj();
                    o.set("k", J::s("stmt"));
                    o.set("e", self.expr(e));
                    stmts.push(o);
                }
                hir::StmtKind::Item(_) => {}
            }
        }
        J::kv(vec![
            ("k", J::s("block")),
            ("stmts", J::Arr(stmts)),
            ("expr", J::opt(b.expr.map(|e| self.expr(e)))),
        ])
    }

    fn expr(&mut self, e: &'tcx hir::Expr<'tcx>) -> J {
        // ---- macro bookkeeping -------------------------------------------------------------
        let mr = macro_root(e.span);
        let this_cs = mr.as_ref().map(|m| m.2);
        let saved = self.cur_macro;
        let mut opened_macro = false;
        if this_cs != self.cur_macro {
            // leaving the current expansion (a user argument), and/or entering a new one
            if self.cur_macro.is_some() {
                // we are a user-supplied sub expression of the enclosing macro
                let idj = J::kv(vec![("id", J::s(&hid(e.hir_id))), ("how", J::s("span"))]);
                if let Some(top) = self.arg_stack.last_mut() {
                    top.push(idj);
                }
            }
            if this_cs.is_some() {
                opened_macro = true;
                self.arg_stack.push(Vec::new());
            }
            self.cur_macro = this_cs;
        }
        let inner = self.expr_inner(e);
        self.cur_macro = saved;
        if opened_macro {
            let args = self.arg_stack.pop().unwrap_or_default();
            let (name, kind, cs) = mr.unwrap();
            let text = self
                .tcx
                .sess
                .source_map()
                .span_to_snippet(cs)
                .unwrap_or_else(|_| String::new());
            let mut o = J::obj();
            o.set("k", J::s("macro"));
            o.set("id", J::s(&format!("m{}", hid(e.hir_id))));
            o.set("name", J::s(&name));
            o.set("mk", J::s(kind));
            o.set("sp", J::s(&loc(self.tcx, cs)));
            o.set("text", J::s(&text));
            if let Some(t) = self.tr.expr_ty_opt(e) {
                o.set("ty", self.ty(t));
            }
            o.set("args", J::Arr(args));
            o.set("exp", inner);
            return o;
        }
        inner
    }

    fn expr_inner(&mut self, e: &'tcx hir::Expr<'tcx>) -> J {
        use hir::ExprKind as E;
        let mut o = J::obj();
        o.set("id", J::s(&hid(e.hir_id)));
        if let Some(t) = self.tr.expr_ty_opt(e) {
            o.set("ty", self.ty(t));
        }
        if let Some(t) = self.tr.expr_ty_adjusted_opt(e) {
            if Some(t) != self.tr.expr_ty_opt(e) {
                o.set("aty", self.ty(t));
            }
        }
        o.set("sp", J::s(&loc(self.tcx, e.span)));
        if self.cur_macro.is_some() {
            o.set("x", J::Bool(true));
        }
        match &e.kind {
            E::Lit(l) => {
                o.set("k", J::s("lit"));
                o.set("lit", self.lit(l));
            }
            E::Path(q) => {
                o.set("k", J::s("path"));
                o.set("res", self.res(self.qpath_res(q, e.hir_id)));
                // a local declared outside the macro expansion we are in = a template hole
                if let (Some(cs), Res::Local(h)) = (self.cur_macro, self.qpath_res(q, e.hir_id)) {
                    let decl_cs = macro_root(self.tcx.hir_span(h)).map(|m| m.2);
                    if decl_cs != Some(cs) {
                        let mut a = J::kv(vec![
                            ("id", J::s(&hid(e.hir_id))),
                            ("how", J::s("outer-local")),
                            ("hid", J::s(&hid(h))),
                            ("name", J::s(self.tcx.hir_name(h).as_str())),
                        ]);
                        if let Some(t) = self.tr.expr_ty_opt(e) {
                            a.set("ty", self.ty(t));
                        }
                        if let Some(top) = self.arg_stack.last_mut() {
                            top.push(a);
                        }
                    }
                }
                // for assoc items reached through a type, try to resolve
                if let Res::Def(DefKind::AssocFn | DefKind::Fn, d) = self.qpath_res(q, e.hir_id) {
                    let args = self.tr.node_args(e.hir_id);
                    let (_decl, resolved, a) = self.callee(d, args);
                    if let Some(r) = resolved {
                        o.set("resolved", J::s(&r));
                    }
                    o.set("gargs", J::s(&a));
                }
            }
            E::Call(f, args) => {
                o.set("k", J::s("call"));
                let mut callee = J::Null;
                if let E::Path(q) = &f.kind {
                    match self.qpath_res(q, f.hir_id) {
                        Res::Def(dk, d) => {
                            let gargs = self.tr.node_args(f.hir_id);
                            let (decl, resolved, a) = self.callee(d, gargs);
                            callee = J::kv(vec![
                                ("path", J::s(&decl)),
                                ("dk", J::s(&format!("{:?}", dk))),
                                ("resolved", J::opt(resolved.map(|r| J::s(&r)))),
                                ("gargs", J::s(&a)),
                                ("local", J::Bool(d.is_local())),
                            ]);
                        }
                        Res::SelfCtor(d) => {
                            callee = J::kv(vec![
                                ("path", J::s(&dps(self.tcx, d))),
                                ("dk", J::s("SelfCtor")),
                            ]);
                        }
                        _ => {}
                    }
                }
                o.set("callee", callee);
                o.set("f", self.expr(f));
                o.set("args", J::Arr(args.iter().map(|a| self.expr(a)).collect()));
            }
            E::MethodCall(seg, recv, args, _) => {
                o.set("k", J::s("mcall"));
                o.set("method", J::s(seg.ident.name.as_str()));
                if let Some(d) = self.tr.type_dependent_def_id(e.hir_id) {
                    let gargs = self.tr.node_args(e.hir_id);
                    let (decl, resolved, a) = self.callee(d, gargs);
                    o.set(
                        "callee",
                        J::kv(vec![
                            ("path", J::s(&decl)),
                            ("dk", J::s("AssocFn")),
                            ("resolved", J::opt(resolved.map(|r| J::s(&r)))),
                            ("gargs", J::s(&a)),
                            ("local", J::Bool(d.is_local())),
                        ]),
                    );
                } else {
                    o.set("callee", J::Null);
                }
                o.set("recv", self.expr(recv));
                o.set("args", J::Arr(args.iter().map(|a| self.expr(a)).collect()));
            }
            E::Field(base, ident) => {
                o.set("k", J::s("field"));
                o.set("name", J::s(ident.name.as_str()));
                let bt = self.tr.expr_ty_adjusted(base);
                let bt = bt.peel_refs();
                if let ty::Adt(adt, _) = bt.kind() {
                    o.set("adt", J::s(&dps(self.tcx, adt.did())));
                }
                o.set("base", self.expr(base));
            }
            E::Struct(q, fields, tail) => {
                o.set("k", J::s("struct"));
                o.set("res", self.res(self.qpath_res(q, e.hir_id)));
                if let Some(t) = self.tr.expr_ty_opt(e) {
                    if let ty::Adt(adt, _) = t.kind() {
                        o.set("adt", J::s(&dps(self.tcx, adt.did())));
                    }
                }
                o.set(
                    "fields",
                    J::Arr(
                        fields
                            .iter()
                            .map(|f| {
                                J::kv(vec![
                                    ("name", J::s(f.ident.name.as_str())),
                                    ("e", self.expr(f.expr)),
                                ])
                            })
                            .collect(),
                    ),
                );
                match tail {
                    hir::StructTailExpr::Base(b) => o.set("base", self.expr(b)),
                    hir::StructTailExpr::None => {}
                    _ => o.set("base", J::s("..")),
                }
            }
            E::Match(scrut, arms, src) => {
                // `?` desugaring: match Try::branch(x) { Continue(v) => v, Break(r) => return .. }
                if let hir::MatchSource::TryDesugar(_) = src {
                    if let E::Call(_, targs) = &scrut.kind {
                        if targs.len() == 1 {
                            o.set("k", J::s("try"));
                            o.set("e", self.expr(&targs[0]));
                            return o;
                        }
                    }
                }
                // `for` desugaring
                if let hir::MatchSource::ForLoopDesugar = src {
                    if let Some(f) = self.for_loop(scrut, arms) {
                        let J::Obj(items) = f else { unreachable!() };
                        for (k, v) in items {
                            o.set(&k, v);
                        }
                        return o;
                    }
                }
                o.set("k", J::s("match"));
                o.set("src", J::s(src.name()));
                o.set("scrut", self.expr(scrut));
                let mut out = Vec::new();
                for a in arms.iter() {
                    out.push(J::kv(vec![
                        ("pat", self.pat(a.pat)),
                        ("guard", J::opt(a.guard.map(|g| self.expr(g)))),
                        ("body", self.expr(a.body)),
                    ]));
                }
                o.set("arms", J::Arr(out));
            }
            E::If(c, t, el) => {
                o.set("k", J::s("if"));
                o.set("cond", self.expr(c));
                o.set("then", self.expr(t));
                o.set("else", J::opt(el.map(|x| self.expr(x))));
            }
            E::Let(l) => {
                o.set("k", J::s("letx"));
                o.set("pat", self.pat(l.pat));
                o.set("init", self.expr(l.init));
            }
            E::Loop(b, _, src, _) => {
                o.set("k", J::s("loop"));
                o.set("src", J::s(src.name()));
                o.set("body", self.block(b));
            }
            E::Block(b, _) => {
                let J::Obj(items) = self.block(b) else { unreachable!() };
                for (k, v) in items {
                    o.set(&k, v);
                }
                if matches!(b.rules, hir::BlockCheckMode::UnsafeBlock(_)) {
                    o.set("unsafe", J::Bool(true));
                }
            }
            E::Closure(c) => {
                o.set("k", J::s("closure"));
                let body = self.tcx.hir_body(c.body);
                o.set(
                    "params",
                    J::Arr(body.params.iter().map(|p| self.pat(p.pat)).collect()),
                );
                o.set("def", J::s(&dps(self.tcx, c.def_id.to_def_id())));
                o.set("body", self.expr(body.value));
            }
            E::Assign(l, r, _) => {
                o.set("k", J::s("assign"));
                o.set("l", self.expr(l));
                o.set("r", self.expr(r));
            }
            E::AssignOp(op, l, r) => {
                o.set("k", J::s("assignop"));
                o.set("op", J::s(&format!("{:?}", op.node)));
                o.set("l", self.expr(l));
                o.set("r", self.expr(r));
            }
            E::Binary(op, l, r) => {
                o.set("k", J::s("binary"));
                o.set("op", J::s(op.node.as_str()));
                o.set("l", self.expr(l));
                o.set("r", self.expr(r));
            }
            E::Unary(op, x) => {
                o.set("k", J::s("unary"));
                o.set("op", J::s(op.as_str()));
                o.set("e", self.expr(x));
            }
            E::AddrOf(_, m, x) => {
                o.set("k", J::s("ref"));
                o.set("mut", J::Bool(matches!(m, hir::Mutability::Mut)));
                o.set("e", self.expr(x));
            }
            E::Cast(x, _) | E::Type(x, _) => {
                o.set("k", J::s("cast"));
                o.set("e", self.expr(x));
            }
            E::DropTemps(x) | E::Use(x, _) | E::Become(x) => {
                o.set("k", J::s("wrap"));
                o.set("e", self.expr(x));
            }
            E::Index(b, i, _) => {
                o.set("k", J::s("index"));
                o.set("base", self.expr(b));
                o.set("idx", self.expr(i));
            }
            E::Tup(xs) => {
                o.set("k", J::s("tup"));
                o.set("es", J::Arr(xs.iter().map(|x| self.expr(x)).collect()));
            }
            E::Array(xs) => {
                o.set("k", J::s("array"));
                o.set("es", J::Arr(xs.iter().map(|x| self.expr(x)).collect()));
            }
            E::Repeat(x, _) => {
                o.set("k", J::s("repeat"));
                o.set("e", self.expr(x));
            }
            E::Ret(x) => {
                o.set("k", J::s("ret"));
                o.set("e", J::opt(x.map(|x| self.expr(x))));
            }
            E::Break(_, x) => {
                o.set("k", J::s("break"));
                o.set("e", J::opt(x.map(|x| self.expr(x))));
            }
            E::Continue(_) => o.set("k", J::s("continue")),
            E::ConstBlock(_) => o.set("k", J::s("constblock")),
            E::InlineAsm(_) => o.set("k", J::s("asm")),
            E::Yield(x, _) => {
                o.set("k", J::s("yield"));
                o.set("e", self.expr(x));
            }
            _ => {
                o.set("k", J::s("other"));
                o.set("dbg", J::s(&format!("{:?}", std::mem::discriminant(&e.kind))));
            }
        }
        o
    }

    /// for-loop: match IntoIterator::into_iter(ITER) { mut iter => loop { match Iterator::next(&mut iter)
    ///   { None => break, Some(PAT) => BODY } } }
    fn for_loop(&mut self, scrut: &'tcx hir::Expr<'tcx>, arms: &'tcx [hir::Arm<'tcx>]) -> Option<J> {
        use hir::ExprKind as E;
        let E::Call(_, iargs) = &scrut.kind else { return None };
        if iargs.len() != 1 || arms.len() != 1 {
            return None;
        }
        let E::Loop(lb, _, hir::LoopSource::ForLoop, _) = &arms[0].body.kind else { return None };
        let inner = if let Some(x) = lb.expr {
            x
        } else if let Some(s) = lb.stmts.first() {
            match &s.kind {
                hir::StmtKind::Expr(x) | hir::StmtKind::Semi(x) => *x,
                _ => return None,
            }
        } else {
            return None;
        };
        let E::Match(_, inner_arms, hir::MatchSource::ForLoopDesugar) = &inner.kind else {
            return None;
        };
        if inner_arms.len() != 2 {
            return None;
        }
        let some_arm = &inner_arms[1];
        let elem_pat: &'tcx hir::Pat<'tcx> = match &some_arm.pat.kind {
            hir::PatKind::TupleStruct(_, pats, _) if pats.len() == 1 => &pats[0],
            hir::PatKind::Struct(_, fields, _) if fields.len() == 1 => fields[0].pat,
            _ => return None,
        };
        let mut o = J::obj();
        o.set("k", J::s("for"));
        o.set("pat", self.pat(elem_pat));
        o.set("iter", self.expr(&iargs[0]));
        o.set("body", self.expr(some_arm.body));
        Some(o)
    }
}

pub fn collect<'tcx>(tcx: TyCtxt<'tcx>, root: &mut J) {
    // ---------------- body owners ----------------
    let mut fns = Vec::new();
    for owner in tcx.hir_body_owners() {
        let dk = tcx.def_kind(owner);
        if matches!(dk, DefKind::Closure | DefKind::InlineConst | DefKind::AnonConst) {
            continue; // closures are inlined into their parent's tree
        }
        let Some(body) = tcx.hir_maybe_body_owned_by(owner) else { continue };
        let tr = tcx.typeck(owner);
        let mut cx = Cx { tcx, tr, owner, cur_macro: None, arg_stack: Vec::new() };
        let mut o = J::obj();
        let did = owner.to_def_id();
        o.set("path", J::s(&dps(tcx, did)));
        o.set("dk", J::s(&format!("{:?}", dk)));
        let sp = tcx.def_span(did);
        o.set("loc", J::s(&loc(tcx, sp)));
        if let Some((name, kind, _)) = macro_root(sp) {
            o.set("from_macro", J::s(&format!("{}:{}", kind, name)));
        }
        if matches!(dk, DefKind::Fn | DefKind::AssocFn) {
            o.set("vis", J::s(&format!("{:?}", tcx.visibility(did))));
            let sig = tcx.fn_sig(did).instantiate_identity().skip_norm_wip().skip_binder();
            o.set(
                "inputs",
                J::Arr(sig.inputs().iter().map(|t| cx.ty(*t)).collect()),
            );
            o.set("output", cx.ty(sig.output()));
            // impl / trait context
            if let Some(imp) = tcx.impl_of_assoc(did) {
                let self_ty = tcx.type_of(imp).instantiate_identity().skip_norm_wip();
                o.set("impl_self", cx.ty(self_ty));
                if let Some(tr) = tcx.impl_opt_trait_ref(imp) {
                    let tr = tr.instantiate_identity().skip_norm_wip();
                    o.set("impl_trait", J::s(&crate::pr!(format!("{}", tr.print_only_trait_path()))));
                }
            }
        } else {
            o.set("ty", cx.ty(tcx.type_of(did).instantiate_identity().skip_norm_wip()));
        }
        o.set(
            "params",
            J::Arr(body.params.iter().map(|p| cx.pat(p.pat)).collect()),
        );
        o.set("body", cx.expr(body.value));
        fns.push(o);
    }
    root.set("fns", J::Arr(fns));

    // ---------------- ADTs, statics, impls, uses ----------------
    let mut adts = Vec::new();
    let mut statics = Vec::new();
    let mut impls = Vec::new();
    for id in tcx.hir_free_items() {
        let item = tcx.hir_item(id);
        let did = id.owner_id.to_def_id();
        match &item.kind {
            hir::ItemKind::Struct(..) | hir::ItemKind::Enum(..) | hir::ItemKind::Union(..) => {
                let adt = tcx.adt_def(did);
                let mut vs = Vec::new();
                for v in adt.variants() {
                    let mut fs = Vec::new();
                    for f in v.fields.iter() {
                        let fty = tcx.type_of(f.did).instantiate_identity().skip_norm_wip();
                        fs.push(J::kv(vec![
                            ("name", J::s(f.name.as_str())),
                            ("ty", J::s(&crate::pr!(format!("{}", fty)))),
                            ("vis", J::s(&format!("{:?}", f.vis))),
                        ]));
                    }
                    vs.push(J::kv(vec![
                        ("name", J::s(v.name.as_str())),
                        ("ctor", J::s(&format!("{:?}", v.ctor_kind()))),
                        ("fields", J::Arr(fs)),
                    ]));
                }
                let mut o = J::obj();
                o.set("path", J::s(&dps(tcx, did)));
                o.set("kind", J::s(if adt.is_enum() { "enum" } else { "struct" }));
                o.set("loc", J::s(&loc(tcx, item.span)));
                o.set("vis", J::s(&format!("{:?}", tcx.visibility(did))));
                o.set("variants", J::Arr(vs));
                if let Some((name, kind, _)) = macro_root(item.span) {
                    o.set("from_macro", J::s(&format!("{}:{}", kind, name)));
                }
                adts.push(o);
            }
            hir::ItemKind::Static(m, _, _, _) => {
                let t = tcx.type_of(did).instantiate_identity().skip_norm_wip();
                let env = ty::TypingEnv::post_analysis(tcx, did);
                let mut o = J::obj();
                o.set("path", J::s(&dps(tcx, did)));
                o.set("ty", J::s(&crate::pr!(format!("{}", t))));
                o.set("mutable", J::Bool(matches!(m, hir::Mutability::Mut)));
                o.set("freeze", J::Bool(t.is_freeze(tcx, env)));
                o.set("loc", J::s(&loc(tcx, item.span)));
                if let Some((name, kind, _)) = macro_root(item.span) {
                    o.set("from_macro", J::s(&format!("{}:{}", kind, name)));
                }
                statics.push(o);
            }
            hir::ItemKind::Impl(imp) => {
                let self_ty = tcx.type_of(did).instantiate_identity().skip_norm_wip();
                let mut o = J::obj();
                o.set("self", J::s(&crate::pr!(format!("{}", self_ty))));
                if let Some(tr) = tcx.impl_opt_trait_ref(did) {
                    let tr = tr.instantiate_identity().skip_norm_wip();
                    o.set("trait", J::s(&crate::pr!(format!("{}", tr.print_only_trait_path()))));
                }
                o.set("loc", J::s(&loc(tcx, item.span)));
                if let Some((name, kind, _)) = macro_root(item.span) {
                    o.set("from_macro", J::s(&format!("{}:{}", kind, name)));
                }
                o.set(
                    "items",
                    J::Arr(
                        imp.items
                            .iter()
                            .map(|r| J::s(&dps(tcx, r.owner_id.to_def_id())))
                            .collect(),
                    ),
                );
                impls.push(o);
            }
            _ => {}
        }
    }
    // statics nested inside fn bodies (lazy_static!) are not free items: walk all items
    for id in tcx.hir_crate_items(()).nested_bodies() {
        let _ = id;
    }
    let mut seen: std::collections::BTreeSet<String> = statics
        .iter()
        .filter_map(|s| if let J::Obj(o) = s { o.iter().find(|(k, _)| k == "path").map(|(_, v)| v.to_string()) } else { None })
        .collect();
    for owner in tcx.hir_body_owners() {
        if let DefKind::Static { mutability, nested, .. } = tcx.def_kind(owner) {
            let did = owner.to_def_id();
            let p = dps(tcx, did);
            let key = J::s(&p).to_string();
            if seen.contains(&key) {
                continue;
            }
            seen.insert(key);
            let t = tcx.type_of(did).instantiate_identity().skip_norm_wip();
            let env = ty::TypingEnv::post_analysis(tcx, did);
            let sp = tcx.def_span(did);
            let mut o = J::obj();
            o.set("path", J::s(&p));
            o.set("ty", J::s(&crate::pr!(format!("{}", t))));
            o.set("mutable", J::Bool(matches!(mutability, hir::Mutability::Mut)));
            o.set("freeze", J::Bool(t.is_freeze(tcx, env)));
            o.set("nested", J::Bool(nested));
            o.set("loc", J::s(&loc(tcx, sp)));
            if let Some((name, kind, _)) = macro_root(sp) {
                o.set("from_macro", J::s(&format!("{}:{}", kind, name)));
            }
            statics.push(o);
        }
    }
    root.set("adts", J::Arr(adts));
    root.set("statics", J::Arr(statics));
    root.set("impls", J::Arr(impls));
}
