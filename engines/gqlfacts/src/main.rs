// gqlfacts — rustc_private fact extractor for the graphql-client verification rules.
//
// Runs as RUSTC_WORKSPACE_WRAPPER under `cargo +nightly check`. For every workspace crate it
// writes ONE json file (single write) into $GQLFACTS_OUT describing the *resolved* program:
//   * ast:   surface attributes of structs/enums/fields/variants (after cfg-expansion; this is
//            where derive helper attributes such as #[serde(..)] / #[clap(..)] are still visible)
//   * fns:   every body owner (fn, assoc fn, const, static) as a resolved expression tree
//            (callees resolved through typeck, locals by HirId, types, macro provenance)
//   * adts, statics, impls
//   * mir:   per fn a CFG with resolved call terminators
//   * kw:    rustc's own reserved-word oracle per edition
// Nothing in here decides a property; the python rules do.
#![feature(rustc_private)]
#![allow(clippy::all)]

extern crate rustc_abi;
extern crate rustc_ast;
extern crate rustc_ast_pretty;
extern crate rustc_data_structures;
extern crate rustc_driver;
extern crate rustc_hir;
extern crate rustc_index;
extern crate rustc_interface;
extern crate rustc_middle;
extern crate rustc_session;
extern crate rustc_span;

#[macro_export]
macro_rules! pr {
    ($e:expr) => {
        rustc_middle::ty::print::with_resolve_crate_name!(rustc_middle::ty::print::with_no_trimmed_paths!($e))
    };
}

mod json;
mod ast_facts;
mod hir_facts;
mod mir_facts;

use json::J;
use rustc_driver::Compilation;
use rustc_interface::interface::Compiler;
use rustc_middle::ty::TyCtxt;

struct Cb {
    ast: Option<J>,
}

impl rustc_driver::Callbacks for Cb {
    fn after_expansion<'tcx>(&mut self, _c: &Compiler, tcx: TyCtxt<'tcx>) -> Compilation {
        self.ast = Some(ast_facts::collect(tcx));
        Compilation::Continue
    }

    fn after_analysis<'tcx>(&mut self, _c: &Compiler, tcx: TyCtxt<'tcx>) -> Compilation {
        let out_dir = match std::env::var("GQLFACTS_OUT") {
            Ok(d) => d,
            Err(_) => return Compilation::Continue,
        };
        let krate = tcx.crate_name(rustc_span::def_id::LOCAL_CRATE).to_string();
        let sess = tcx.sess;
        let is_test = sess.opts.test;
        let crate_types: Vec<String> =
            tcx.crate_types().iter().map(|t| format!("{:?}", t)).collect();
        let mut root = J::obj();
        root.set("crate", J::s(&krate));
        root.set("is_test", J::Bool(is_test));
        root.set("crate_types", J::Arr(crate_types.iter().map(|s| J::s(s)).collect()));
        root.set("edition", J::s(&format!("{}", sess.edition())));
        root.set("kw", hir_facts::keyword_oracle());
        root.set("ast", self.ast.take().unwrap_or(J::Null));
        hir_facts::collect(tcx, &mut root);
        root.set("mir", mir_facts::collect(tcx));
        let kind = if is_test {
            "test".to_string()
        } else {
            crate_types.first().cloned().unwrap_or_default().to_lowercase()
        };
        let path = format!("{}/{}.{}.json", out_dir, krate, kind);
        let text = root.to_string();
        std::fs::write(&path, text).expect("gqlfacts: cannot write fact file");
        Compilation::Continue
    }
}

fn main() {
    let mut args: Vec<String> = std::env::args().collect();
    // RUSTC_WORKSPACE_WRAPPER: argv = [driver, rustc, args...]
    if args.len() > 1 && (args[1].ends_with("rustc") || args[1].contains("/rustc")) {
        args.remove(1);
    }
    let mut cb = Cb { ast: None };
    rustc_driver::run_compiler(&args, &mut cb);
}
