// Minimal JSON value + serializer (no dependencies available to a rustc_private driver here).
use std::fmt::Write;

#[derive(Clone, Debug)]
pub enum J {
    Null,
    Bool(bool),
    Num(i128),
    Str(String),
    Arr(Vec<J>),
    Obj(Vec<(String, J)>),
}

impl J {
    pub fn obj() -> J {
        J::Obj(Vec::new())
    }
    pub fn s(s: &str) -> J {
        J::Str(s.to_string())
    }
    pub fn set(&mut self, k: &str, v: J) {
        if let J::Obj(items) = self {
            items.push((k.to_string(), v));
        }
    }
    pub fn kv(pairs: Vec<(&str, J)>) -> J {
        J::Obj(pairs.into_iter().map(|(k, v)| (k.to_string(), v)).collect())
    }
    pub fn opt(o: Option<J>) -> J {
        o.unwrap_or(J::Null)
    }
    pub fn to_string(&self) -> String {
        let mut s = String::new();
        self.write(&mut s);
        s
    }
    fn write(&self, out: &mut String) {
        match self {
            J::Null => out.push_str("null"),
            J::Bool(b) => out.push_str(if *b { "true" } else { "false" }),
            J::Num(n) => {
                let _ = write!(out, "{}", n);
            }
            J::Str(s) => esc(s, out),
            J::Arr(a) => {
                out.push('[');
                for (i, v) in a.iter().enumerate() {
                    if i > 0 {
                        out.push(',');
                    }
                    v.write(out);
                }
                out.push(']');
            }
            J::Obj(o) => {
                out.push('{');
                for (i, (k, v)) in o.iter().enumerate() {
                    if i > 0 {
                        out.push(',');
                    }
                    esc(k, out);
                    out.push(':');
                    v.write(out);
                }
                out.push('}');
            }
        }
    }
}

fn esc(s: &str, out: &mut String) {
    out.push('"');
    for c in s.chars() {
        match c {
            '"' => out.push_str("\\\""),
            '\\' => out.push_str("\\\\"),
            '\n' => out.push_str("\\n"),
            '\r' => out.push_str("\\r"),
            '\t' => out.push_str("\\t"),
            c if (c as u32) < 0x20 => {
                let _ = write!(out, "\\u{:04x}", c as u32);
            }
            c => out.push(c),
        }
    }
    out.push('"');
}
