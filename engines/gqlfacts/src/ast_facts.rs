// Surface facts from the expanded AST: attributes (incl. derive helper attributes) of ADTs,
// fields, variants; `use` re-exports; fn attributes.
use crate::json::J;
use rustc_ast as ast;
use rustc_ast_pretty::pprust;
use rustc_middle::ty::TyCtxt;
use rustc_span::Span;

pub fn loc(tcx: TyCtxt<'_>, sp: Span) -> String {
    let sm = tcx.sess.source_map();
    let sp = sp.source_callsite();
    let lo = sm.lookup_char_pos(sp.lo());
    let name = match &lo.file.name {
        rustc_span::FileName::Real(r) => match r.local_path() {
            Some(p) => p.to_string_lossy().to_string(),
            None => format!("{:?}", r),
        },
        other => format!("{:?}", other),
    };
    format!("{}:{}:{}", name, lo.line, lo.col.0 + 1)
}

fn attrs(a: &[ast::Attribute]) -> J {
    J::Arr(
        a.iter()
            .filter(|x| !x.is_doc_comment())
            .map(|x| J::s(pprust::attribute_to_string(x).trim()))
            .collect(),
    )
}

fn fields(tcx: TyCtxt<'_>, vd: &ast::VariantData) -> J {
    let mut out = Vec::new();
    for (i, f) in vd.fields().iter().enumerate() {
        let name = f.ident.map(|i| i.name.to_string()).unwrap_or_else(|| i.to_string());
        out.push(J::kv(vec![
            ("name", J::s(&name)),
            ("ty", J::s(&pprust::ty_to_string(&f.ty))),
            ("vis", J::s(pprust::vis_to_string(&f.vis).trim())),
            ("attrs", attrs(&f.attrs)),
            ("loc", J::s(&loc(tcx, f.span))),
        ]));
    }
    J::Arr(out)
}

fn walk_items(tcx: TyCtxt<'_>, items: &[Box<ast::Item>], module: &str, out: &mut Vec<J>) {
    for it in items {
        let it: &ast::Item = it;
        match &it.kind {
            ast::ItemKind::Mod(_, ident, ast::ModKind::Loaded(inner, ..)) => {
                let m = if module.is_empty() {
                    ident.name.to_string()
                } else {
                    format!("{}::{}", module, ident.name)
                };
                out.push(J::kv(vec![
                    ("kind", J::s("mod")),
                    ("name", J::s(&ident.name.to_string())),
                    ("module", J::s(module)),
                    ("vis", J::s(pprust::vis_to_string(&it.vis).trim())),
                    ("attrs", attrs(&it.attrs)),
                    ("loc", J::s(&loc(tcx, it.span))),
                ]));
                walk_items(tcx, inner, &m, out);
            }
            ast::ItemKind::Struct(ident, _, vd) | ast::ItemKind::Union(ident, _, vd) => {
                out.push(J::kv(vec![
                    ("kind", J::s("struct")),
                    ("name", J::s(&ident.name.to_string())),
                    ("module", J::s(module)),
                    ("vis", J::s(pprust::vis_to_string(&it.vis).trim())),
                    ("attrs", attrs(&it.attrs)),
                    ("fields", fields(tcx, vd)),
                    ("loc", J::s(&loc(tcx, it.span))),
                ]));
            }
            ast::ItemKind::Enum(ident, _, def) => {
                let mut vs = Vec::new();
                for v in def.variants.iter() {
                    vs.push(J::kv(vec![
                        ("name", J::s(&v.ident.name.to_string())),
                        ("attrs", attrs(&v.attrs)),
                        ("fields", fields(tcx, &v.data)),
                        ("loc", J::s(&loc(tcx, v.span))),
                    ]));
                }
                out.push(J::kv(vec![
                    ("kind", J::s("enum")),
                    ("name", J::s(&ident.name.to_string())),
                    ("module", J::s(module)),
                    ("vis", J::s(pprust::vis_to_string(&it.vis).trim())),
                    ("attrs", attrs(&it.attrs)),
                    ("variants", J::Arr(vs)),
                    ("loc", J::s(&loc(tcx, it.span))),
                ]));
            }
            ast::ItemKind::Use(_) => {
                out.push(J::kv(vec![
                    ("kind", J::s("use")),
                    ("module", J::s(module)),
                    ("vis", J::s(pprust::vis_to_string(&it.vis).trim())),
                    ("text", J::s(pprust::item_to_string(it).trim())),
                    ("loc", J::s(&loc(tcx, it.span))),
                ]));
            }
            ast::ItemKind::Fn(f) => {
                out.push(J::kv(vec![
                    ("kind", J::s("fn")),
                    ("name", J::s(&f.ident.name.to_string())),
                    ("module", J::s(module)),
                    ("vis", J::s(pprust::vis_to_string(&it.vis).trim())),
                    ("attrs", attrs(&it.attrs)),
                    ("loc", J::s(&loc(tcx, it.span))),
                ]));
            }
            ast::ItemKind::Static(s) => {
                out.push(J::kv(vec![
                    ("kind", J::s("static")),
                    ("name", J::s(&s.ident.name.to_string())),
                    ("module", J::s(module)),
                    ("mutable", J::Bool(matches!(s.mutability, ast::Mutability::Mut))),
                    ("attrs", attrs(&it.attrs)),
                    ("loc", J::s(&loc(tcx, it.span))),
                ]));
            }
            ast::ItemKind::ExternCrate(orig, ident) => {
                out.push(J::kv(vec![
                    ("kind", J::s("extern_crate")),
                    ("name", J::s(&ident.name.to_string())),
                    ("orig", J::opt(orig.map(|o| J::s(&o.to_string())))),
                    ("module", J::s(module)),
                ]));
            }
            ast::ItemKind::ForeignMod(_) => {
                out.push(J::kv(vec![
                    ("kind", J::s("foreign_mod")),
                    ("module", J::s(module)),
                    ("loc", J::s(&loc(tcx, it.span))),
                ]));
            }
            _ => {}
        }
    }
}

pub fn collect(tcx: TyCtxt<'_>) -> J {
    let steal = tcx.resolver_for_lowering();
    let guard = steal.borrow();
    let krate: &ast::Crate = &guard.1;
    let mut out = Vec::new();
    walk_items(tcx, &krate.items, "", &mut out);
    let mut root = J::obj();
    root.set("crate_attrs", attrs(&krate.attrs));
    root.set("items", J::Arr(out));
    root
}
