#!/usr/bin/env python3
"""Developer tool: regenerate the per-seed table of DESIGN.md section 6.1 from the last full `seedcheck.py` run
(.cache/seededcheck.json, or the file given as argument)."""
import json, os, re, sys
VERIF = os.path.dirname(os.path.dirname(os.path.abspath(__file__)))
src = sys.argv[1] if len(sys.argv) > 1 else os.path.join(VERIF, '.cache', 'seededcheck.json')
res = json.load(open(src))
rows = []
def keyf(s):
    p, k = s.split('-')
    return (p, int(k))
for seed in sorted(os.listdir(os.path.join(VERIF, 'seeded')), key=keyf):
    meta = json.load(open(os.path.join(VERIF, 'seeded', seed, 'meta.json')))
    summ = re.sub(r'\s+', ' ', meta.get('summary', '')).replace('|', '/')[:110]
    if meta.get('neutralised_by'):
        rows.append('| %s | %s | *(superseded by fix %s: behaviour-preserving on the current tree)* | — |' % (seed, summ, meta['neutralised_by']))
        continue
    r = res.get(seed)
    if r is None:
        rows.append('| %s | %s | (not in this run) | |' % (seed, summ))
        continue
    prop = seed.split('-')[0]
    own = sorted({k.split('/')[0] for k in r.get(prop, {})})
    rows.append('| %s | %s | %s | %s |' % (seed, summ, ', '.join(own) or '**none**', ', '.join(sorted(r))))
head = '| seed | change (from meta.json) | rules firing for the seed\'s own property | properties alarmed |\n|---|---|---|---|\n'
table = head + '\n'.join(rows) + '\n'
p = os.path.join(VERIF, 'DESIGN.md')
s = open(p).read()
i = s.index('| seed | change (from meta.json) |')
j = s.index('\n\n', i)
s = s[:i] + table.rstrip('\n') + s[j:]
s = re.sub(r'\(last full run: all \d+ live seeds of the \w+ rounds caught', '(last full run: all %d live seeds of the seven rounds caught' % sum(1 for r_ in rows if 'superseded' not in r_), s)
open(p, 'w').write(s)
print(len(rows), 'rows')
