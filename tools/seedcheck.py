#!/usr/bin/env python3
"""Developer tool (not a registered check): apply each seeded patch to /repo, run all checks, report which
rule instances newly fire, and restore /repo.  Usage: seedcheck.py [seed-dir-name ...]"""
import json, os, subprocess, sys, time
VERIF = os.path.dirname(os.path.dirname(os.path.abspath(__file__)))
sys.path.insert(0, VERIF)
REPO = os.environ.get('VF_REPO', '/repo')

def run_all():
    from vflib import core, props
    import importlib, importlib.util, importlib.machinery
    sys.argv = ['vf']
    spec = importlib.util.spec_from_loader('vfmain', importlib.machinery.SourceFileLoader('vfmain', os.path.join(VERIF, 'vf')))
    vfmain = importlib.util.module_from_spec(spec)
    spec.loader.exec_module(vfmain)
    cache = {}
    out = {}
    from vflib import facts as F
    try:
        for pid in sorted(props.PROPS):
            obs, nb, _ = vfmain.run_property(pid, 'quick', cache)
            out[pid] = {o.key: o.detail for o in obs if o.status == 'violated'}
    except F.FactsError as ex:
        return {'_compile': {'tree-does-not-compile': str(ex)[-500:]}}
    return out

def main():
    seeds = sys.argv[1:] or sorted(os.listdir(os.path.join(VERIF, 'seeded')))
    assert subprocess.run(['git', '-C', REPO, 'status', '--porcelain', '--untracked-files=no'], capture_output=True, text=True).stdout.strip() == '', 'repo dirty'
    # each run in a fresh interpreter state: fork a child per configuration
    def child(tag):
        r = subprocess.run([sys.executable, __file__, '--child'], capture_output=True, text=True)
        try:
            return json.loads(r.stdout.strip().splitlines()[-1])
        except Exception:
            return {'_error': {'crash': (r.stdout + r.stderr)[-800:]}}
    base = child('base')
    res = {}
    for s in seeds:
        pd = os.path.join(VERIF, 'seeded', s, 'patch.diff')
        if not os.path.exists(pd):
            continue
        a = subprocess.run(['git', '-C', REPO, 'apply', pd], capture_output=True, text=True)
        if a.returncode != 0:
            print('%-8s PATCH DOES NOT APPLY: %s' % (s, a.stderr.strip()[:200]))
            continue
        try:
            t0 = time.time()
            got = child(s)
        finally:
            subprocess.run(['git', '-C', REPO, 'checkout', '--', '.'])
        prop = s.split('-')[0]
        new = {}
        if '_error' in got or '_error' in base:
            print('%-8s ENGINE ERROR %s' % (s, str(got.get('_error') or base.get('_error'))[:300]))
            continue
        for pid, v in got.items():
            for k, d in v.items():
                if k not in base.get(pid, {}):
                    new.setdefault(pid, {})[k] = d
        hit_own = prop in new
        print('%-8s %s  own-property:%s  new violations in: %s  (%.0fs)' % (s, 'CAUGHT' if new else 'MISSED', 'yes' if hit_own else 'no', sorted(new), time.time() - t0))
        for pid, v in new.items():
            for k, d in list(v.items())[:3]:
                print('           %s %s :: %s' % (pid, k, d[:140].replace('\n', ' ')))
        res[s] = new
    os.makedirs(os.environ.get('VF_CACHE') or os.path.join(VERIF, '.cache'), exist_ok=True)
    json.dump(res, open(os.path.join(os.environ.get('VF_CACHE') or os.path.join(VERIF, '.cache'), 'seedcheck.json'), 'w'), indent=1)

if __name__ == '__main__':
    if '--child' in sys.argv:
        import io, contextlib
        buf = io.StringIO()
        with contextlib.redirect_stderr(buf):
            out = run_all()
        print(json.dumps(out))
    else:
        main()
