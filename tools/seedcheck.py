#!/usr/bin/env python3
"""Developer tool (not a registered check): apply each seeded patch to /repo, run all checks, report which
rule instances newly fire, and restore /repo.  Usage: seedcheck.py [seed-dir-name ...]"""
import json, os, subprocess, sys, time
VERIF = os.path.dirname(os.path.dirname(os.path.abspath(__file__)))
sys.path.insert(0, VERIF)
REPO = os.environ.get('VF_REPO', '/repo')

def run_all():
    from vflib import core, props
    import importlib, importlib.util, importlib.machinery
    sys.argv = ['vf']
    spec = importlib.util.spec_from_loader('vfmain', importlib.machinery.SourceFileLoader('vfmain', os.path.join(VERIF, 'vf')))
    vfmain = importlib.util.module_from_spec(spec)
    spec.loader.exec_module(vfmain)
    cache = {}
    out = {}
    from vflib import facts as F
    try:
        for pid in sorted(props.PROPS):
            obs, nb, _ = vfmain.run_property(pid, os.environ.get('VF_TIER', 'quick'), cache)
            out[pid] = {o.key: o.detail for o in obs if o.status == 'violated'}
    except F.FactsError as ex:
        return {'_compile': {'tree-does-not-compile': str(ex)[-500:]}}
    return out

def main():
    import concurrent.futures as cf
    import queue
    args = [a for a in sys.argv[1:] if not a.startswith('--')]
    jobs = 4
    # VF_TIER=thorough adds the MIR rules
    SUB = 'refactors' if '--refactors' in sys.argv else 'seeded'
    seeds = args or sorted(os.listdir(os.path.join(VERIF, SUB)))
    workers = ['/tmp/confirm%d' % i for i in range(1, jobs + 1)]
    for w in workers:
        assert subprocess.run(['git', '-C', w, 'status', '--porcelain', '--untracked-files=no'], capture_output=True, text=True).stdout.strip() == '', 'worker dirty ' + w

    def child(w):
        env = dict(os.environ, VF_REPO=w, VF_CACHE='/tmp/seedcache_' + os.path.basename(w), PYTHONHASHSEED='0')
        r = subprocess.run([sys.executable, __file__, '--child'], capture_output=True, text=True, env=env)
        try:
            return json.loads(r.stdout.strip().splitlines()[-1])
        except Exception:
            return {'_error': {'crash': (r.stdout + r.stderr)[-800:]}}
    base = child(workers[0])
    if '_error' in base:
        print('BASE ENGINE ERROR', base)
        return
    print('base violations:', {k: sorted(v) for k, v in base.items() if v}, flush=True)
    free = queue.Queue()
    for w in workers:
        free.put(w)
    res = {}

    def run(s):
        pd = os.path.join(VERIF, SUB, s, 'patch.diff')
        w = free.get()
        try:
            a = subprocess.run(['git', '-C', w, 'apply', pd], capture_output=True, text=True)
            if a.returncode != 0:
                return s, None, 'PATCH DOES NOT APPLY: ' + a.stderr.strip()[:200], 0
            t0 = time.time()
            try:
                got = child(w)
            finally:
                subprocess.run(['git', '-C', w, 'checkout', '--', '.'])
            return s, got, None, time.time() - t0
        finally:
            free.put(w)
    todo = [s for s in seeds if os.path.exists(os.path.join(VERIF, SUB, s, 'patch.diff'))]

    def superseded(s):
        mp = os.path.join(VERIF, SUB, s, 'meta.json')
        try:
            return bool(json.load(open(mp)).get('neutralised_by'))
        except Exception:
            return False
    skipped = [s for s in todo if superseded(s)]
    if skipped:
        print('superseded seeds (behaviour-preserving on the current tree, skipped):', skipped, flush=True)
    todo = [s for s in todo if s not in skipped]
    with cf.ThreadPoolExecutor(max_workers=jobs) as ex:
        for s, got, err, dt in ex.map(run, todo):
            if err:
                print('%-8s %s' % (s, err), flush=True)
                continue
            if '_error' in got:
                print('%-8s ENGINE ERROR %s' % (s, str(got['_error'])[:300]), flush=True)
                continue
            prop = s.split('-')[0]
            new = {}
            for pid, v in got.items():
                for k, d in v.items():
                    if k not in base.get(pid, {}):
                        new.setdefault(pid, {})[k] = d
            print('%-8s %s  own-property:%s  new violations in: %s  (%.0fs)' % (s, ('FALSE-ALARM' if new else 'silent') if SUB == 'refactors' else ('CAUGHT' if new else 'MISSED'), 'yes' if prop in new else 'no', sorted(new), dt), flush=True)
            shown = set()
            for pid, v in new.items():
                for k, d in list(v.items())[:4]:
                    if k in shown:
                        continue
                    shown.add(k)
                    print('           %s %s :: %s' % (pid, k, d[:150].replace(chr(10), ' ')), flush=True)
            res[s] = new
    os.makedirs(os.path.join(VERIF, '.cache'), exist_ok=True)
    json.dump(res, open(os.path.join(VERIF, '.cache', SUB + 'check.json'), 'w'), indent=1)


if __name__ == '__main__':
    if '--child' in sys.argv:
        import io, contextlib
        import threading
        buf = io.StringIO()
        box = {}

        def target():
            with contextlib.redirect_stderr(buf):
                box['out'] = run_all()
        threading.stack_size(1024 * 1024 * 1024)
        t = threading.Thread(target=target)
        t.start()
        t.join()
        print(json.dumps(box.get('out', {'_error': {'crash': buf.getvalue()[-800:]}})))
    else:
        main()
