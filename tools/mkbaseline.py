#!/usr/bin/env python3
"""Developer tool: (re)generate vflib/baseline_items.json — the reference inventory of workspace fns and types
(path -> signature) of the tree the rules were written against.  Used by facts.rename_aliases to recognise renamed /
moved private items.  Run against the unchanged /repo only."""
import json, os, sys
VERIF = os.path.dirname(os.path.dirname(os.path.abspath(__file__)))
sys.path.insert(0, VERIF)
from vflib import facts as F

d = F.ensure_facts(sys.stderr)
out = {}
for fname, key in F.EXPECTED.items():
    raw = json.load(open(os.path.join(d, fname)))
    fns = {}
    for f in raw['fns']:
        if f.get('from_macro'):
            continue
        fns.setdefault(f['path'], F.fn_sig(f))
    adts = {a['path']: F.adt_sig(a) for a in raw['adts']}
    out[key] = {'fns': fns, 'adts': adts}
json.dump(out, open(F.BASELINE_FILE, 'w'), indent=0, sort_keys=True)
print('wrote', F.BASELINE_FILE, {k: (len(v['fns']), len(v['adts'])) for k, v in out.items()})
