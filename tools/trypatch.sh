#!/bin/sh
# developer tool: apply an arbitrary patch file to a scratch worktree, run all checks, show violations
# usage: tools/trypatch.sh /abs/path/patch.diff [worker-number]
W=/tmp/confirm${2:-1}
git -C $W checkout -q -- . && git -C $W apply "$1" || exit 2
cd /verif && VF_REPO=$W VF_CACHE=/tmp/seedcache_confirm${2:-1} ./vf all 2>&1 | grep "^VIOLATION\|ENGINE" | sed 's/replay=[^ ]* //' | cut -c1-330
git -C $W checkout -q -- .
