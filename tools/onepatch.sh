#!/bin/sh
# developer tool: apply one seeded/refactor patch to a scratch worktree, run all checks, show new violations
# usage: tools/onepatch.sh refactors/R1-1 [worker-number]
W=/tmp/confirm${2:-1}
git -C $W checkout -q -- . && git -C $W apply /verif/$1/patch.diff || exit 2
cd /verif && VF_REPO=$W VF_CACHE=/tmp/seedcache_confirm${2:-1} ./vf all 2>&1 | grep "^VIOLATION\|ENGINE" | sed 's/replay=[^ ]* //' | cut -c1-330
git -C $W checkout -q -- .
