"""Helpers to summarise provenance terms: origins, transform chains, control origins."""
import os
from . import prov as P


def adt_short(adt):
    return adt.split('::')[-1]


_PATH_MEMO = {}


def paths(term, xf=()):
    """memoised front: yields the distinct (origin, transforms) pairs of a term"""
    if xf:
        for o, x in paths(term):
            yield o, x + xf
        return
    key = id(term)
    hit = _PATH_MEMO.get(key)
    if hit is None or hit[0] is not term:
        res = frozenset(_paths(term, ()))
        if len(_PATH_MEMO) > 200000:
            _PATH_MEMO.clear()
        _PATH_MEMO[key] = (term, res)
        hit = _PATH_MEMO[key]
    yield from hit[1]


def _paths(term, xf=()):
    """yield (origin, transforms) for every data path of a string-ish term.
    origin: ('field', 'Adt.field') | ('const', v) | ('global', path) | ('param', name) | ('other', tag)
    transforms: tuple innermost-first, e.g. ('snake', 'kw')"""
    tag = term[0]
    if tag == 'xf':
        for o, x in paths(term[2], ()):
            yield o, x + (term[1],) + xf
        return
    if tag == 'join':
        for t in (term[1] if os.environ.get('PYTHONHASHSEED') == '0' else sorted(term[1], key=repr)):
            yield from paths(t, xf)
        return
    if tag == 'if':
        yield from paths(term[2], xf)
        yield from paths(term[3], xf)
        return
    if tag == 'match':
        for _, a in term[2]:
            yield from paths(a, xf)
        return
    if tag == 'early':
        yield from paths(term[1], xf)
        return
    if tag in ('tproj', 'cproj'):
        yield from paths(term[1], xf)
        return
    if tag == 'sel':
        yield from paths(term[2], xf)
        return
    if tag == 'list':
        for t in term[1]:
            yield from paths(t, xf)
        return
    if tag == 'orelse':
        yield from paths(term[1], xf)
        yield from paths(term[2], xf)
        return
    if tag == 'field':
        yield ('field', adt_short(term[2]) + '.' + term[3]), xf
        return
    if tag == 'const':
        yield ('const', term[1]), xf
        return
    if tag == 'global':
        yield ('global', term[1]), xf
        return
    if tag == 'param':
        yield ('param', term[1].split('::')[-1] + '#' + str(term[2])), xf
        return
    if tag == 'fmt':
        for a in term[2]:
            for o, x in paths(a, ()):
                yield o, x + ('fmt',) + xf
        if not term[2]:
            yield ('const', term[1]), xf
        return
    if tag == 'ident':
        yield from paths(term[1], xf)
        return
    if tag in ('parsed',):
        for o, x in paths(term[1], ()):
            yield o, x + ('parse',) + xf
        return
    if tag in ('none', 'unit', 'diverge', 'absent'):
        return
    if tag == 'ctor':
        for a in term[2]:
            yield from paths(a, xf)
        return
    if tag == 'call':
        yield ('other', 'call:' + term[1]), xf
        return
    yield ('other', tag + (':' + str(term[1]) if len(term) > 1 and isinstance(term[1], str) else '')), xf


def ctrl_origins(term, inside=False):
    """origins that influence *which* value a term takes (conditions of if/match inside the term)"""
    out = set()
    tag = term[0]
    if tag == 'if':
        out |= {o for o, _ in paths(term[1])} | ctrl_origins(term[1], True)
        out |= ctrl_origins(term[2]) | ctrl_origins(term[3])
    elif tag == 'match':
        out |= {o for o, _ in paths(term[1])} | ctrl_origins(term[1], True)
        for _, a in term[2]:
            out |= ctrl_origins(a)
    elif tag == 'join':
        for t in term[1]:
            out |= ctrl_origins(t)
    elif tag in ('xf', 'ident', 'parsed', 'early', 'tproj', 'cproj', 'sel'):
        out |= ctrl_origins(term[2] if tag in ('xf', 'sel') else term[1])
    elif tag == 'list':
        for a in term[1]:
            out |= ctrl_origins(a)
    elif tag == 'orelse':
        out |= ctrl_origins(term[1]) | ctrl_origins(term[2])
    elif tag in ('fmt', 'ctor', 'op', 'call'):
        for a in term[2]:
            out |= ctrl_origins(a)
    return out


def all_origins(term):
    return {o for o, _ in paths(term)} | ctrl_origins(term)


_COND_MEMO = {}


def cond_origins(conds):
    """origins mentioned by a tuple of leaf conditions (from prov.leaves / tmpl Choice alts)"""
    out = set()
    for c in conds:
        if c[0] in ('if', 'match') and c[1] is not None:
            k = id(c[1])
            hit = _COND_MEMO.get(k)
            if hit is None or hit[0] is not c[1]:
                hit = (c[1], frozenset(op_origins(c[1]) | {o for o, _ in paths(c[1])}))
                _COND_MEMO[k] = hit
            out |= hit[1]
    return out


def op_origins(term):
    """origins inside op/call terms (conditions are mostly 'op' terms)"""
    out = set()
    for s in P.subterms(term):
        if s[0] == 'field':
            out.add(('field', adt_short(s[2]) + '.' + s[3]))
        elif s[0] == 'param':
            out.add(('param', s[1].split('::')[-1] + '#' + str(s[2])))
    return out


def strip_bases(term):
    """drop the `base` of field terms (record identity) — for comparisons modulo which record"""
    if not isinstance(term, tuple):
        return term
    if term and term[0] == 'field':
        return ('field', '*', term[2], term[3])
    if term and term[0] == 'join':
        return P.join([strip_bases(t) for t in term[1]])
    return tuple(strip_bases(x) if isinstance(x, tuple) else x for x in term)


def fields_in(term):
    """set of 'Adt.field' for every origin field mentioned anywhere in the term"""
    out = set()
    for s in P.subterms(term):
        if s[0] == 'field':
            out.add(adt_short(s[2]) + '.' + s[3])
    return out


def consts_in(term):
    return {s[1] for s in P.subterms(term) if s[0] == 'const'}


def globals_in(term):
    return {s[1] for s in P.subterms(term) if s[0] == 'global'}


def value_fields(term):
    """origin fields on the *value* paths of a term: conditions of if/match and lookup keys are not descended into
    (they decide which value is taken, they are not part of it)"""
    out = set()
    seen = set()
    stack = [term]
    while stack:
        t = stack.pop()
        if not isinstance(t, tuple) or not t or id(t) in seen:
            continue
        seen.add(id(t))
        tag = t[0]
        if tag == 'if':
            stack += [t[2], t[3]]
        elif tag == 'match':
            stack += [a for _, a in t[2]]
        elif tag == 'join':
            stack += list(t[1])
        elif tag == 'field':
            out.add(adt_short(t[2]) + '.' + t[3])
            stack.append(t[1])
        elif tag == 'sel':
            # which element is taken is part of what the value is (an id resolved to its node)
            stack += [x for x in t[2:] if isinstance(x, tuple)]
        elif tag in ('xf',):
            stack.append(t[2])
        elif tag in ('cproj', 'tproj', 'early', 'ident'):
            stack.append(t[1])
        elif tag == 'orelse':
            stack += [t[1], t[2]]
        elif tag in ('list', 'tuple'):
            stack += list(t[1])
        elif tag in ('call', 'ctor', 'fmt'):
            stack += [x for x in t[2] if isinstance(x, tuple)]
    return out
