"""Round-7 rules ("contracts between the crates"): the reader side of the introspection JSON front end.

INTRO-KEYS      every struct of graphql_introspection_query::introspection_response that derives Deserialize reads only keys that
                one introspection type of the GraphQL specification has (effective key = serde rename / rename_all / field name;
                flattened members contribute the keys of their own struct), carries no attribute that drops or redirects a member
                (skip, skip_deserializing, deserialize_with/with are undecided), and keeps Deserialize derived.
INTRO-NULLABLE  a member that is required on the Rust side (not Option<_>, no serde(default)) is non-null in the specification's
                introspection schema; everything the specification allows to be null or a client's introspection query may leave
                out is optional.
INTRO-KIND-TABLE the hand-written Deserialize of __TypeKind maps each of the eight specified kind strings to the variant of the same
                spelling, and everything else to the open `Other` variant.
"""
import re

from . import prov as P
from . import hirx as H
from .core import ok, bad, undecided
from .facts import norm_path
from .rules_hir2 import item_attrs, derives_of

REGISTRY = []


def rule(*ids):
    def deco(fn):
        REGISTRY.append((fn, ids))
        return fn
    return deco


# GraphQL specification (October 2021 + the OneOf RFC), section "Schema Introspection": members per introspection type, True = non-null
SPEC = {
    '__Schema': {'description': False, 'types': True, 'queryType': True, 'mutationType': False, 'subscriptionType': False, 'directives': True},
    '__Type': {'kind': True, 'name': False, 'description': False, 'fields': False, 'interfaces': False, 'possibleTypes': False, 'enumValues': False,
               'inputFields': False, 'ofType': False, 'specifiedByURL': False, 'specifiedByUrl': False, 'isOneOf': False},
    '__Field': {'name': True, 'description': False, 'args': True, 'type': True, 'isDeprecated': True, 'deprecationReason': False},
    '__InputValue': {'name': True, 'description': False, 'type': True, 'defaultValue': False, 'isDeprecated': True, 'deprecationReason': False},
    '__EnumValue': {'name': True, 'description': False, 'isDeprecated': True, 'deprecationReason': False},
    '__Directive': {'name': True, 'description': False, 'locations': True, 'args': True, 'isRepeatable': True},
    '<root>': {'__schema': True},
    '<envelope>': {'data': True},
}
KINDS = ('SCALAR', 'OBJECT', 'INTERFACE', 'UNION', 'ENUM', 'INPUT_OBJECT', 'LIST', 'NON_NULL')


def _words(name):
    return [w for w in name.split('_') if w]


def _rename_all(name, style):
    ws = _words(name.strip('_')) or [name]
    if style == 'camelCase':
        return ws[0] + ''.join(w[:1].upper() + w[1:] for w in ws[1:])
    if style == 'PascalCase':
        return ''.join(w[:1].upper() + w[1:] for w in ws)
    if style == 'snake_case' or style is None:
        return name
    if style == 'SCREAMING_SNAKE_CASE':
        return name.upper()
    if style == 'kebab-case':
        return name.replace('_', '-')
    if style == 'SCREAMING-KEBAB-CASE':
        return name.upper().replace('_', '-')
    if style == 'lowercase':
        return name.lower()
    if style == 'UPPERCASE':
        return name.upper()
    return name


def _struct_keys(c, it, aliases, depth=0):
    """(keys: {wire key: (field, required)}, notes) of a struct, flattened members merged in"""
    ca = item_attrs(it, 'serde')
    style = ca.get('rename_all')
    if isinstance(style, dict):
        style = style.get('deserialize')
    keys, notes = {}, []
    for f in it['fields']:
        fa = item_attrs(f, 'serde')
        ty = f['ty'].replace(' ', '')
        ty = aliases.get(ty, ty)
        if fa.get('flatten'):
            tgt = c.ast_item(ty.split('<')[0], 'struct')
            if tgt is None or depth > 6:
                notes.append(('undecided', f, 'flattened member of type %s is not a struct of this crate' % ty))
                continue
            k2, n2 = _struct_keys(c, tgt, aliases, depth + 1)
            keys.update(k2)
            notes.extend(n2)
            continue
        for k in ('skip', 'skip_deserializing'):
            if fa.get(k):
                notes.append(('bad', f, 'member carries serde(%s): it is never read' % k))
        for k in ('deserialize_with', 'with'):
            if fa.get(k):
                notes.append(('undecided', f, 'member is read through a custom function (serde(%s))' % k))
        rn = fa.get('rename')
        if isinstance(rn, dict):
            rn = rn.get('deserialize')
        key = rn if isinstance(rn, str) else _rename_all(f['name'], style)
        required = not ty.startswith('Option<') and not fa.get('default') and not ca.get('default')
        keys[key] = (f, required)
    return keys, notes


@rule('INTRO-KEYS', 'INTRO-NULLABLE')
def rule_intro_keys(ctx):
    obs = []
    c = ctx.crate('introspection')
    structs = [it for it in c.ast_items if it['kind'] == 'struct' and it.get('module') == 'introspection_response']
    if len(structs) < 15:
        return [bad('INTRO-KEYS', 'floor', 'anchor-missing: expected the response structs of introspection_response (>= 15), found %d' % len(structs))]
    aliases = {}
    for it in c.ast_items:
        if it['kind'] in ('type', 'tyalias', 'type_alias') and it.get('name'):
            tgt = it.get('ty') or it.get('target') or ''
            if tgt:
                aliases[it['name']] = tgt.replace(' ', '')
    if 'InputValueType' not in aliases:
        # the alias `type InputValueType = TypeRef;` (the extractor may not list aliases as items)
        aliases['InputValueType'] = 'TypeRef'
    n = 0
    for it in structs:
        name = it['name']
        tpath = 'graphql_introspection_query::introspection_response::' + name
        if 'Deserialize' not in derives_of(ctx, 'introspection', tpath):
            hand = [f_ for f_ in c.all_fns() if ('<' + tpath + ' as serde::de::Deserialize') in f_.key and not f_.from_macro]
            if hand:
                obs.append(undecided('INTRO-KEYS', name + '/derive', 'Deserialize is written by hand: the keys read are not decided', it['loc']))
            continue
        keys, notes = _struct_keys(c, it, aliases)
        for sev, f, msg in notes:
            (obs.append(bad('INTRO-KEYS', '%s.%s/attr' % (name, f['name']), msg, f['loc'], 'a member of the introspection result is dropped')) if sev == 'bad'
             else obs.append(undecided('INTRO-KEYS', '%s.%s/attr' % (name, f['name']), msg, f['loc'])))
        if not keys:
            continue
        # the introspection type this struct reads: the one with the most of its keys
        best, miss = None, None
        for tname, members in SPEC.items():
            m = sorted(k for k in keys if k not in members)
            if miss is None or len(m) < len(miss):
                best, miss = tname, m
        n += 1
        if miss:
            for k in miss:
                f = keys[k][0]
                obs.append(bad('INTRO-KEYS', '%s.%s' % (name, f['name']), 'reads key `%s`, which %s does not have (members: %s)' % (k, best, ', '.join(sorted(SPEC[best]))), f['loc'],
                               'the member is always absent: that part of a JSON schema is silently dropped (or, if required, every JSON schema rejected)'))
        else:
            obs.append(ok('INTRO-KEYS', name, 'keys %s are members of %s' % (sorted(keys), best), it['loc']))
        # required members
        cands = [t for t, members in SPEC.items() if all(k in members for k in keys)] or [best]
        for k, (f, required) in sorted(keys.items()):
            if not required or k in miss:
                continue
            inst = '%s.%s' % (name, f['name'])
            if k == 'name' and 'ofType' not in keys and 'defaultValue' not in keys:
                # __Type.name is null only for the LIST / NON_NULL wrappers, which are read through the structs that have `ofType`
                obs.append(ok('INTRO-NULLABLE', inst, 'required name of a named definition', f['loc']))
            elif any(SPEC[t].get(k) for t in cands):
                obs.append(ok('INTRO-NULLABLE', inst, 'required, and `%s` is non-null in the specification' % k, f['loc']))
            else:
                obs.append(bad('INTRO-NULLABLE', inst, 'member `%s: %s` is required but `%s` is nullable in %s' % (f['name'], f['ty'], k, '/'.join(cands)), f['loc'],
                               'a valid introspection result with null / without this member is rejected by the JSON front end only'))
    if n < 15:
        obs.append(bad('INTRO-KEYS', 'floor', 'only %d response structs decided (expected >= 15)' % n))
    return obs


def _walk(e):
    return H.walk(e)


def _kind_table(fn, enum_name):
    """{literal: variant name or '?'} and the fallback's variant, from the match on string literals in fn"""
    for m in _walk(fn.body):
        if m.get('k') != 'match':
            continue
        sums = [P.pat_summary(a['pat']) for a in m['arms']]
        if not any(s[0] == 'lit' and isinstance(s[1], str) for s in sums):
            continue
        table, other = {}, None
        for a, s in zip(m['arms'], sums):
            variants = set()
            for x in _walk(a['body']):
                if x.get('k') == 'path' and (x.get('res') or {}).get('r') in ('def', 'ctor'):
                    p = norm_path(x['res'].get('path', ''))
                    if ('::' + enum_name + '::') in p:
                        variants.add(p.rsplit('::', 1)[1])
                elif x.get('k') == 'call':
                    for p in H.callee_paths(x):
                        if ('::' + enum_name + '::') in p:
                            variants.add(p.rsplit('::', 1)[1])
            v = next(iter(variants)) if len(variants) == 1 else '?'
            lits = [s[1]] if s[0] == 'lit' else [p[1] for p in s[1] if p[0] == 'lit'] if s[0] == 'or' else None
            if lits is None:
                other = (v, a.get('guard') is not None)
            else:
                for l in lits:
                    table.setdefault(l, (v, a.get('guard') is not None))
        return m, table, other
    return None, None, None


@rule('INTRO-KIND-TABLE')
def rule_kind_table(ctx):
    obs = []
    c = ctx.crate('introspection')
    fns = [f for f in c.all_fns() if '__TypeKind as serde::de::Deserialize' in f.key and f.key.endswith('::deserialize') and not f.from_macro]
    if not fns:
        if 'Deserialize' in derives_of(ctx, 'introspection', 'graphql_introspection_query::introspection_response::__TypeKind'):
            return [undecided('INTRO-KIND-TABLE', '__TypeKind/derive', 'Deserialize is derived for __TypeKind: the variant names are the table (closed unless serde(other))')]
        return [bad('INTRO-KIND-TABLE', 'floor', 'anchor-missing: the Deserialize impl of __TypeKind was not found')]
    fn = fns[0]
    m, table, other = _kind_table(fn, '__TypeKind')
    if m is None:
        # the table may sit in a private helper the impl calls (`fn from_wire(s: &str) -> __TypeKind`)
        seen_ = set()
        for hf, n_ in H.deep_nodes(ctx, fn, fn.body, depth=2):
            if hf.key != fn.key and hf.key not in seen_:
                seen_.add(hf.key)
                m, table, other = _kind_table(hf, '__TypeKind')
                if m is not None:
                    fn = hf
                    break
    if m is None:
        return [undecided('INTRO-KIND-TABLE', '__TypeKind/shape', 'no match on string literals in the Deserialize impl', fn.loc)]
    for k in KINDS:
        got = table.get(k)
        if got is None:
            obs.append(bad('INTRO-KIND-TABLE', '__TypeKind/' + k, 'the kind string "%s" has no arm' % k, m.get('sp', fn.loc), 'types of this kind are read as Other and dropped from JSON schemas'))
        elif got[1]:
            obs.append(undecided('INTRO-KIND-TABLE', '__TypeKind/' + k, 'the arm of "%s" is guarded' % k, m.get('sp', fn.loc)))
        elif got[0] != k:
            obs.append(bad('INTRO-KIND-TABLE', '__TypeKind/' + k, 'the kind string "%s" is read as __TypeKind::%s' % (k, got[0]), m.get('sp', fn.loc),
                           'types of this kind are ingested as another kind from JSON schemas only'))
        else:
            obs.append(ok('INTRO-KIND-TABLE', '__TypeKind/' + k, '"%s" -> __TypeKind::%s' % (k, k), m.get('sp', fn.loc)))
    for l, (v, g) in sorted(table.items()):
        if l not in KINDS and v in KINDS:
            obs.append(bad('INTRO-KIND-TABLE', '__TypeKind/extra:' + l, 'the unspecified string "%s" is read as __TypeKind::%s' % (l, v), m.get('sp', fn.loc), 'a foreign kind is ingested as a known one'))
    if other is None:
        obs.append(undecided('INTRO-KIND-TABLE', '__TypeKind/other', 'no catch-all arm recognised', m.get('sp', fn.loc)))
    elif other[0] != 'Other':
        obs.append(bad('INTRO-KIND-TABLE', '__TypeKind/other', 'unknown kind strings are read as %s' % other[0], m.get('sp', fn.loc), 'unknown kinds are rejected or mistaken for a known kind'))
    else:
        obs.append(ok('INTRO-KIND-TABLE', '__TypeKind/other', 'unknown strings -> Other(..)', m.get('sp', fn.loc)))
    # the string matched is the deserialized string itself
    st = m['scrut']
    while isinstance(st, dict) and st.get('k') in ('ref', 'unary', 'wrap') and 'e' in st:
        st = st['e']
    if st.get('k') == 'mcall' and st.get('method') not in ('as_str', 'as_ref', 'borrow', 'deref', 'as_deref'):
        obs.append(bad('INTRO-KIND-TABLE', '__TypeKind/scrutinee', 'the string is transformed by .%s() before the table lookup' % st['method'], st.get('sp', fn.loc),
                       'kind strings are compared after a transformation the specification does not have'))
    else:
        obs.append(ok('INTRO-KIND-TABLE', '__TypeKind/scrutinee', 'the deserialized string is matched as is', m.get('sp', fn.loc)))
    return obs


# ================================================================================================
# POST-HELPER — graphql_client::reqwest::post_graphql*: what is sent is build_query(variables), what is returned is Response<ResponseData>
# ================================================================================================

def _param_names(fn):
    out = []
    for p in fn.params:
        pat = p.get('pat') if isinstance(p, dict) else None
        out.append((pat or {}).get('name') if isinstance(pat, dict) else None)
    return out


def _param_hids(fn):
    from .rules_hir import _pat_hids
    out = set()
    for p in fn.params:
        out |= _pat_hids(p)
    return out


def _is_param(fn, e, name):
    while isinstance(e, dict) and e.get('k') in ('ref', 'wrap', 'unary') and 'e' in e:
        e = e['e']
    return isinstance(e, dict) and e.get('k') == 'path' and (e.get('res') or {}).get('r') == 'local' and (name is None or fn.bind_names.get(e['res'].get('hid')) == name) \
        and not [s for s in fn.binds.get(e['res'].get('hid'), []) if s[0] in ('expr', 'assign')] and e['res'].get('hid') in _param_hids(fn)


@rule('POST-HELPER')
def rule_post_helper(ctx):
    obs = []
    c = ctx.crate('client')
    fns = [f for f in c.all_fns() if norm_path(f.path).startswith('graphql_client::reqwest::post_graphql') and not f.from_macro]
    if not fns:
        return [bad('POST-HELPER', 'floor', 'anchor-missing: no graphql_client::reqwest::post_graphql* helper in the analysed build')]
    for fn in fns:
        name = norm_path(fn.path).rsplit('::', 1)[1]
        calls = [n for n in H.walk(fn.body) if n.get('k') in ('call', 'mcall')]
        bq = [n for n in calls if any(p.endswith('GraphQLQuery::build_query') for p in H.callee_paths(n))]
        if not bq:
            # the request may be built in a private helper of the module: decide it there
            for n in list(calls):
                for lf in ctx.pv.local_fns(n.get('callee')) or []:
                    hc = [x for x in H.walk(lf.body) if x.get('k') in ('call', 'mcall')]
                    if any(p.endswith('GraphQLQuery::build_query') for x in hc for p in H.callee_paths(x)) and not lf.from_macro:
                        rest = [x for x in calls if x is not n]
                        fn_outer, fn = fn, lf
                        calls = hc + rest
                        bq = [x for x in hc if any(p.endswith('GraphQLQuery::build_query') for p in H.callee_paths(x))]
                        break
                if bq:
                    break
        if len(bq) != 1 or not _is_param(fn, (bq[0].get('args') or [None])[0], None):
            obs.append(bad('POST-HELPER', name + '/body', 'the body is not build_query(variables) of the query type (%d build_query calls)' % len(bq), fn.loc,
                           'a request body other than the operation\'s own document / variables is sent'))
            continue
        setters = [n for n in calls if n.get('k') == 'mcall' and any('RequestBuilder::' in p for p in H.callee_paths(n))
                   and n['method'] in ('json', 'body', 'form', 'query', 'multipart')]
        verb = [n for n in calls if n.get('k') == 'mcall' and any('Client::' in p for p in H.callee_paths(n)) and n['method'] in ('post', 'get', 'put', 'patch', 'delete', 'head', 'request')]
        if len(verb) != 1 or verb[0]['method'] != 'post' or not (_is_param(fn, (verb[0].get('args') or [None])[0], None) or any(_is_param(f2, (verb[0].get('args') or [None])[0], None) for f2 in fns)):
            obs.append(bad('POST-HELPER', name + '/verb', 'the request is not client.post(url) (%s)' % [v['method'] for v in verb], fn.loc, 'GraphQL over HTTP: the body is not delivered'))
        else:
            obs.append(ok('POST-HELPER', name + '/verb', 'client.post(url)', verb[0].get('sp', fn.loc)))
        if len(setters) != 1 or setters[0]['method'] != 'json':
            obs.append(bad('POST-HELPER', name + '/body', 'the body is set by %s' % [s['method'] for s in setters], fn.loc, 'the QueryBody is not sent as the JSON object the property describes'))
        else:
            arg = (setters[0].get('args') or [None])[0]
            srcs = [n for n in H.walk_through_locals(fn, arg) if n is bq[0]] if arg is not None else []
            direct = arg
            while isinstance(direct, dict) and direct.get('k') in ('ref', 'wrap') and 'e' in direct:
                direct = direct['e']
            whole = direct is bq[0] or (isinstance(direct, dict) and direct.get('k') == 'path' and (direct.get('res') or {}).get('r') == 'local' and
                                        [s for s in fn.binds.get(direct['res'].get('hid'), []) if s[0] == 'expr' and s[1] is bq[0]])
            if srcs and whole:
                obs.append(ok('POST-HELPER', name + '/body', '.json(&build_query(variables))', setters[0].get('sp', fn.loc)))
            elif srcs:
                obs.append(bad('POST-HELPER', name + '/body', 'only a part / a transformation of the QueryBody is sent', setters[0].get('sp', fn.loc),
                               'members of the request body are missing'))
            else:
                obs.append(bad('POST-HELPER', name + '/body', 'the value sent does not come from build_query', setters[0].get('sp', fn.loc), 'wrong body'))
        # the answer: Response<Q::ResponseData> read with .json()
        ret = (fn.d.get('ret') or fn.d.get('sig') or '')
        readers = [n for n in calls if n.get('k') == 'mcall' and any('Response::' in p for p in H.callee_paths(n)) and n['method'] in ('json', 'text', 'bytes', 'error_for_status')]
        if [r for r in readers if r['method'] == 'json'] and not [r for r in readers if r['method'] in ('text', 'bytes')]:
            obs.append(ok('POST-HELPER', name + '/answer', 'the answer is read with .json() into the declared Response type', fn.loc))
        else:
            obs.append(undecided('POST-HELPER', name + '/answer', 'the answer is read by %s' % [r['method'] for r in readers], fn.loc))
    return obs


# ================================================================================================
# DEP-FEATURES — the resolved feature set of serde / serde_json in the workspace build
# ================================================================================================

# serde_json features under which numbers stop being plain numbers for serde's buffered content (serde-rs/json#505, serde-rs/serde#1183):
# generated code relies on buffering for `#[serde(tag = "__typename")]`, `#[serde(flatten)]` and the untagged ID helper
CONTENT_HOSTILE = {'serde_json': {'arbitrary_precision'}}


@rule('DEP-FEATURES')
def rule_dep_features(ctx):
    import json
    import os
    import subprocess
    from .facts import REPO
    env = dict(os.environ)
    env['CARGO_NET_OFFLINE'] = 'true'
    try:
        r = subprocess.run(['cargo', 'metadata', '--offline', '--format-version', '1'], cwd=REPO, env=env, stdout=subprocess.PIPE, stderr=subprocess.PIPE, text=True, timeout=120)
        md = json.loads(r.stdout)
    except Exception as e:  # noqa
        return [bad('DEP-FEATURES', 'floor', 'anchor-missing: cargo metadata did not resolve the workspace (%s)' % str(e)[:120])]
    obs = []
    names = {p['id']: p for p in md.get('packages', [])}
    seen = set()
    for n in (md.get('resolve') or {}).get('nodes', []):
        p = names.get(n['id'])
        if p is None or p['name'] not in CONTENT_HOSTILE:
            continue
        seen.add(p['name'])
        hostile = sorted(set(n.get('features', [])) & CONTENT_HOSTILE[p['name']])
        if not hostile:
            obs.append(ok('DEP-FEATURES', p['name'], 'resolved features %s' % sorted(n.get('features', [])), 'Cargo.lock'))
            continue
        # which workspace manifest asks for it
        askers = []
        for wid in md.get('workspace_members', []):
            wp = names.get(wid)
            for d in (wp or {}).get('dependencies', []):
                if d['name'] == p['name'] and set(d.get('features', [])) & set(hostile):
                    askers.append(os.path.relpath(wp['manifest_path'], REPO))
        for h in hostile:
            obs.append(bad('DEP-FEATURES', '%s/%s' % (p['name'], h), '%s is built with feature `%s` (requested by %s)' % (p['name'], h, ', '.join(sorted(set(askers))) or 'a dependency'),
                           (sorted(set(askers)) or ['Cargo.lock'])[0],
                           'numbers inside internally tagged unions, flattened fragment spreads and the untagged ID helper are buffered as maps and no longer deserialize'))
    for want in CONTENT_HOSTILE:
        if want not in seen:
            obs.append(bad('DEP-FEATURES', 'floor/' + want, 'anchor-missing: %s is not in the resolved dependency graph' % want))
    return obs


# ================================================================================================
# VALUE-FOLD — the derive's keyword-valued attributes (`deprecated`, `normalization`) are looked up in lower-case tables: all of them
# fold the case of what the user wrote on the way to the table, or none does (siblings must agree)
# ================================================================================================

FOLDS = ('to_lowercase', 'to_ascii_lowercase', 'eq_ignore_ascii_case', 'make_ascii_lowercase')


def _folds(fn, e):
    """is the case folded in expression e (read through the let-bound locals it uses)?"""
    for n in H.walk_through_locals(fn, e):
        if n.get('k') == 'mcall' and n.get('method') in FOLDS:
            return True
        if n.get('k') == 'call' and any(p.rsplit('::', 1)[-1] in FOLDS for p in H.callee_paths(n)):
            return True
    return False


@rule('VALUE-FOLD')
def rule_value_fold(ctx):
    obs = []
    d = ctx.crate('derive')
    sites = []
    generic = []
    for fn in d.all_fns():
        if fn.from_macro:
            continue
        for n in H.walk(fn.body):
            target = None
            if n.get('k') == 'mcall' and n.get('method') == 'parse' and any(p.endswith('str::parse') for p in H.callee_paths(n)):
                target = ((n.get('callee') or {}).get('gargs') or '').strip('[]').split(',')[0].strip()
            elif n.get('k') == 'call' and any(p.endswith('FromStr::from_str') for p in H.callee_paths(n)):
                m = re.search(r'<(.+?) as ', (n.get('callee') or {}).get('resolved', '') or '')
                target = m.group(1) if m else ((n.get('callee') or {}).get('gargs') or '').strip('[]').split(',')[0].strip() or None
            if target and target.startswith('graphql_client_codegen::'):
                sites.append((fn, n, target))
            elif target is not None and re.match(r'^[A-Z]\w*(/#\d+)?$', target):
                generic.append((fn, n))
    if len(sites) < 2 and generic:
        # one generic helper parses every keyword-valued attribute: the siblings agree by construction
        return [ok('VALUE-FOLD', short_name(g_[0]) + '/shared', 'one shared helper parses the keyword-valued attributes (case %s there)' % (
            'folded' if _folds(g_[0], g_[1].get('recv') if g_[1].get('k') == 'mcall' else g_[1].get('args')) else 'not folded'), g_[1].get('sp', g_[0].loc)) for g_ in generic]
    if len(sites) < 2:
        return [bad('VALUE-FOLD', 'floor', 'anchor-missing: expected the keyword-valued attributes of the derive (deprecated, normalization) to be parsed through FromStr, found %d sites' % len(sites))]
    rows = []
    for fn, n, target in sites:
        impl = [f for f in ctx.crate('codegen').all_fns() if f.key.endswith('::from_str') and ('<' + target + ' as ') in f.key]
        if not impl:
            obs.append(undecided('VALUE-FOLD', short_name(fn) + '/table', 'FromStr impl of %s not found' % target, fn.loc))
            continue
        m, table, other = _kind_table(impl[0], target.rsplit('::', 1)[-1])
        lits = sorted(table) if table else []
        lower_only = bool(lits) and all(l == l.lower() and l != l.upper() for l in lits)
        folded = _folds(fn, n.get('recv') if n.get('k') == 'mcall' else n.get('args')) or _folds(impl[0], impl[0].body)
        rows.append((fn, n, target, lits, lower_only, folded))
    folding = [r for r in rows if r[5]]
    for fn, n, target, lits, lower_only, folded in rows:
        inst = short_name(fn)
        if folded or not lower_only:
            obs.append(ok('VALUE-FOLD', inst, 'value -> %s: %s' % (target.rsplit('::', 1)[-1], 'case folded before the lower-case table %s' % lits if folded else 'table %s is not lower-case only' % lits), n.get('sp', fn.loc)))
        elif folding:
            obs.append(bad('VALUE-FOLD', inst, 'the value is compared case-sensitively with the lower-case table %s of %s, while %s folds the case of its value' % (
                lits, target.rsplit('::', 1)[-1], ', '.join(sorted(short_name(r[0]) for r in folding))), n.get('sp', fn.loc),
                'an option written with another capitalisation is (silently) not applied although its sibling accepts it'))
        else:
            obs.append(ok('VALUE-FOLD', inst, 'no keyword-valued attribute folds case (siblings agree): table %s' % lits, n.get('sp', fn.loc)))
    return obs


def short_name(fn):
    return norm_path(fn.path).rsplit('::', 1)[-1]
