"""HIR utilities: call graph, consumption idioms, structural dominance, node search."""
from . import facts as F
from . import prov as P

NEUTRAL_OPTION_METHODS = {'map', 'and_then', 'copied', 'cloned', 'as_ref', 'as_mut', 'as_deref', 'map_err', 'iter',
                          'into_iter', 'filter', 'or_else', 'inspect', 'by_ref', 'take'}
PANICKING = {'expect', 'unwrap', 'unwrap_or_else_panic'}
DROPPING = {'ok', 'unwrap_or', 'unwrap_or_default', 'unwrap_or_else', 'is_some', 'is_none', 'is_ok', 'is_err', 'err',
            'map_or', 'map_or_else', 'is_some_and', 'unwrap_unchecked'}


def callee_paths(n):
    c = n.get('callee') or {}
    out = set()
    for k in ('path', 'resolved'):
        if c.get(k):
            out.add(F.norm_path(c[k]))
    return out


def calls_in(fn, pred=None, include_closures=True):
    for n in fn.walk(lambda n: n['k'] in ('call', 'mcall')):
        if pred is None or pred(n):
            yield n


def find_calls(fn, suffixes, method=None):
    """call nodes whose callee path (declared or resolved) ends with one of `suffixes`"""
    out = []
    for n in calls_in(fn):
        ps = callee_paths(n)
        if any(p.endswith(s) for p in ps for s in suffixes):
            out.append(n)
        elif method and n['k'] == 'mcall' and n['method'] == method and not ps:
            out.append(n)
    return out


def _leaves_fn(e):
    """does this arm body end the function with `return ..` (directly or as the last statement of a block)?"""
    while isinstance(e, dict) and e.get('k') == 'wrap':
        e = e['e']
    if not isinstance(e, dict):
        return False
    if e.get('k') == 'ret':
        return True
    if e.get('k') == 'block':
        if e.get('expr') is not None:
            return _leaves_fn(e['expr'])
        if e.get('stmts'):
            last = e['stmts'][-1]
            return last.get('k') == 'stmt' and _leaves_fn(last['e'])
    return False


def a_guard_free(m):
    return all(a_.get('guard') is None for a_ in m.get('arms', []))


def consumption(fn, node):
    """How is the value of `node` consumed?  returns (kind, detail)
    kinds: propagated | panics | letelse | match | stored | field | dropped | returned | arg | cond | other"""
    cur = node
    converted = False
    while True:
        pr = fn.parent.get(id(cur))
        if not pr or pr[0] is None:
            return ('returned', 'fn tail') if not converted else ('returned', 'fn tail')
        parent, role = pr
        k = parent.get('k')
        if k in ('wrap', 'ref', 'cast', 'macro') or (k == 'unary' and parent.get('op') == '*'):
            cur = parent
            continue
        if k == 'mcall' and role == 'recv':
            m = parent['method']
            if m in ('ok_or_else', 'ok_or'):
                converted = True
                cur = parent
                continue
            if m in PANICKING:
                return ('panics', m)
            if m in NEUTRAL_OPTION_METHODS:
                cur = parent
                continue
            if m in DROPPING:
                return ('dropped', '.' + m + '()')
            return ('used', '.' + m + '()')
        if k == 'try':
            return ('propagated', '?')
        if k == 'let':
            if parent.get('els') is not None:
                return ('letelse', 'let-else')
            pat = parent['pat']
            if pat.get('k') == 'bind':
                return ('stored', pat['name'])
            if pat.get('k') == 'wild':
                return ('dropped', 'let _ =')
            return ('destructured', P.show_pat(P.pat_summary(pat)))
        if k == 'match' and role == 'scrut':
            # `match r { Ok(v) => v, Err(e) => return Err(..) }` is `?` written out
            err_arms = []
            for a_ in parent.get('arms', []):
                p_ = a_['pat']
                while p_.get('k') in ('ref', 'guard') and 'pat' in p_:
                    p_ = p_['pat']
                path_ = (p_.get('res') or {}).get('path', '') if isinstance(p_.get('res'), dict) else ''
                if path_.endswith(('::Err', '::None')) or (p_.get('k') in ('wild', 'bind') and len(parent.get('arms', [])) == 2 and a_ is parent['arms'][-1]):
                    err_arms.append(a_)
            if err_arms and all(_leaves_fn(a_['body']) for a_ in err_arms) and a_guard_free(parent):
                return ('propagated', 'match with returning Err arm')
            return ('match', parent)
        if k == 'letx':
            return ('iflet', parent)
        if k == 'if' and role == 'cond':
            return ('cond', parent)
        if k == 'block' and role == 'expr':
            cur = parent
            continue
        if k == 'block' and isinstance(role, tuple) and role[0] == 'stmts':
            return ('dropped', 'statement value discarded')
        if k == 'stmt':
            return ('dropped', 'statement value discarded')
        if k == 'ret':
            return ('returned', 'return')
        if k == 'struct':
            return ('field', parent)
        if k == 'assign' and role == 'r':
            return ('assigned', parent['l'])
        if k == 'mcall' and cur.get('k') == 'closure' and parent['method'] in ('try_for_each', 'try_fold', 'and_then', 'or_else'):
            # the closure's Result/Option becomes the result of the iterator method
            cur = parent
            continue
        if k in ('call', 'mcall'):
            return ('arg', parent)
        if k == 'closure':
            # value of a closure body: consumed by whoever calls the closure
            cur = parent
            continue
        if k in ('if', 'match'):
            # value of a branch = value of the whole expression
            cur = parent
            continue
        return ('other', k)


def stmt_chain(fn, node):
    """[(block, index)] from outermost to innermost for the statements containing `node`"""
    out = []
    for parent, role, child in fn.ancestors(node):
        if parent.get('k') == 'block':
            if isinstance(role, tuple) and role[0] == 'stmts':
                out.append((parent, role[1]))
            elif role == 'expr':
                out.append((parent, len(parent['stmts'])))
    out.reverse()
    return out


def conditional_context(fn, node, upto=None):
    """list of conditional constructs between `node` and `upto` (exclusive): if-branches, match arms, closures, loops"""
    out = []
    for parent, role, child in fn.ancestors(node):
        if upto is not None and parent is upto:
            break
        k = parent.get('k')
        if k == 'if' and role in ('then', 'else'):
            out.append(('if', parent, role))
        elif k == 'match' and isinstance(role, tuple) and role[0] == 'arms':
            out.append(('match', parent, role[1]))
        elif k == 'closure':
            out.append(('closure', parent, None))
        elif k in ('for', 'loop') and role == 'body':
            out.append((k, parent, None))
    return out


def precedes(fn, a, b):
    """structural dominance: `a` is evaluated, unconditionally, before `b` on every path that reaches `b`.
    Returns (bool, reason)."""
    ca = stmt_chain(fn, a)
    cb = stmt_chain(fn, b)
    # deepest common block
    common = None
    for (ba, ia), (bb, ib) in zip(ca, cb):
        if ba is bb:
            common = (ba, ia, ib)
            if ia != ib:
                break
        else:
            break
    if common is None:
        return False, 'no common block'
    blk, ia, ib = common
    if ia >= ib:
        return False, 'not earlier in the common block'
    # a must be unconditional within its statement of the common block
    stmt_a = blk['stmts'][ia] if ia < len(blk['stmts']) else blk.get('expr')
    cc = []
    for parent, role, child in fn.ancestors(a):
        if parent is blk:
            break
        k = parent.get('k')
        if k == 'if' and role in ('then', 'else'):
            cc.append('if')
        elif k == 'match' and isinstance(role, tuple) and role[0] == 'arms':
            cc.append('match-arm')
        elif k == 'closure':
            cc.append('closure')
        elif k == 'loop' and role == 'body':
            cc.append('loop')
        elif k == 'for' and role == 'body':
            cc.append('for')
    if cc:
        return False, 'earlier but conditional (%s)' % ','.join(cc)
    return True, 'earlier statement of the same block'


def sym_env(fn):
    """environment binding the fn's own parameters to symbolic terms (analysis relative to the fn itself)"""
    env = {}

    def bind(pat, term):
        k = pat.get('k')
        if k == 'bind':
            env[pat['hid']] = term
        elif k in ('ref', 'guard'):
            bind(pat['pat'], term)
        elif k == 'tuple':
            for i, p in enumerate(pat['pats']):
                bind(p, ('tproj', term, i))
    for i, p in enumerate(fn.params):
        name = p.get('name', '') if p.get('k') == 'bind' else ''
        bind(p, ('param', fn.key, i, name))
    return env


def walk(e):
    stack = [e]
    while stack:
        n = stack.pop()
        if isinstance(n, list):
            stack.extend(n)
        elif isinstance(n, dict):
            if 'k' in n:
                yield n
            for key, v in n.items():
                if isinstance(v, (dict, list)) and not key.startswith('_'):
                    stack.append(v)


def walk_through_locals(fn, e, depth=4, _seen=None):
    """nodes of e, and of the initialisers of the `let`-bound locals e reads (a named sub-expression is the same test)"""
    _seen = _seen if _seen is not None else set()
    for n in walk(e):
        yield n
        if n['k'] == 'path' and n['res'].get('r') == 'local' and depth > 0:
            h = n['res']['hid']
            if h in _seen:
                continue
            _seen.add(h)
            srcs = fn.binds.get(h, [])
            if len(srcs) == 1 and srcs[0][0] == 'expr':
                yield from walk_through_locals(fn, srcs[0][1], depth - 1, _seen)
            elif len(srcs) == 1:
                # an element of an iterated collection (closure parameter of `.any(|x| ..)`, pattern of a `for`)
                s_ = srcs[0]
                while s_[0] == 'proj':
                    s_ = s_[1]
                if s_[0] == 'cparam':
                    pr = fn.parent.get(id(s_[1]))
                    while pr and pr[0] is not None and pr[0].get('k') in ('wrap', 'ref'):
                        pr = fn.parent.get(id(pr[0]))
                    if pr and pr[0] is not None and pr[0].get('k') == 'mcall':
                        yield from walk_through_locals(fn, pr[0]['recv'], depth - 1, _seen)
                elif s_[0] == 'expr':
                    yield from walk_through_locals(fn, s_[1], depth - 1, _seen)


def deep_nodes(ctx, fn, e, depth=2, _seen=None, through_locals=False, skip=None):
    """nodes of expression e, plus the bodies of workspace fns called inside it (transitively, `depth` levels);
    with through_locals also the initialisers / assigned values of the locals read.  yields (fn, node)."""
    _seen = _seen if _seen is not None else set()
    stack = [e]
    while stack:
        n = stack.pop()
        if isinstance(n, list):
            stack.extend(n)
            continue
        if not isinstance(n, dict):
            continue
        if 'k' in n:
            yield fn, n
            if through_locals and n['k'] == 'path' and n['res'].get('r') == 'local':
                key_ = (fn.key, n['res']['hid'])
                if key_ not in _seen:
                    _seen.add(key_)
                    for src in fn.binds.get(n['res']['hid'], []):
                        s_ = src
                        while s_[0] == 'proj':
                            s_ = s_[1]
                        if s_[0] in ('expr', 'assign'):
                            stack.append(s_[1])
                        elif s_[0] == 'mut':
                            stack.append(s_[2])
            if depth > 0 and n['k'] in ('call', 'mcall', 'path'):
                cal = n.get('callee')
                if n['k'] == 'path':
                    r = n['res']
                    cal = {'path': r['path'], 'resolved': n.get('resolved')} if r.get('r') == 'def' and r.get('dk') in ('Fn', 'AssocFn') else None
                for lf in (ctx.pv.local_fns(cal) if cal else []):
                    if lf.key not in _seen and not lf.from_macro and not (skip and skip(lf)):
                        _seen.add(lf.key)
                        yield from deep_nodes(ctx, lf, lf.body, depth - 1, _seen, through_locals, skip)
        for key, v in n.items():
            if isinstance(v, (dict, list)) and not key.startswith('_'):
                stack.append(v)


class CallGraph:
    def __init__(self, prog, pv):
        self.prog = prog
        self.pv = pv
        self.edges = {}     # fn.key -> set of fn.key
        self.sites = {}     # (caller key, callee key) -> [node]
        self.ext = {}       # fn.key -> set of external callee paths
        for c in prog.crates.values():
            for fn in c.all_fns():
                es = self.edges.setdefault(fn.key, set())
                ex = self.ext.setdefault(fn.key, set())
                for n in fn.walk(lambda n: n['k'] in ('call', 'mcall', 'path')):
                    if n['k'] == 'path':
                        pr = fn.parent.get(id(n))
                        if pr and pr[0] is not None and pr[0].get('k') == 'call' and pr[1] == 'f':
                            continue  # the callee position of a call: already counted by the call node
                        # fn items used as values (e.g. `.map(ToString::to_string)`, `filter_map(TypeId::as_scalar_id)`)
                        r = n['res']
                        if r.get('r') == 'def' and r.get('dk') in ('Fn', 'AssocFn'):
                            cal = {'path': r['path'], 'resolved': n.get('resolved')}
                        else:
                            continue
                    else:
                        cal = n.get('callee')
                    if not cal:
                        continue
                    lf = pv.local_fns(cal)
                    if lf:
                        for t in lf:
                            es.add(t.key)
                            self.sites.setdefault((fn.key, t.key), []).append(n)
                    else:
                        for k in ('path', 'resolved'):
                            if cal.get(k):
                                ex.add(F.norm_path(cal[k]))

    def reachable(self, start_keys):
        seen = set()
        stack = list(start_keys)
        while stack:
            k = stack.pop()
            if k in seen:
                continue
            seen.add(k)
            stack.extend(self.edges.get(k, ()))
        return seen

    def sccs(self):
        """Tarjan; returns list of sets with |scc|>1 or self-loop"""
        index = {}
        low = {}
        onstack = set()
        stack = []
        out = []
        counter = [0]
        import sys
        sys.setrecursionlimit(100000)

        def strong(v):
            index[v] = low[v] = counter[0]
            counter[0] += 1
            stack.append(v)
            onstack.add(v)
            for w in self.edges.get(v, ()):
                if w not in index:
                    strong(w)
                    low[v] = min(low[v], low[w])
                elif w in onstack:
                    low[v] = min(low[v], index[w])
            if low[v] == index[v]:
                comp = set()
                while True:
                    w = stack.pop()
                    onstack.discard(w)
                    comp.add(w)
                    if w == v:
                        break
                if len(comp) > 1 or v in self.edges.get(v, ()):
                    out.append(comp)
        for v in list(self.edges):
            if v not in index:
                strong(v)
        return out


class Flat:
    """A function seen together with the private helpers it delegates to (same crate, followed `depth` levels):
    the unit over which "what is called, with what, in which order" is decided, so that extracting a block into a
    helper function does not change the verdict.

    Every node has an owner fn and a *proxy*: the node of the entry fn through which control reaches it (the node
    itself for nodes of the entry fn, otherwise the call of the outermost helper).  Values are evaluated with the
    helper's parameters bound to the caller's argument terms, so the entry's own parameters stay symbolic."""

    def __init__(self, ctx, fn, depth=2, crate_prefix=None):
        self.ctx = ctx
        self.fn = fn
        self.prefix = crate_prefix or fn.key.split('::')[0] + '::'
        self.entries = []          # (owner, node, proxy)
        self.owner = {}
        self.proxy = {}
        self.caller = {}           # helper key -> (caller owner, call node)
        self._envs = {}
        self._add(fn, fn.body, None, depth, {fn.key})

    def _add(self, owner, body, proxy, depth, seen):
        for n in walk(body):
            px = proxy if proxy is not None else n
            self.entries.append((owner, n, px))
            self.owner[id(n)] = owner
            self.proxy[id(n)] = px
            if depth > 0 and n['k'] in ('call', 'mcall'):
                for lf in self.ctx.pv.local_fns(n.get('callee')):
                    if lf.key in seen or lf.from_macro or not lf.key.startswith(self.prefix):
                        continue
                    seen.add(lf.key)
                    self.caller[lf.key] = (owner, n)
                    self._add(lf, lf.body, px, depth - 1, seen)

    # ---- lookup -------------------------------------------------------------------------------
    def nodes(self, pred):
        return [n for o, n, p in self.entries if pred(n)]

    def calls(self):
        return [n for o, n, p in self.entries if n['k'] in ('call', 'mcall')]

    def mcalls(self, *methods):
        return [n for o, n, p in self.entries if n['k'] == 'mcall' and (not methods or n['method'] in methods)]

    def calls_to(self, *suffixes):
        return [n for n in self.calls() if any(p.endswith(suffixes) for p in callee_paths(n))]

    def calls_of(self, lfn):
        return [n for n in self.calls() if lfn in self.ctx.pv.local_fns(n.get('callee'))]

    def owner_of(self, n):
        return self.owner.get(id(n), self.fn)

    # ---- values -------------------------------------------------------------------------------
    def env_of(self, owner):
        if owner.key in self._envs:
            return self._envs[owner.key]
        if owner is self.fn or owner.key not in self.caller:
            env = sym_env(owner)
        else:
            cowner, call = self.caller[owner.key]
            cenv = self.env_of(cowner)
            args = ([call['recv']] if call['k'] == 'mcall' else []) + call['args']
            terms = [self.ctx.pv.eval(cowner, a, cenv, 0) for a in args]
            env = {}
            self.ctx.pv.bind_params(owner, owner.params, terms, env, 0)
        self._envs[owner.key] = env
        return env

    def eval(self, n):
        o = self.owner_of(n)
        return self.ctx.pv.eval(o, n, self.env_of(o), 0)

    # ---- order / consumption ----------------------------------------------------------------------
    def precedes(self, a, b):
        oa, ob = self.owner_of(a), self.owner_of(b)
        if oa is ob:
            return precedes(oa, a, b)
        pa, pb = self.proxy[id(a)], self.proxy[id(b)]
        if pa is pb:
            return False, 'reached through the same call'
        # a inside a helper must be unconditional there for the helper call to stand for it
        if oa is not self.fn:
            cc = [c[0] for c in conditional_context(oa, a)]
            if cc:
                return False, 'conditional inside %s (%s)' % (oa.path.split('::')[-1], ','.join(cc))
        # proxies live in the entry fn (or in a common intermediate helper: compare there)
        fa = self.owner_of(pa)
        return precedes(fa, pa, pb)

    def consumption(self, n):
        o = self.owner_of(n)
        kind, det = consumption(o, n)
        hops = 0
        while kind == 'returned' and o is not self.fn and o.key in self.caller and hops < 4:
            hops += 1
            o, n = self.caller[o.key]
            kind, det = consumption(o, n)
        return kind, det

    def path_conds(self, n):
        """path conditions of n inside its owner plus those of the calls leading to the owner (outermost first)"""
        o = self.owner_of(n)
        out = [(o, pc) for pc in P.path_conds(o, n)]
        hops = 0
        while o is not self.fn and o.key in self.caller and hops < 4:
            hops += 1
            o, n = self.caller[o.key]
            out = [(o, pc) for pc in P.path_conds(o, n)] + out
        return out


ITER_CONSUMERS = ('fold', 'try_fold', 'for_each', 'try_for_each', 'map', 'flat_map', 'filter_map', 'scan')


def iteration_node(fn, node):
    """the `for` node or the iterator-method call (fold / for_each / try_for_each ...) that runs `node` per element"""
    for parent, role, child in fn.ancestors(node):
        k = parent.get('k')
        if k == 'for' and role == 'body':
            return parent
        if k == 'closure':
            pr = fn.parent.get(id(parent))
            while pr and pr[0] is not None and pr[0].get('k') in ('wrap', 'ref'):
                pr = fn.parent.get(id(pr[0]))
            if pr and pr[0] is not None and pr[0].get('k') == 'mcall' and pr[0]['method'] in ITER_CONSUMERS:
                return pr[0]
            return None
    return None


def iteration_of(fn, node):
    """the collection expression over whose elements `node` is executed: the `iter` of an enclosing `for`, or the
    receiver of the iterator method (fold / for_each / map ...) whose closure contains node.  (kind, expr) or None"""
    for parent, role, child in fn.ancestors(node):
        k = parent.get('k')
        if k == 'for' and role == 'body':
            return ('for', parent['iter'])
        if k == 'closure':
            pr = fn.parent.get(id(parent))
            while pr and pr[0] is not None and pr[0].get('k') in ('wrap', 'ref'):
                pr = fn.parent.get(id(pr[0]))
            if pr and pr[0] is not None and pr[0].get('k') == 'mcall' and pr[0]['method'] in ITER_CONSUMERS:
                return (pr[0]['method'], pr[0]['recv'])
            return None
    return None
