"""Remaining HIR-side rules: SEL-ITEM, SEL-CONSUME, SEL-PAIR, TAG-AGREE, VARIANTS-EXHAUSTIVE, VARS-ORIGIN, NO-FALLBACK,
SAME-OP, QUERY-TEXT, DEF-CLOSURE, ONE-ENTRY, DERIVE-FILTER, DERIVE-DEDUP, DERIVE-ONLY, NORM-ID."""
import re

from . import prov as P
from . import terms as TM
from . import hirx as H
from . import tmpl as T
from .core import Ob, ok, bad, undecided, short
from .facts import norm_path
from .rules_hir import walk, callgraph
from .rules_c06 import returns_err, is_err_ctor

REGISTRY = []


def rule(*ids):
    def deco(fn):
        REGISTRY.append((fn, ids))
        return fn
    return deco


def free_locals(fn, e, seen=None, depth=0):
    """locals an expression depends on, following let-bound locals to their initialisers (transitively)"""
    out = set()
    seen = seen if seen is not None else set()
    for n in walk(e):
        if n['k'] == 'path' and n['res'].get('r') == 'local':
            h = n['res']['hid']
            out.add(h)
            if h not in seen and depth < 6:
                seen.add(h)
                for src in fn.binds.get(h, []):
                    s = src
                    while s[0] == 'proj':
                        s = s[1]
                    if s[0] in ('expr', 'assign'):
                        out |= free_locals(fn, s[1], seen, depth + 1)
                    elif s[0] == 'mut':
                        out |= free_locals(fn, s[2], seen, depth + 1)
    return out


def pat_hids(p):
    out = set()
    k = p.get('k')
    if k == 'bind':
        out.add(p['hid'])
        if 'sub' in p:
            out |= pat_hids(p['sub'])
    for key in ('pats', 'before', 'after'):
        for x in p.get(key, []) or []:
            out |= pat_hids(x)
    if p.get('pat'):
        out |= pat_hids(p['pat'])
    if p.get('mid'):
        out |= pat_hids(p['mid'])
    for f in p.get('fields', []) or []:
        out |= pat_hids(f['pat'])
    return out


@rule('SEL-ITEM')
def rule_sel_item(ctx):
    """inside a loop over selections, the sub-selection expanded must be the loop item's"""
    obs = []
    n = 0
    for fn in ctx.crate('codegen').all_fns():
        if fn.from_macro or not norm_path(fn.path).startswith('graphql_client_codegen::codegen'):
            continue
        ordn = 0
        for loop in fn.walk(lambda x: x['k'] == 'for'):
            ity = loop['iter'].get('ty', '') + loop['pat'].get('ty', '')
            if 'Selection' not in ity:
                # a private record that carries the selection (`Vec<&SpreadOnVariant>`): look at its field types
                carried = False
                for apath, a_ in ctx.crate('codegen').adts.items():
                    if apath.split('::')[-1] in re.findall(r'[A-Za-z_][A-Za-z0-9_]*', ity):
                        for v_ in a_.get('variants', []):
                            if any('Selection' in (f_.get('ty') or '') for f_ in v_.get('fields', [])):
                                carried = True
                if not carried:
                    continue
            bound = pat_hids(loop['pat'])
            for call in walk(loop['body']):
                if call['k'] not in ('call', 'mcall'):
                    continue
                lf = ctx.pv.local_fns(call.get('callee'))
                if not lf:
                    continue
                for a in call['args']:
                    aty = a.get('ty', '')
                    if 'SelectionId' in aty and ('[' in aty or 'Vec' in aty):
                        n += 1
                        ordn += 1
                        inst = '%s/%s#%d' % (short(fn.path), short(lf[0].path), ordn)
                        deps = free_locals(fn, a)
                        # nearest enclosing loop decides
                        inner = None
                        for parent, role, child in fn.ancestors(call):
                            if parent.get('k') == 'for':
                                inner = parent
                                break
                        if inner is not loop:
                            continue
                        if deps & bound:
                            obs.append(ok('SEL-ITEM', inst, 'sub-selection argument derives from the loop item', call.get('sp', '')))
                        else:
                            obs.append(bad('SEL-ITEM', inst, 'inside a loop over selections the expanded sub-selection does not depend on the loop item (loop-invariant argument)',
                                           call.get('sp', ''), 'with two inline fragments on one type the first one\'s fields are emitted twice and the second one\'s are lost'))
    if n < 1:
        obs.append(bad('SEL-ITEM', 'floor', 'anchor-missing: no sub-selection expansion inside a loop over selections found'))
    return obs


@rule('SEL-CONSUME')
def rule_sel_consume(ctx):
    obs = []
    fn = ctx.fn('codegen', 'codegen::selection::calculate_selection')
    if fn is None:
        return [bad('SEL-CONSUME', 'floor', 'anchor-missing: calculate_selection not found')]
    ms = [m for m in fn.walk(lambda x: x['k'] == 'match') if 'selection::Selection' in m['scrut'].get('ty', '') and len(m['arms']) >= 3]
    if not ms:
        return [undecided('SEL-CONSUME', 'calculate_selection/shape', 'no match over Selection variants', fn.loc)]
    m = ms[-1] if len(ms) == 1 else max(ms, key=lambda x: len(x['arms']))
    for a in m['arms']:
        ps = P.pat_summary(a['pat'])
        names = [ps[1].split('::')[-1]] if ps[0] == 'ctor' else ([p[1].split('::')[-1] for p in ps[1] if p[0] == 'ctor'] if ps[0] == 'or' else ['_'])
        body = a['body']
        empty = body.get('k') == 'tup' and not body.get('es') or (body.get('k') == 'block' and not body['stmts'] and body.get('expr') is None)
        for nm in names:
            inst = 'calculate_selection/' + nm
            if nm == 'Typename':
                obs.append(ok('SEL-CONSUME', inst, '__typename is carried by the enum tag / dropped on concrete objects (documented)', body.get('sp', '')))
            elif empty:
                obs.append(bad('SEL-CONSUME', inst, 'selection kind `%s` is matched and silently dropped when the parent is not an abstract type' % nm, body.get('sp', ''),
                               '`... on Human { height }` inside a `Human` selection: the payload has `height` but no field is generated for it'))
            else:
                obs.append(ok('SEL-CONSUME', inst, 'handled', body.get('sp', '')))
    # every collection of ExpandedSelection that is pushed to is read by render
    rend = [f for f in ctx.crate('codegen').all_fns() if norm_path(f.path).endswith('ExpandedSelection::render')]
    if rend:
        cg_ = callgraph(ctx)
        read = set()
        for k_ in cg_.reachable([rend[0].key]):
            f_ = ctx.fn_by_key(k_)
            if f_ is not None and not f_.from_macro:
                read |= {n['name'] for n in walk(f_.body) if n['k'] == 'field' and n.get('adt', '').endswith('ExpandedSelection')}
        for (adt, fname), ws in ctx.prog.field_writes_norm.items():
            if adt.endswith('ExpandedSelection'):
                if fname in read or any(fname in {n['name'] for n in walk(f.body) if n['k'] == 'field'} for f in ctx.crate('codegen').all_fns()
                                        if norm_path(f.path).endswith(('ExpandedSelection::types',)) and fname == 'types'):
                    obs.append(ok('SEL-CONSUME', 'render/' + fname, 'pushed items are rendered', rend[0].loc))
                else:
                    obs.append(bad('SEL-CONSUME', 'render/' + fname, 'ExpandedSelection.%s is filled but never rendered' % fname, rend[0].loc, 'selected data has no generated counterpart'))
    return obs


@rule('SEL-PAIR')
def rule_sel_pair(ctx):
    obs = []
    fn = ctx.fn('codegen', 'codegen::selection::calculate_selection')
    if fn is None:
        return [bad('SEL-PAIR', 'floor', 'anchor-missing: calculate_selection not found')]
    types = []
    uses = []
    # the expander and the private helpers it is split into (each literal is evaluated in its own function)
    fam = [fn]
    fl_ = H.Flat(ctx, fn, 2)
    for owner, _n, _p in fl_.entries:
        if owner not in fam and not owner.from_macro and norm_path(owner.path).startswith('graphql_client_codegen::codegen::selection'):
            fam.append(owner)
    for fn_ in fam:
        senv = H.sym_env(fn_)
        for n in fn_.walk(lambda x: x['k'] == 'struct' and all('e' in y for y in x.get('fields', []))):
            adt = n.get('adt', '')
            f = {x['name']: x['e'] for x in n['fields']}
            if adt.endswith('ExpandedType'):
                t_ = TM.strip_bases(ctx.pv.eval(fn_, f['name'], senv, 0))
                for _c, l_ in P.leaves(t_):
                    types.append(l_)
                types.append(t_)
            elif adt.endswith('ExpandedField') and 'field_type' in f:
                uses.append(('field', n, ctx.pv.eval(fn_, f['field_type'], senv, 0)))
            elif adt.endswith('ExpandedVariant') and 'variant_type' in f:
                uses.append(('variant', n, ctx.pv.eval(fn_, f['variant_type'], senv, 0)))

    def core_of(t):
        while t[0] == 'ctor' and t[1].endswith(('Cow::Owned', 'Cow::Borrowed')) and t[2]:
            t = t[2][0]
        return t
    tset = {repr(core_of(t)) for t in types}
    cnt = 0
    ordn = {}
    flat_uses = []
    for kind, node, t in uses:
        # one construction may serve several kinds of field (a shared closure): judge each alternative value
        alts = {repr(TM.strip_bases(l)): TM.strip_bases(l) for _, l in P.leaves(t)} or {repr(t): TM.strip_bases(t)}
        for t_ in alts.values():
            flat_uses.append((kind, node, t_))
    for kind, node, t in flat_uses:
        c = core_of(t)
        if c[0] in ('none',) or 'Query.selection_parent_idx' not in TM.fields_in(c):
            continue   # names of schema types / fragments: defined elsewhere (DEF-CLOSURE)
        cnt += 1
        ordn[kind] = ordn.get(kind, 0) + 1
        inst = 'calculate_selection/%s#%d' % (kind, ordn[kind])
        if repr(c) in tset:
            obs.append(ok('SEL-PAIR', inst, 'freshly named type is also pushed as a type to define', node.get('sp', '')))
        else:
            obs.append(bad('SEL-PAIR', inst, 'a %s refers to a freshly computed type name that is never pushed with push_type' % kind, node.get('sp', ''),
                           'E0412 cannot find type in the generated module'))
    if cnt < 2:
        obs.append(bad('SEL-PAIR', 'floor', 'anchor-missing: expected >= 2 path-named types (object field, variant struct), found %d' % cnt))
    return obs


@rule('TAG-AGREE')
def rule_tag_agree(ctx):
    obs = []
    val = None
    for f in ctx.crate('codegen').all_fns():
        if norm_path(f.path).endswith('constants::TYPENAME_FIELD'):
            for n in walk(f.body):
                if n['k'] == 'lit':
                    val = n['lit']['v']
    if val == '__typename':
        obs.append(ok('TAG-AGREE', 'TYPENAME_FIELD', 'the field name the resolver/validator treats as the type name is "__typename" = the serde tag', ''))
    else:
        obs.append(bad('TAG-AGREE', 'TYPENAME_FIELD', 'TYPENAME_FIELD is %r but the emitted enums are tagged "__typename"' % val, '',
                       'the selection validated to contain the discriminator is not the key serde dispatches on'))
    users = 0
    for f in ctx.crate('codegen').all_fns():
        if f.from_macro:
            continue
        for n in walk(f.body):
            if n['k'] == 'path' and n['res'].get('path', '').endswith('TYPENAME_FIELD'):
                users += 1
    if users >= 2:
        obs.append(ok('TAG-AGREE', 'resolvers', 'both selection resolvers compare field names with the constant (%d uses)' % users, ''))
    else:
        obs.append(bad('TAG-AGREE', 'resolvers', 'only %d use(s) of the type-name constant in the resolvers' % users, '', '__typename is treated as an ordinary field somewhere'))
    return obs


def always(e, pred):
    """does evaluating e call something satisfying pred on every completing path? (structural)"""
    if e is None:
        return False
    k = e.get('k')
    if k in ('call', 'mcall'):
        if pred(e):
            return True
        return any(always(a, pred) for a in e.get('args', [])) or (k == 'mcall' and always(e['recv'], pred))
    if k == 'block':
        for st in e['stmts']:
            x = st.get('e') if st['k'] == 'stmt' else st.get('init')
            if x is not None and always(x, pred):
                return True
            if st['k'] == 'stmt' and x is not None and P.diverges(x):
                return False
        return always(e.get('expr'), pred)
    if k == 'if':
        return always(e['cond'], pred) or (e.get('else') is not None and always(e['then'], pred) and always(e['else'], pred))
    if k == 'match':
        return always(e['scrut'], pred) or (bool(e['arms']) and all(always(a['body'], pred) for a in e['arms']))
    if k in ('wrap', 'ref', 'try', 'unary', 'cast'):
        return always(e['e'], pred)
    if k == 'macro':
        return always(e['exp'], pred)
    return False


@rule('VARIANTS-EXHAUSTIVE')
def rule_variants(ctx):
    obs = []
    fn = ctx.fn('codegen', 'codegen::selection::calculate_selection')
    if fn is None:
        return [bad('VARIANTS-EXHAUSTIVE', 'floor', 'anchor-missing: calculate_selection not found')]
    entry = fn
    fl = H.Flat(ctx, entry, 2)
    fam = [entry]
    for owner, _n, _p in fl.entries:
        if owner not in fam and not owner.from_macro and norm_path(owner.path).startswith('graphql_client_codegen::codegen::selection'):
            fam.append(owner)
    loops = []
    for f_ in fam:
        env_ = fl.env_of(f_) if f_ is not entry else H.sym_env(entry)
        for loop in f_.walk(lambda x: x['k'] == 'for'):
            t = ctx.pv.eval(f_, loop['iter'], env_, 0)
            fs = TM.fields_in(t)
            if 'StoredUnion.variants' in fs or 'StoredObject.implements_interfaces' in fs:
                loops.append((f_, loop, t, fs))
    if not loops:
        return [bad('VARIANTS-EXHAUSTIVE', 'floor', 'anchor-missing: no loop over the possible types of an interface/union', fn.loc)]
    fn, loop, t, fs = loops[0]
    fs = set(fs)

    def source_exprs(f_, e, depth=0, seen=None):
        """(fn, expr) pairs the value of e is computed from: initialisers of the locals it reads and, for a helper
        parameter, the argument expressions at the call sites inside the expander family"""
        seen = seen if seen is not None else set()
        out = [(f_, e)]
        if depth > 3:
            return out
        params = {}
        for i_, p_ in enumerate(f_.params):
            for h_ in pat_hids(p_):
                params[h_] = i_
        for h in free_locals(f_, e):
            if (f_.key, h) in seen:
                continue
            seen.add((f_.key, h))
            for src in f_.binds.get(h, []):
                s_ = src
                while s_[0] == 'proj':
                    s_ = s_[1]
                if s_[0] == 'expr':
                    out.append((f_, s_[1]))
            if h in params and f_.key in fl.caller:
                cf_, cn_ = fl.caller[f_.key]
                args_ = ([cn_['recv']] if cn_['k'] == 'mcall' else []) + cn_['args']
                if params[h] < len(args_):
                    out += source_exprs(cf_, args_[params[h]], depth + 1, seen)
        return out
    srcs = source_exprs(fn, loop['iter'])
    for f_, e_ in srcs:
        for _f, n_ in H.deep_nodes(ctx, f_, e_, 2):
            if n_['k'] == 'field' and n_.get('adt'):
                fs.add(n_['adt'].split('::')[-1] + '.' + n_['name'])
    for need, what in (('StoredUnion.variants', 'union members'), ('StoredObject.implements_interfaces', 'interface implementors')):
        if need in fs:
            obs.append(ok('VARIANTS-EXHAUSTIVE', 'calculate_selection/source-' + need.split('.')[0], 'variant list covers the %s' % what, loop.get('sp', '')))
        else:
            obs.append(bad('VARIANTS-EXHAUSTIVE', 'calculate_selection/source-' + need.split('.')[0], 'variant list does not derive from the %s' % what, loop.get('sp', ''),
                           'a known __typename has no variant'))
    def is_push_variant(c):
        return any(short(f.path).endswith('push_variant') for f in ctx.pv.local_fns(c.get('callee')))
    if always(loop['body'], is_push_variant):
        obs.append(ok('VARIANTS-EXHAUSTIVE', 'calculate_selection/every-type', 'every possible type gets a variant on all paths of the loop body', loop.get('sp', '')))
    else:
        obs.append(bad('VARIANTS-EXHAUSTIVE', 'calculate_selection/every-type', 'some path through the per-type loop body pushes no variant', loop.get('sp', ''),
                       'a known __typename selects no variant: valid payloads are rejected'))
    # the variants collection: no filter except the implements-interface test
    hid = loop['iter']['e']['res'].get('hid') if loop['iter'].get('k') in ('mcall', 'ref') and False else None
    filt = []
    seen_f = set()
    for sf_, se_ in srcs[1:] if len(srcs) > 1 else []:
        for f_, n in H.deep_nodes(ctx, sf_, se_, 2):
            if n['k'] == 'mcall' and n['method'] in ('filter', 'take', 'skip', 'filter_map', 'take_while', 'skip_while', 'step_by') and id(n) not in seen_f:
                seen_f.add(id(n))
                filt.append((n['method'], n, f_))
    badf = []
    for mname, n, f_ in filt:
        clo = n['args'][0] if n['args'] else None
        txt = P.show(ctx.pv.apply_closure(ctx.pv.eval(f_, clo, H.sym_env(f_), 0), [('unknown', 'elem')], 0), 0, 6) if clo is not None else ''
        if mname == 'filter' and 'contains' in txt and 'implements_interfaces' in txt and not txt.startswith('!'):
            continue
        if mname == 'filter_map' and ('from_selection' in repr(n) or 'VariantSelection' in n.get('ty', '')):
            continue
        if mname == 'filter' and 'variant_type_id' in repr(n)[:3000]:
            continue
        badf.append(mname)
    if badf:
        obs.append(bad('VARIANTS-EXHAUSTIVE', 'calculate_selection/unfiltered', 'the possible-type list is narrowed by %s' % badf, loop.get('sp', ''), 'some possible types get no variant'))
    else:
        obs.append(ok('VARIANTS-EXHAUSTIVE', 'calculate_selection/unfiltered', 'possible types are not narrowed beyond "implements the interface"', loop.get('sp', '')))
    return obs


@rule('VARS-ORIGIN')
def rule_vars_origin(ctx):
    obs = []
    w = ctx.fn('codegen', 'query::walk_operation_variables')
    if w is None:
        return [bad('VARS-ORIGIN', 'floor', 'anchor-missing: walk_operation_variables not found')]
    filters = [n for n in walk(w.body) if n['k'] == 'mcall' and n['method'] in ('filter', 'take', 'skip', 'filter_map', 'take_while', 'skip_while', 'step_by')]
    senv = H.sym_env(w)
    good = len(filters) == 1 and filters[0]['method'] == 'filter'
    if good:
        body = ctx.pv.apply_closure(ctx.pv.eval(w, filters[0]['args'][0], senv, 0), [('tuple', (('index',), ('field', ('unknown', 'v'), 'graphql_client_codegen::query::ResolvedVariable', 'self')))], 0)
        txt = P.show(body, 0, 6)
        good = body[0] == 'op' and body[1] == '==' and 'operation_id' in txt and 'param(' in txt
    base = ctx.pv.eval(w, w.body, senv, 0)
    if good and 'Query.variables' in TM.fields_in(base):
        obs.append(ok('VARS-ORIGIN', 'walk_operation_variables/filter', 'variables of an operation = Query.variables filtered by operation_id == the given id, nothing else', w.loc))
    else:
        obs.append(bad('VARS-ORIGIN', 'walk_operation_variables/filter', 'the per-operation variable list is not exactly `variables.filter(var.operation_id == id)` (%d narrowing steps)' % len(filters), w.loc,
                       'Variables has missing or extra keys'))
    r = ctx.fn('codegen', 'codegen::response_for_query')
    if r is None:
        obs.append(bad('VARS-ORIGIN', 'floor/response_for_query', 'anchor-missing'))
    else:
        pid = r.params[0].get('hid') if r.params and r.params[0].get('k') == 'bind' else None
        for callee in ('generate_variables_struct', 'render_response_data_fields', 'all_used_types'):
            cs = [n for n in H.calls_in(r) if any(short(f.path).endswith(callee) for f in ctx.pv.local_fns(n.get('callee')))]
            inst = 'response_for_query/' + callee
            if not cs:
                obs.append(bad('VARS-ORIGIN', inst, '%s is not called' % callee, r.loc, 'part of the module is missing'))
                continue
            a0 = cs[0]['args'][0]
            if a0.get('k') == 'path' and a0['res'].get('hid') == pid:
                obs.append(ok('VARS-ORIGIN', inst, 'receives the operation id being rendered', cs[0].get('sp', '')))
            else:
                obs.append(bad('VARS-ORIGIN', inst, 'does not receive response_for_query\'s own operation id', cs[0].get('sp', ''),
                               'Variables / ResponseData / definitions belong to different operations'))
    # binding: every operation kind that gets its selection bound also gets its variables bound, from the same
    # definition and under the same operation id (sibling arms must agree)
    narms = 0
    for qf in ctx.crate('codegen').all_fns():
        if qf.from_macro or not norm_path(qf.path).startswith('graphql_client_codegen::query'):
            continue
        for mt in qf.walk(lambda x: x['k'] == 'match'):
            for a in mt['arms']:
                ps = P.pat_summary(a['pat'])
                if ps[0] != 'ctor' or '::OperationDefinition::' not in ps[1]:
                    continue
                kind = ps[1].split('::')[-1]
                dn = list(H.deep_nodes(ctx, qf, a['body'], 2))
                sel_calls = [(f_, n_) for f_, n_ in dn if n_['k'] == 'call' and any(p_.endswith('resolve_object_selection') for p_ in H.callee_paths(n_))]
                var_calls = [(f_, n_) for f_, n_ in dn if n_['k'] == 'call' and any(p_.endswith('resolve_variables') for p_ in H.callee_paths(n_))]
                if not sel_calls:
                    continue
                narms += 1
                inst = '%s/arm[%s]' % (short(qf.path), kind)
                if not var_calls:
                    obs.append(bad('VARS-ORIGIN', inst, 'the %s arm binds the selection set but never calls resolve_variables' % kind, a['body'].get('sp', ''),
                                   'operations of this kind get an empty `Variables`: declared variables are not serialized'))
                    continue
                vf, vn = var_calls[0]
                sf_, sn = sel_calls[0]
                vfields = set()
                sfields = set()
                if vf is qf and sf_ is qf:
                    for arg in vn['args']:
                        vfields |= TM.fields_in(ctx.pv.eval(vf, arg, H.sym_env(vf), 0))
                    for arg in sn['args']:
                        sfields |= TM.fields_in(ctx.pv.eval(sf_, arg, H.sym_env(sf_), 0))
                else:
                    # bound inside a helper: what the arm hands to the helper decides which definition is used
                    for hc in [n_ for n_ in walk(a['body']) if n_['k'] in ('call', 'mcall') and ctx.pv.local_fns(n_.get('callee'))]:
                        hf = set()
                        for arg in hc['args'] + ([hc['recv']] if hc['k'] == 'mcall' else []):
                            hf |= TM.fields_in(ctx.pv.eval(qf, arg, H.sym_env(qf), 0))
                        if any(x.endswith('.variable_definitions') for x in hf) or any(x.endswith('.selection_set') for x in hf):
                            vfields |= {x for x in hf if x.endswith('.variable_definitions')}
                            sfields |= {x for x in hf if x.endswith('.selection_set')}
                vdefs = {f_ for f_ in vfields if f_.endswith('.variable_definitions')}
                ssets = {f_ for f_ in sfields if f_.endswith('.selection_set')}
                same_def = bool(vdefs) and {f_.split('.')[0] for f_ in vdefs} == {f_.split('.')[0] for f_ in ssets}
                # the operation id: the same local feeds both calls
                vid = {n_['res'].get('hid') for arg in vn['args'] for n_ in walk(arg) if n_['k'] == 'path' and n_['res'].get('r') == 'local' and 'OperationId' in n_.get('ty', '')}
                sid = {n_['res'].get('hid') for arg in sn['args'] for n_ in walk(arg) if n_['k'] == 'path' and n_['res'].get('r') == 'local' and 'OperationId' in n_.get('ty', '')}
                if same_def and vid and vid == sid:
                    obs.append(ok('VARS-ORIGIN', inst, 'variables and selection bound from the same %s definition under the same operation id' % kind, vn.get('sp', '')))
                else:
                    obs.append(bad('VARS-ORIGIN', inst, 'variables are bound from %s / id %s, the selection from %s / id %s' % (sorted(vdefs), sorted(map(str, vid)), sorted(ssets), sorted(map(str, sid))),
                                   vn.get('sp', ''), 'Variables belongs to another operation'))
    if narms < 3:
        obs.append(bad('VARS-ORIGIN', 'floor/arms', 'anchor-missing: expected the query, mutation and subscription arms that bind an operation, found %d' % narms))
    # the field list of Variables: one field per variable, no extra filter
    g = ctx.fn('codegen', 'codegen::generate_variables_struct')
    if g is not None:
        fl = [n for n in walk(g.body) if n['k'] == 'mcall' and n['method'] in ('filter', 'take', 'skip', 'filter_map', 'step_by', 'skip_while', 'take_while')]
        if fl:
            obs.append(bad('VARS-ORIGIN', 'generate_variables_struct/all', 'variable list is narrowed by %s' % sorted({n['method'] for n in fl}), g.loc, 'some declared variables are not serialized'))
        else:
            obs.append(ok('VARS-ORIGIN', 'generate_variables_struct/all', 'one field per declared variable', g.loc))
    return obs


@rule('NO-FALLBACK', 'SAME-OP', 'ONE-ENTRY')
def rule_operation_selection(ctx):
    obs = []
    fn = ctx.fn('codegen', 'graphql_client_codegen::generate_module_token_stream_inner')
    if fn is None:
        return [bad('NO-FALLBACK', 'floor', 'anchor-missing: generate_module_token_stream_inner not found')]
    ms = [m for m in fn.walk(lambda x: x['k'] == 'match') if m['scrut'].get('k') == 'tup' and any('CodegenMode' in c.get('ty', '') for c in m['scrut']['es'])]
    if not ms:
        obs.append(undecided('NO-FALLBACK', 'inner/shape', 'no match on (selected operations, mode)', fn.loc))
    else:
        m = ms[0]
        comps = m['scrut']['es']
        mi = next(i for i, c in enumerate(comps) if 'CodegenMode' in c.get('ty', ''))
        oi = 1 - mi
        table = {}
        for sel in ('Some', 'None'):
            for mode in ('Cli', 'Derive'):
                for a in m['arms']:
                    ps = P.pat_summary(a['pat'])
                    alts = ps[1] if ps[0] == 'or' else [ps]

                    def cov(p, v):
                        if p[0] in ('wild', 'bind'):
                            return True
                        if p[0] == 'ctor':
                            return p[1].split('::')[-1] == v
                        if p[0] == 'or':
                            return any(cov(x, v) for x in p[1])
                        return False
                    if any(alt[0] == 'tuple' and cov(alt[1][oi], sel) and cov(alt[1][mi], mode) for alt in alts):
                        body = a['body']
                        if returns_err(body):
                            eff = 'error'
                        elif any(n['k'] == 'mcall' and n['method'] == 'operations' for n in walk(body)):
                            eff = 'all-operations'
                        else:
                            eff = 'selected'
                        table[(sel, mode)] = (eff, a)
                        break
        want = {('Some', 'Cli'): 'selected', ('Some', 'Derive'): 'selected', ('None', 'Cli'): 'all-operations', ('None', 'Derive'): 'error'}
        for k, v in want.items():
            got = table.get(k, (None, None))[0]
            inst = 'inner/%s-%s' % k
            if got == v:
                obs.append(ok('NO-FALLBACK', inst, '%s selection in %s mode -> %s' % (k[0].lower() if k[0] == 'None' else 'a', k[1], v), m.get('sp', '')))
            else:
                obs.append(bad('NO-FALLBACK', inst, 'selection=%s, mode=%s -> %s (expected %s)' % (k[0], k[1], got, v), m.get('sp', ''),
                               'the derive silently binds another operation / the CLI does not emit every operation'))
        # the error names the available operations
        ea = table.get(('None', 'Derive'), (None, None))[1]
        if ea is not None:
            t = ctx.pv.eval(fn, ea['body'], H.sym_env(fn), 0)
            rets = [n for n in walk(ea['body']) if n['k'] == 'ret' and n.get('e') is not None]
            tt = ctx.pv.eval(fn, rets[0]['e'], H.sym_env(fn), 0) if rets else t
            if 'ResolvedOperation.name' in TM.fields_in(tt):
                obs.append(ok('NO-FALLBACK', 'inner/error-names-operations', 'the not-found error lists the operations the document defines', ea['body'].get('sp', '')))
            else:
                obs.append(bad('NO-FALLBACK', 'inner/error-names-operations', 'the not-found error does not mention the available operations', ea['body'].get('sp', ''), 'unhelpful/incorrect error'))
    # the selected operation is chosen by select_operation(operation_name, normalization) and by nothing else:
    # GeneratedModule::root resolves the module's operation again through the same function, so a second, different
    # predicate here makes OPERATION_NAME and the generated types come from different operations
    if ms:
        sel_expr = ms[0]['scrut']['es'][1 - next(i for i, c in enumerate(ms[0]['scrut']['es']) if 'CodegenMode' in c.get('ty', ''))]
        dn = list(H.deep_nodes(ctx, fn, sel_expr, 2, None, True, skip=lambda lf: short(lf.path).endswith('select_operation')))
        via = [n_ for _f, n_ in dn if n_['k'] in ('call', 'mcall') and any(short(f_.path).endswith('select_operation') for f_ in ctx.pv.local_fns(n_.get('callee')))]
        other = [n_ for _f, n_ in dn if n_['k'] == 'mcall' and n_['method'] in ('find', 'position', 'filter', 'rfind', 'nth', 'last', 'find_map', 'max_by_key', 'min_by_key', 'skip_while')
                 and 'ResolvedOperation' in (n_['recv'].get('ty', '') + n_.get('ty', ''))]
        if via and not other:
            obs.append(ok('SAME-OP', 'inner/selection', 'the requested operation is chosen by Query::select_operation only', sel_expr.get('sp', '')))
        elif not via:
            obs.append(bad('SAME-OP', 'inner/selection', 'the requested operation is not chosen through Query::select_operation', sel_expr.get('sp', ''),
                           'the module is generated for an operation chosen by a different rule than GeneratedModule::root uses'))
        else:
            obs.append(bad('SAME-OP', 'inner/selection', 'the requested operation is also chosen by a second predicate (%s) besides Query::select_operation' % sorted({n_['method'] for n_ in other}),
                           other[0].get('sp', ''), 'OPERATION_NAME and ResponseData/Variables can come from different operations'))
    so = ctx.fn('codegen', 'query::Query::select_operation')
    if so is None:
        obs.append(bad('SAME-OP', 'floor', 'anchor-missing: select_operation not found'))
    else:
        senv = H.sym_env(so)
        finds = [n for n in walk(so.body) if n['k'] == 'mcall' and n['method'] in ('find', 'filter', 'position', 'rfind', 'last', 'max_by_key')]
        if len(finds) == 1 and finds[0]['method'] == 'find':
            body = ctx.pv.apply_closure(ctx.pv.eval(so, finds[0]['args'][0], senv, 0), [('tuple', (('index',), ('unknown', 'op')))], 0)
            txt = P.show(body, 0, 8)
            if body[0] == 'op' and body[1] == '==' and 'ResolvedOperation.name' in txt and 'param(' in txt:
                obs.append(ok('SAME-OP', 'select_operation', 'first operation whose (normalized) name equals the requested name', so.loc))
            else:
                obs.append(bad('SAME-OP', 'select_operation', 'selection predicate is %s' % txt[:120], so.loc, 'another operation than the named one is selected'))
        else:
            obs.append(bad('SAME-OP', 'select_operation', 'operation is not selected by find(name == requested)', so.loc, 'wrong operation'))
    gm = [f for f in ctx.crate('codegen').all_fns() if norm_path(f.path).endswith('GeneratedModule::root')]
    if gm:
        sel_calls = [n for n in H.calls_in(gm[0]) if any(short(f.path).endswith('select_operation') for f in ctx.pv.local_fns(n.get('callee')))]
        fs = set()
        if sel_calls:
            a0 = sel_calls[0]['args'][0]
            exprs = [a0]
            for h in free_locals(gm[0], a0):
                for src in gm[0].binds.get(h, []):
                    if src[0] == 'expr':
                        exprs.append(src[1])
            for e_ in exprs:
                for n_ in walk(e_):
                    if n_['k'] == 'field' and n_.get('adt', '').endswith('GeneratedModule'):
                        fs.add('GeneratedModule.' + n_['name'])
        if 'GeneratedModule.operation' in fs:
            obs.append(ok('SAME-OP', 'GeneratedModule::root', 'ResponseData/Variables are generated for the operation whose name becomes OPERATION_NAME', gm[0].loc))
        else:
            obs.append(bad('SAME-OP', 'GeneratedModule::root', 'root operation does not derive from the module\'s operation name (%s)' % sorted(fs)[:5], gm[0].loc,
                           'types of another operation'))
    # ONE-ENTRY
    cg = callgraph(ctx)
    inner_key = fn.key
    for name in ('graphql_client_codegen::generate_module_token_stream', 'graphql_client_codegen::generate_module_token_stream_from_string'):
        f = [x for x in ctx.fns('codegen', name) if norm_path(x.path) == name]
        if not f:
            obs.append(bad('ONE-ENTRY', 'floor/' + name.split('::')[-1], 'anchor-missing: public entry %s not found' % name))
            continue
        if inner_key in cg.edges.get(f[0].key, ()):
            obs.append(ok('ONE-ENTRY', name.split('::')[-1], 'converges on generate_module_token_stream_inner', f[0].loc))
        else:
            obs.append(bad('ONE-ENTRY', name.split('::')[-1], 'does not go through generate_module_token_stream_inner', f[0].loc, 'delivery forms diverge'))
    d = ctx.fn('derive', 'graphql_query_derive::graphql_query_derive_inner')
    if d is not None:
        targets = {ctx.fn_by_key(k).path for k in cg.edges.get(d.key, ()) if k.startswith('codegen::')}
        if any(t.endswith('generate_module_token_stream') for t in targets):
            obs.append(ok('ONE-ENTRY', 'derive', 'the derive calls the library entry generate_module_token_stream', d.loc))
        else:
            obs.append(bad('ONE-ENTRY', 'derive', 'the derive reaches codegen through %s' % sorted(targets), d.loc, 'derive output differs from library output'))
    # one module per selected operation
    okl = False
    # a `for` loop or an iterator closure over the selected operations, whose item names the module
    scopes = [(l['body'], pat_hids(l['pat'])) for l in fn.walk(lambda x: x['k'] == 'for')]
    for c_ in fn.closures:
        hs = set()
        for p_ in c_['params']:
            hs |= pat_hids(p_)
        scopes.append((c_['body'], hs))
    for body_, bound_ in scopes:
        if any(n['k'] == 'mcall' and n['method'] == 'to_token_stream' for n in walk(body_)):
            aggs = [n for n in walk(body_) if n['k'] == 'struct' and n.get('adt', '').endswith('GeneratedModule')]
            if aggs:
                opf = [x['e'] for x in aggs[0]['fields'] if x['name'] == 'operation']
                deps = free_locals(fn, opf[0]) if opf else set()
                if deps & bound_:
                    okl = True
    if okl:
        obs.append(ok('ONE-ENTRY', 'inner/module-per-operation', 'one GeneratedModule per selected operation, named by that operation', fn.loc))
    else:
        obs.append(bad('ONE-ENTRY', 'inner/module-per-operation', 'modules are not generated one per selected operation from the loop item', fn.loc, 'operations share / miss modules'))
    return obs


@rule('QUERY-TEXT')
def rule_query_text(ctx):
    obs = []
    rf = ctx.fn('codegen', 'graphql_client_codegen::read_file')
    if rf is None:
        obs.append(bad('QUERY-TEXT', 'floor/read_file', 'anchor-missing: read_file not found'))
    else:
        reads = [n for n in H.calls_in(rf) if any(p.endswith(('read_to_string',)) for p in H.callee_paths(n)) or (n['k'] == 'mcall' and n['method'] == 'read_to_string')]
        other = [n for n in H.calls_in(rf) if (n['k'] == 'mcall' and n['method'] in ('lines', 'push_str', 'push', 'trim', 'trim_end', 'replace', 'read_line', 'split', 'join', 'collect', 'chars', 'bytes', 'read', 'read_exact', 'take'))]
        t = ctx.pv.eval(rf, rf.body, H.sym_env(rf), 0)
        xfs = {x for _, xs in TM.paths(t) for x in xs}
        # the buffer that is returned is written by the read and by nothing else (no drain/truncate/retain/insert/...)
        tail = rf.body.get('expr')
        ret_locals = set()
        for e_ in [tail] + [n['e'] for n in walk(rf.body) if n['k'] == 'ret' and n.get('e') is not None]:
            for n_ in walk(e_) if e_ is not None else []:
                if n_['k'] == 'path' and n_['res'].get('r') == 'local' and 'String' in n_.get('ty', ''):
                    ret_locals.add(n_['res']['hid'])
        for n_ in walk(rf.body):
            if n_['k'] == 'mcall' and n_['recv'].get('k') == 'path' and n_['recv']['res'].get('hid') in ret_locals and n_['recv'].get('aty', '').startswith('&mut'):
                other.append(n_)
            if n_['k'] in ('assign', 'assignop') and n_['l'].get('k') == 'path' and n_['l']['res'].get('hid') in ret_locals:
                other.append({'method': '='})
        if len(reads) == 1 and not other and not xfs:
            obs.append(ok('QUERY-TEXT', 'read_file/verbatim', 'file content is returned as read by one read_to_string, untransformed', rf.loc))
        else:
            obs.append(bad('QUERY-TEXT', 'read_file/verbatim', 'file text is assembled by %s (%d read_to_string calls, transforms %s)' % (sorted({n['method'] for n in other}), len(reads), sorted(xfs)), rf.loc,
                           'QUERY is not byte-for-byte the source document (CRLF, final newline)'))
    # text and parsed document come from one read
    for name in ('graphql_client_codegen::get_set_query_from_file', 'graphql_client_codegen::generate_module_token_stream_from_string'):
        f = [x for x in ctx.fns('codegen', name) if norm_path(x.path) == name]
        if not f:
            obs.append(bad('QUERY-TEXT', 'floor/' + name.split('::')[-1], 'anchor-missing'))
            continue
        f = f[0]
        tups = [n for n in walk(f.body) if n['k'] == 'tup' and len(n.get('es', [])) == 2 and 'Document' in n['es'][1].get('ty', '') + n.get('ty', '')]
        if not tups:
            obs.append(undecided('QUERY-TEXT', name.split('::')[-1] + '/pair', '(text, document) pair not found', f.loc))
            continue
        tp = tups[0]
        senv = H.sym_env(f)
        a = ctx.pv.eval(f, tp['es'][0], senv, 0)
        b = ctx.pv.eval(f, tp['es'][1], senv, 0)
        a_core = TM.strip_bases(a)
        inside = any(TM.strip_bases(s) == a_core for s in P.subterms(b))
        xfa = {x for _, xs in TM.paths(a) for x in xs}
        if inside and not xfa:
            obs.append(ok('QUERY-TEXT', name.split('::')[-1] + '/pair', 'the document is parsed from the very text that becomes QUERY', tp.get('sp', '')))
        else:
            obs.append(bad('QUERY-TEXT', name.split('::')[-1] + '/pair', 'text (%s, transforms %s) and parsed document do not come from one value' % (P.show(a, 0, 3)[:60], sorted(xfa)), tp.get('sp', ''),
                           'QUERY differs from the document the code was generated from'))
    return obs


@rule('DEF-CLOSURE')
def rule_def_closure(ctx):
    obs = []
    r = ctx.fn('codegen', 'codegen::response_for_query')
    if r is None:
        return [bad('DEF-CLOSURE', 'floor', 'anchor-missing: response_for_query not found')]
    ut = [n for n in H.calls_in(r) if any(short(f.path).endswith('query::all_used_types') for f in ctx.pv.local_fns(n.get('callee')))]
    gens = {}
    for n in H.calls_in(r):
        for f in ctx.pv.local_fns(n.get('callee')):
            m = re.search(r'generate_(scalar|enum|fragment|input_object)_definitions$', norm_path(f.path))
            if m:
                gens[m.group(1)] = n
    for k in ('scalar', 'enum', 'fragment', 'input_object'):
        inst = 'response_for_query/' + k
        if k not in gens:
            obs.append(bad('DEF-CLOSURE', inst, '%s definitions are not generated' % k, r.loc, 'E0412: a used %s type is not defined' % k))
            continue
        a0 = gens[k]['args'][0]
        deps = free_locals(r, a0)
        utl = set()
        for u in ut:
            pr = r.parent.get(id(u))
            cur = u
            while pr and pr[0] is not None and pr[0].get('k') != 'let':
                cur = pr[0]
                pr = r.parent.get(id(cur))
            if pr and pr[0] is not None:
                utl |= pat_hids(pr[0]['pat'])
        if deps & utl:
            obs.append(ok('DEF-CLOSURE', inst, '%s definitions are generated from the one used-types closure' % k, gens[k].get('sp', '')))
        else:
            obs.append(bad('DEF-CLOSURE', inst, '%s definitions are not fed from all_used_types()' % k, gens[k].get('sp', ''), 'definitions and uses disagree'))
    # the closure itself
    spec = [
        ('query::selection::Selection::collect_used_types', {'Field': ('insert', True), 'InlineFragment': ('insert', True), 'FragmentSpread': ('insert', True)}),
        ('query::ResolvedVariable::collect_used_types', {'Input': ('insert', True), 'Scalar': ('insert', False), 'Enum': ('insert', False)}),
        ('schema::StoredInputType::used_input_ids_recursive', {'Input': ('insert', True), 'Enum': ('insert', False), 'Scalar': ('insert', False)}),
    ]
    cg = callgraph(ctx)
    for suffix, arms in spec:
        f = ctx.fn('codegen', suffix)
        if f is None:
            obs.append(bad('DEF-CLOSURE', 'floor/' + suffix.split('::')[-1], 'anchor-missing: %s' % suffix))
            continue
        ms = [m for m in f.walk(lambda x: x['k'] == 'match')]
        if not ms:
            obs.append(undecided('DEF-CLOSURE', short(f.path) + '/shape', 'no kind dispatch', f.loc))
            continue
        m = max(ms, key=lambda x: len(x['arms']))

        def pat_ctor_kinds(p):
            """constructor names (last path segment) a pattern is restricted to; None = unrestricted"""
            if not isinstance(p, tuple) or not p:
                return None
            if p[0] == 'or':
                ks = [pat_ctor_kinds(x) for x in p[1]]
                if any(k is None for k in ks):
                    return None
                return set().union(*ks)
            if p[0] == 'ctor' and p[1].split('::')[-1] not in ('Some', 'Ok', 'Err', 'None'):
                return {p[1].split('::')[-1]}
            if p[0] == 'ctor' and p[2]:
                for x in p[2]:
                    k = pat_ctor_kinds(x)
                    if k is not None:
                        return k
                return None
            if p[0] == 'guarded':
                return pat_ctor_kinds(p[1])
            return None

        def reachable_for(node, kind, allk):
            """can `node` run when the dispatched value is of `kind`? (only conditions that name dispatch constructors decide)"""
            for pc in P.path_conds(f, node):
                ks = None
                pol = True
                if pc[0] == 'if':
                    t_ = ctx.pv.eval(f, pc[1], H.sym_env(f), 0)
                    _x, c_, pol = P.canon_if(t_, pc[2])
                    if c_[0] == 'op' and c_[1] == 'matches' and c_[2][-1][0] == 'pat':
                        ks = pat_ctor_kinds(c_[2][-1][1])
                    elif c_[0] == 'op' and c_[1] in ('is_some', 'is_none'):
                        # `if let Some(id) = helper(self)`: which constructors make the helper return Some?
                        somes = set()
                        for cs_, lf_ in P.leaves(c_[2][0]):
                            if lf_ != ('none',):
                                for cc_ in cs_:
                                    if cc_[0] == 'match':
                                        kk = pat_ctor_kinds(cc_[2])
                                        if kk:
                                            somes |= kk
                        if somes:
                            ks = somes
                            pol = pol if c_[1] == 'is_some' else (not pol)
                elif pc[0] in ('match', 'letelse'):
                    ks = pat_ctor_kinds(pc[2])
                    if ks is None and pc[0] == 'match' and pc[1] is not None:
                        # `if let Some(x) = helper(..)` / `match helper(..) { Some(x) => .. }`
                        try:
                            t_ = ctx.pv.eval(f, pc[1], H.sym_env(f), 0)
                        except Exception:
                            t_ = None
                        p_ = pc[2]
                        if t_ is not None and isinstance(p_, tuple) and p_ and p_[0] == 'ctor' and p_[1].endswith('::Some'):
                            somes = set()
                            for cs_, lf_ in P.leaves(t_):
                                if lf_ != ('none',):
                                    for cc_ in cs_:
                                        if cc_[0] == 'match':
                                            kk = pat_ctor_kinds(cc_[2])
                                            if kk:
                                                somes |= kk
                            if somes:
                                ks = somes
                elif pc[0] == 'nomatch':
                    ks = pat_ctor_kinds(pc[2])
                    pol = False
                if ks is None or not (ks & allk):
                    continue
                if (kind in ks) != pol:
                    return False
            return True

        def whole_function(kind, need_rec):
            allk = set(arms)
            ins_ = [n for n in walk(f.body) if n['k'] == 'mcall' and n['method'] == 'insert' and reachable_for(n, kind, allk)]
            recs_ = [n for n in walk(f.body) if n['k'] in ('call', 'mcall') and ctx.pv.local_fns(n.get('callee')) and
                     any('UsedTypes' in a_.get('ty', '') + a_.get('aty', '') for a_ in n['args']) and reachable_for(n, kind, allk)]
            return bool(ins_) and (bool(recs_) or not need_rec)
        for kind, (eff, rec) in arms.items():
            inst = '%s/%s' % (short(f.path), kind)
            if whole_function(kind, rec) and not any(
                    any(alt[0] == 'ctor' and alt[1].split('::')[-1] == kind for alt in ((P.pat_summary(a['pat'])[1]) if P.pat_summary(a['pat'])[0] == 'or' else [P.pat_summary(a['pat'])]))
                    and len([x for x in ((P.pat_summary(a['pat'])[1]) if P.pat_summary(a['pat'])[0] == 'or' else [P.pat_summary(a['pat'])])]) == 1
                    for a in m['arms']):
                # no arm of its own for this kind (shared arm, helper, guard): decided on the whole function
                obs.append(ok('DEF-CLOSURE', inst, 'recorded%s (an insert%s is reachable for this kind)' % (' and descended into' if rec else '', ' and a recursive call' if rec else ''), f.loc))
                continue
            arm = None
            for a in m['arms']:
                ps = P.pat_summary(a['pat'])
                alts = ps[1] if ps[0] == 'or' else [ps]
                if any(alt[0] == 'ctor' and alt[1].split('::')[-1] == kind for alt in alts):
                    arm = a
                    break
            if arm is None:
                obs.append(bad('DEF-CLOSURE', inst, 'kind %s is not handled when collecting used types' % kind, m.get('sp', ''), 'types of that kind used by the operation are not defined (E0412)'))
                continue
            ins = [n for n in walk(arm['body']) if n['k'] == 'mcall' and n['method'] == 'insert']
            recs = [n for n in walk(arm['body']) if n['k'] in ('call', 'mcall') and ctx.pv.local_fns(n.get('callee')) and
                    any('UsedTypes' in a_.get('ty', '') + a_.get('aty', '') for a_ in n['args'])]
            if (not ins or (rec and not recs)) and whole_function(kind, rec):
                # the arm only selects what to record / descend into; the insert and the recursion follow the match
                obs.append(ok('DEF-CLOSURE', inst, 'recorded%s (reachable for this kind after the dispatch)' % (' and descended into' if rec else ''), arm['body'].get('sp', '')))
            elif not ins:
                obs.append(bad('DEF-CLOSURE', inst, 'the %s arm records nothing as used' % kind, arm['body'].get('sp', ''), 'used type not defined (E0412)'))
            elif rec and not recs:
                obs.append(bad('DEF-CLOSURE', inst, 'the %s arm does not descend into nested selections/fields' % kind, arm['body'].get('sp', ''), 'types used only deeper in the operation are not defined'))
            else:
                obs.append(ok('DEF-CLOSURE', inst, 'recorded%s' % (' and descended into' if rec else ''), arm['body'].get('sp', '')))
    return obs


@rule('DERIVE-FILTER', 'DERIVE-DEDUP', 'DERIVE-ONLY', 'NORM-ID')
def rule_derives(ctx):
    obs = []
    fn = ctx.fn('codegen', 'codegen::enums::generate_enum_definitions')
    if fn is None:
        obs.append(bad('DERIVE-FILTER', 'floor', 'anchor-missing: generate_enum_definitions not found'))
    else:
        # the generator and the private helpers it computes the derive list in
        fam_ = [fn]
        for c_ in H.calls_in(fn):
            for lf_ in ctx.pv.local_fns(c_.get('callee')) or []:
                if lf_ not in fam_ and not lf_.from_macro and norm_path(lf_.path).startswith('graphql_client_codegen::codegen::enums'):
                    fam_.append(lf_)
        flt = [n for f_ in fam_ for n in walk(f_.body) if n['k'] == 'mcall' and n['method'] == 'filter']
        good = False
        for n in flt:
            lits = {x['lit']['v'] for x in walk(n['args'][0]) if isinstance(x.get('lit'), dict) and x['lit'].get('lk') == 'str'}
            neg = any(x['k'] == 'unary' and x['op'] == '!' for x in walk(n['args'][0]))
            # membership in a slice of names, or a pattern test against the names (`!matches!(d, "Serialize" | "Deserialize")`)
            cont = any((x['k'] == 'mcall' and x['method'] == 'contains') or (x['k'] == 'macro' and x['name'].split('::')[-1] == 'matches') or
                       (x['k'] == 'match' and x.get('src') != 'match') for x in walk(n['args'][0]))
            if {'Serialize', 'Deserialize'} <= lits and neg and cont:
                good = True
        if good:
            obs.append(ok('DERIVE-FILTER', 'enums/derive-list', 'Serialize/Deserialize are removed from the derive list of hand-implemented enums', fn.loc))
        else:
            obs.append(bad('DERIVE-FILTER', 'enums/derive-list', 'the enum derive list is not filtered for Serialize/Deserialize', fn.loc,
                           'conflicting impls (E0119) or a derived (non-string, closed) representation'))
        tys = [f_.bind_types.get(h, '') for f_ in fam_ for h in f_.bind_types] + [n_.get('ty', '') for f_ in fam_ for n_ in walk(f_.body) if n_['k'] == 'mcall' and n_['method'] == 'collect']
        if any('BTreeSet' in t for t in tys):
            obs.append(ok('DERIVE-DEDUP', 'enums/derive-list', 'user derives from both lists are de-duplicated (ordered set)', fn.loc))
        else:
            obs.append(bad('DERIVE-DEDUP', 'enums/derive-list', 'response and variable derives are chained without de-duplication', fn.loc,
                           'a trait listed in both options is derived twice on every enum: E0119'))
    # DERIVE-ONLY: user derive strings reach only derive(...) arguments
    items, ip, trees, roots = ctx.grammar()
    offenders = []

    def scan(seq, in_derive):
        for i, el in enumerate(seq):
            if el['t'] == 'group':
                d = in_derive
                if el['d'] == '(' and i > 0 and seq[i - 1]['t'] == 'tok' and seq[i - 1]['s'] == 'derive':
                    d = True
                scan(el['seq'], d)
            elif el['t'] == 'rep':
                scan(el['seq'], in_derive)
            elif el['t'] == 'choice':
                for _, a in el['alts']:
                    scan(a, in_derive)
            elif el['t'] == 'leaf' and not in_derive:
                fs = TM.fields_in(el['term'])
                if fs & {'GraphQLClientCodegenOptions.response_derives', 'GraphQLClientCodegenOptions.variables_derives'}:
                    offenders.append(el)
    for t in trees:
        scan(t, False)
    if offenders:
        e = offenders[0]
        obs.append(bad('DERIVE-ONLY', short(ctx.site_fn(e['site']).path), 'user-supplied derive text reaches a position outside #[derive(..)]', ctx.site_loc(e['site']),
                       'extra derives can change the wire format'))
    else:
        obs.append(ok('DERIVE-ONLY', 'grammar', 'user-supplied derive names reach only #[derive(..)] arguments', ''))
    # NORM-ID: the type-name normalizer is the identity on "ID" (so `type == "ID"` tests do not depend on normalization)
    nf = [f for f in ctx.crate('codegen').all_fns() if norm_path(f.path).endswith('Normalization::field_type_impl') or norm_path(f.path).endswith('Normalization::field_type')]
    good = False
    for f in nf:
        x = ('argvar', 'x')
        senv = {}
        ctx.pv.bind_params(f, f.params, [('param', f.key, 0, 'self'), x], senv, 0)
        t = ctx.pv.eval(f, f.body, senv, 0)
        from .rules_hir7 import NameEval
        if all(NameEval('*', 'ID', norm).ev(t) == {'ID'} for norm in ('None', 'Rust')):
            good = True
        for conds, leaf in P.leaves(t):
            if leaf == x and any(c[0] == 'if' and c[2] and ('const', 'ID') in [s for s in P.subterms(c[1])] for c in conds):
                good = True
    if good:
        obs.append(ok('NORM-ID', 'Normalization::field_type', 'the built-in name "ID" is returned unchanged under every normalization', nf[0].loc if nf else ''))
    else:
        obs.append(bad('NORM-ID', 'Normalization::field_type', 'the type-name normalizer may change "ID"', nf[0].loc if nf else '', 'ID fields lose their coercion under normalization'))
    return obs


@rule('DERIVE-KEEP')
def rule_derive_keep(ctx):
    """the user's derive lists reach the generated types unchanged: an accessor of GraphQLClientCodegenOptions that
    filters a list may only drop the trait it prepends itself (`once("Deserialize").chain(rest.filter(!= "Deserialize"))`)"""
    obs = []
    n = 0
    for fn in ctx.crate('codegen').all_fns():
        if fn.from_macro or not (fn.d.get('impl_self') or '').endswith('GraphQLClientCodegenOptions'):
            continue
        # the public accessors of the two derive lists (public API: their names are stable; the private fields behind them
        # may be renamed)
        if not fn.path.endswith(('::all_variable_derives', '::all_response_derives', '::additional_response_derives')) or 'Iterator' not in fn.d.get('output', ''):
            continue
        n += 1
        inst = short(fn.path)
        # what the accessor adds itself
        added = set()
        excluded = set()
        positional = set()
        for f_, nd in H.deep_nodes(ctx, fn, fn.body, 2):
            if nd['k'] == 'call' and any(p_.endswith('iter::once') for p_ in H.callee_paths(nd)):
                added |= {x['lit']['v'] for x in walk(nd['args']) if x['k'] == 'lit' and x['lit']['lk'] == 'str'}
            if nd['k'] == 'mcall' and nd['method'] in ('filter', 'filter_map', 'skip_while', 'take_while') and nd['args']:
                for x in walk(nd['args'][0]):
                    if x['k'] == 'lit' and x['lit']['lk'] == 'str':
                        excluded.add(x['lit']['v'])
                    if x['k'] == 'path' and x['res'].get('r') == 'def' and str(x['res'].get('dk', '')).startswith(('Const', 'Static')):
                        for cf in ctx.pv.fn_by_path.get(norm_path(x['res']['path']), []):
                            excluded |= {y['lit']['v'] for y in walk(cf.body) if y['k'] == 'lit' and y['lit']['lk'] == 'str'}
            if nd['k'] == 'mcall' and nd['method'] in ('take', 'skip', 'step_by', 'nth', 'dedup') and any('Iterator::' in p_ or 'vec::Vec' in p_ for p_ in H.callee_paths(nd)):
                positional.add(nd['method'])
        extra = excluded - added
        if extra or positional:
            obs.append(bad('DERIVE-KEEP', inst, 'the accessor drops %s from the user\'s list (it prepends only %s)' % (sorted(extra) or sorted(positional), sorted(added)), fn.loc,
                           'a trait written in variables_derives / response_derives never reaches the generated types'))
        else:
            obs.append(ok('DERIVE-KEEP', inst, 'user list kept; only the prepended %s is de-duplicated' % sorted(added & excluded), fn.loc))
    if n < 2:
        obs.append(bad('DERIVE-KEEP', 'floor', 'anchor-missing: expected the variables and response derive accessors, found %d' % n))
    return obs


@rule('ID-INDEX')
def rule_id_index(ctx):
    """ids are positions in the stored vectors (`OperationId(i)` indexes `Query::operations`): wherever an `enumerate()`
    index over a stored vector becomes an id, nothing may narrow or reorder the vector before the enumerate"""
    obs = []
    n = 0
    NEUTRAL = {'iter', 'iter_mut', 'into_iter', 'as_slice', 'as_mut_slice', 'as_ref', 'as_mut', 'deref', 'deref_mut', 'by_ref', 'borrow', 'borrow_mut'}
    for fn in ctx.crate('codegen').all_fns():
        np_ = norm_path(fn.path)
        if fn.from_macro or not (np_.startswith('graphql_client_codegen::query') or np_.startswith('graphql_client_codegen::schema')):
            continue
        for en in fn.walk(lambda x: x['k'] == 'mcall' and x['method'] == 'enumerate'):
            chain = []
            cur = en['recv']
            while cur is not None:
                if cur.get('k') == 'mcall':
                    chain.append(cur['method'])
                    cur = cur['recv']
                elif cur.get('k') in ('ref', 'wrap', 'unary'):
                    cur = cur.get('e')
                else:
                    break
            if cur is None or cur.get('k') != 'field' or not cur.get('adt', '').endswith(('query::Query', 'schema::Schema')):
                continue
            # does the index become an id?  (an `..Id` constructor / `..Id::new` in the same fn fed from the enumerate)
            ids = [x for x in walk(fn.body) if x['k'] == 'call' and x.get('callee') and re.search(r'Id(::new)?$', x['callee']['path'])]
            if not ids:
                continue
            n += 1
            inst = '%s/%s' % (short(fn.path), cur['name'])
            extra = [m for m in chain if m not in NEUTRAL]
            if extra:
                obs.append(bad('ID-INDEX', inst, 'ids are taken from enumerate() over `%s` after %s: the index is a position in the narrowed view, not in the vector' % (cur['name'], extra), en.get('sp', ''),
                               'the id names another element: data of one operation/fragment is attached to another'))
            else:
                obs.append(ok('ID-INDEX', inst, 'id = position in the stored vector `%s` (enumerate directly over it)' % cur['name'], en.get('sp', '')))
    if n < 2:
        obs.append(bad('ID-INDEX', 'floor', 'anchor-missing: expected the fragment/operation lookups by enumerate over stored vectors, found %d' % n))
    return obs
