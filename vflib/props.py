"""Property -> rule instances.  Each property lists the rule ids it claims; rule ids are produced by
rule functions (several ids per function).  A rule function is run once per process."""
from . import rules_gen as G
from . import rules_c06 as C06

try:
    from . import rules_hir as HR
except ImportError:  # pragma: no cover
    HR = None

# rule id -> producing function (name, module)
PRODUCERS = {}


def reg(fn, *ids):
    for i in ids:
        PRODUCERS.setdefault(i, []).append(fn)


reg(G.rule_grammar, 'GRAMMAR')
reg(G.rule_wire, 'WIRE-1', 'WIRE-2', 'IDENT-1', 'OPT-1')
reg(G.rule_serde_crate, 'SERDE-CRATE')
reg(G.rule_serde_path, 'SERDE-PATH')
reg(G.rule_attr_precision, 'ATTR-PRECISION')
reg(G.rule_opt, 'OPT-1', 'OPT-2')
reg(G.rule_skip_none, 'SKIP-NONE')
reg(G.rule_id, 'ID-ATTACH', 'ID-TYPING', 'ID-ABSENT', 'ID-SHAPE')
reg(G.rule_other_guard, 'OTHER-GUARD')
reg(G.rule_sel_empty_enum, 'SEL-EMPTY-ENUM')
reg(G.rule_oneof_shape, 'ONEOF-SHAPE')
reg(G.rule_types_grammar, 'TYPES-1', 'TYPES-2', 'TYPES-5')
reg(G.rule_box, 'BOX-SITES', 'BOX-INVISIBLE', 'REACH-INPUT')
reg(G.rule_enum, 'ENUM-SHAPE', 'ENUM-OPEN', 'ENUM-ZIP', 'WIRE-1', 'OPT-1', 'IDENT-1', 'SERDE-PATH')
reg(G.rule_body, 'BODY-STRUCT', 'BODY-CONST', 'BODY-IMPL', 'INCLUDE-STR', 'WIRE-1')
reg(G.rule_sel_flatten, 'SEL-FLATTEN')
reg(G.rule_depr_note, 'DEPR-NOTE', 'DEPR-TABLE', 'DEPR-ORIGIN')
reg(C06.rule_lookup_checked, 'LOOKUP-CHECKED')
reg(C06.rule_err_propagated, 'ERR-PROPAGATED')
reg(C06.rule_validators_dominate, 'VALIDATE-ORDER')
reg(C06.rule_kind_matrix, 'KIND-MATRIX')
reg(C06.rule_cond_matrix, 'COND-MATRIX')
reg(C06.rule_typename_matrix, 'TYPENAME-MATRIX')
reg(C06.rule_roots, 'ROOTS', 'UNION-FIELDS')

if HR is not None:
    for fn, ids in HR.REGISTRY:
        reg(fn, *ids)

for _modname in ('rules_hir2', 'rules_hir3', 'rules_hir4', 'rules_hir5', 'rules_hir6', 'rules_hir7', 'rules_hir8', 'rules_hir9', 'rules_mir'):
    try:
        _m = __import__('vflib.' + _modname, fromlist=['REGISTRY'])
    except ImportError:
        continue
    for fn, ids in _m.REGISTRY:
        reg(fn, *ids)


def inst_has(*subs):
    return lambda ob: any(s in ob.instance for s in subs)


# property -> list of (rule id, optional instance filter)
PROPS = {
    'C01': [('DEP-FEATURES', None), ('SEL-OWNER', None), ('SPREAD-LOOKUP', None), ('SEL-TOTAL', None), ('ENUM-OPEN', None), ('ENUM-SHAPE', None), ('ALIAS-SOLE', None), ('ALIAS-KEY', None), ('GRAMMAR', None), ('WIRE-1', inst_has('field[', 'typename-variant', 'floor/response-field', 'floor/spread', 'floor/typename')),
            ('WIRE-2', inst_has('field[')), ('SEL-FLATTEN', None), ('SEL-EMPTY-ENUM', None), ('ATTR-PRECISION', None),
            ('SEL-ITEM', None), ('SEL-CONSUME', None), ('SEL-PAIR', None), ('TAG-AGREE', None), ('VARIANTS-EXHAUSTIVE', None),
            ('EXTENSIONS', None), ('INGEST-ALL', None), ('ID-TYPING', None), ('ID-ABSENT', None), ('TYPES-2', None), ('TYPES-4', None),
            ('TYPENAME-SAME-TYPE', None), ('ID-HELPER', None)],
    'C02': [('JSON-SHAPES', None), ('INTRO-NULLABLE', None), ('EXTENSIONS', None), ('SPREAD-BOXED', None), ('SWAPPED-ARGS', inst_has('codegen', 'floor', 'scan')), ('NAME-AGREE', None), ('DEFAULT-LITERAL', None), ('SET-SCOPE', None), ('OUT-CONTENT', inst_has('truncate')), ('BODY-STRUCT', None), ('REP-FRESH', None), ('DERIVE-DEDUP', None), ('REACH-KINDS', None), ('SCALAR-BUILTIN', None), ('GRAMMAR', None), ('SERDE-CRATE', None), ('SERDE-PATH', None), ('IDENT-1', None), ('IDENT-2', None), ('KW-TABLE', None),
            ('ID-TYPING', None), ('ID-SHAPE', None), ('SEL-PAIR', None), ('DEF-CLOSURE', None), ('ONE-ENTRY', None), ('TYPES-2', None),
            # finite-size types: recursion must be found and boxed, or the module does not type-check (E0072)
            ('VISITED-DISCIPLINE', None), ('BOX-SITES', None), ('REACH-INPUT', None), ('REACH-FRAGMENT', None),
            ('REC-GUARD', inst_has('contains_type_without_indirection', 'contains_fragment', 'fragment_is_recursive', 'input_is_recursive'))],
    'C03': [('GRAMMAR', None), ('TYPES-1', None), ('TYPES-2', None), ('TYPES-4', None), ('TYPES-3', None), ('ATTR-PRECISION', None),
            ('OTHER-GUARD', None), ('VARIANTS-EXHAUSTIVE', None), ('WIRE-1', inst_has('typename-variant')), ('EXTENSIONS', None), ('SIB-2', None),
            # the tagged enum (and its Unknown variant) exists only because validation forces __typename onto the abstract type itself
            ('TYPENAME-SAME-TYPE', None), ('TYPENAME-MATRIX', None), ('INGEST-ALL', None), ('ID-HELPER', None), ('CACHE-KEY', None)],
    'C04': [('INTRO-KEYS', inst_has('is_one_of', 'floor')), ('ENUM-ORDER', None), ('ATTR-SCAN', None), ('QUALIFIERS-FIXED', None), ('ONEOF-VALUE', None), ('ID-INDEX', None), ('TYPES-3', None), ('ENUM-SHAPE', None), ('ENUM-ZIP', None), ('GRAMMAR', None), ('WIRE-1', inst_has('ResolvedVariable', 'StoredInputType', 'enum-value', 'floor/variable', 'floor/input', 'floor/oneof')),
            ('WIRE-2', inst_has('ResolvedVariable', 'StoredInputType')),
            # response fields also carry the attribute, but no given property constrains it there (C01 allows null-vs-absent)
            ('SKIP-NONE', inst_has('ResolvedVariable', 'StoredInputType', 'floor')), ('ONEOF-SHAPE', None),
            ('VARS-ORIGIN', None), ('TYPES-2', None), ('TYPES-4', None)],
    'C05': [('VALUE-FOLD', None), ('POST-HELPER', None), ('ATTR-PATHS', inst_has('set_query_file')), ('OP-NOT-FOUND-MSG', None), ('ROOTS', None), ('ID-INDEX', None), ('GRAMMAR', None), ('BODY-STRUCT', None), ('BODY-CONST', None), ('BODY-IMPL', None), ('INCLUDE-STR', None), ('WIRE-1', inst_has('OPERATION_NAME', 'QUERY')),
            ('BODY-KEYS', None), ('NO-FALLBACK', None), ('SAME-OP', None), ('QUERY-TEXT', None)],
    'C06': [('SET-SCOPE', None), ('ID-INDEX', None), ('CACHE-KEY', None), ('TYPENAME-SAME-TYPE', None), ('ROOTS-AGREE', None), ('LOOKUP-CHECKED', None), ('ERR-PROPAGATED', inst_has('query::', 'graphql_client_codegen::', 'GeneratedModule', 'codegen::')),
            ('VALIDATE-ORDER', None), ('KIND-MATRIX', None), ('COND-MATRIX', None), ('TYPENAME-MATRIX', None), ('ROOTS', None), ('UNION-FIELDS', None)],
    'C07': [('INTRO-KEYS', None), ('INTRO-NULLABLE', None), ('INTRO-KIND-TABLE', None), ('ONEOF-VALUE', None), ('STORE-TOTAL', None), ('VARIANTS-EXHAUSTIVE', None), ('CACHE-KEY', None), ('SCALAR-BUILTIN', None), ('SIB-1', None), ('SIB-2', None), ('SIB-3', None), ('TYPES-3', None), ('JSON-SHAPES', None), ('EXT-DISPATCH', None),
            ('ROOTS-AGREE', None), ('EXTENSIONS', None), ('ID-ORDER', None), ('INGEST-ALL', None), ('ENUM-VALUES', None)],
    'C08': [('STATE-INVENTORY', None), ('CACHE-ACCESS', None), ('CACHE-KEY', None), ('LOCK-DISCIPLINE', None), ('NO-AMBIENT', None), ('ORDERED', None)],
    'C09': [('ENUM-ORDER', None), ('EXTERN-FILTER', None), ('ATTR-PLUMB', inst_has('/independent')), ('SCAN-GUARD', None), ('DERIVE-KEEP', None), ('WIRE-1', inst_has('typename-variant', 'OPERATION_NAME')), ('BODY-CONST', None), ('NORM-ID', None), ('GRAMMAR', None), ('OPT-1', None), ('OPT-2', None), ('DERIVE-ONLY', None)],
    'C10': [('DOC-CONTENT', inst_has('includeDeprecated/enumValues')), ('ENUM-ORDER', None), ('KW-TABLE', None), ('STORE-TOTAL', inst_has('stored_enums', 'floor')), ('CACHE-KEY', None), ('REP-FRESH', None), ('ENUM-VALUES', None), ('GRAMMAR', None), ('ENUM-SHAPE', None), ('ENUM-OPEN', None), ('ENUM-ZIP', None), ('WIRE-1', inst_has('enum-value')),
            ('OPT-1', inst_has('enum-value')), ('DERIVE-FILTER', None)],
    'C11': [('DEFAULT-LITERAL', inst_has('/variant')), ('SEL-TOTAL', None), ('ALIAS-KEY', None), ('GRAMMAR', None), ('KW-TABLE', None), ('IDENT-1', None), ('IDENT-2', None), ('WIRE-1', inst_has('field[', 'variant[', 'enum-value', 'floor/')),
            ('WIRE-2', None)],
    'C12': [('SPREAD-BOXED', None), ('SPREAD-LOOKUP', None), ('SET-SCOPE', None), ('SKIP-NONE', inst_has('StoredInputType', 'ResolvedVariable')), ('VISITED-DISCIPLINE', None), ('REACH-KINDS', None), ('GRAMMAR', None), ('BOX-SITES', None), ('BOX-INVISIBLE', None), ('REACH-INPUT', None), ('REACH-FRAGMENT', None),
            ('REC-GUARD', inst_has('contains_type_without_indirection', 'contains_fragment', 'fragment_is_recursive', 'input_is_recursive'))],
    'C13': [('QUALIFIERS-FIXED', None), ('ONEOF-VALUE', None), ('NAME-AGREE', None), ('STORE-TOTAL', inst_has('stored_fields', 'floor')), ('CACHE-KEY', None), ('SCALAR-BUILTIN', None), ('GRAMMAR', None), ('TYPES-1', None), ('TYPES-2', None), ('TYPES-3', None), ('TYPES-4', None), ('TYPES-5', None)],
    'C14': [('INTRO-KEYS', inst_has('deprecat', 'floor')), ('ATTR-PLUMB', inst_has('/independent')), ('RENDER-ALL', None), ('SCAN-GUARD', None), ('GRAMMAR', None), ('DEPR-TABLE', None), ('DEPR-NOTE', None), ('DEPR-ORIGIN', None), ('DEPR-DEFAULT', None), ('SIB-3', None),
            ('ATTR-PRECISION', inst_has('deny_unknown', 'struct/'))],
    'C15': [('FMT-SELF', inst_has('graphql_client::Error', 'PathFragment', 'floor')), ('ENV-ACCEPT', None), ('ENV-ROUNDTRIP', None), ('DISPLAY-FORMAT', None), ('DISPLAY-TOTAL', None)],
    'C16': [('TYPES-3', None), ('ATTR-PRECISION', inst_has('default', 'deserialize_with')), ('NORM-ID', None), ('GRAMMAR', None), ('ID-SHAPE', None), ('ID-ATTACH', None), ('ID-TYPING', None), ('ID-ABSENT', None), ('ID-HELPER', None)],
    'C17': [('SPREAD-LOOKUP', None), ('FMT-SELF', None), ('SET-SCOPE', None), ('VISITED-DISCIPLINE', None), ('DOUBLE-DESCENT', None), ('REC-GUARD', None), ('LOOP-PROGRESS', None), ('NO-ABORT', None), ('PIPE-DRAIN', None)],
    'C18': [('VALUE-FOLD', None), ('ATTR-SCAN', None), ('DERIVE-SPLIT', None), ('SWAPPED-ARGS', None), ('DERIVE-KEEP', None), ('DEPR-DEFAULT', None), ('SCAN-GUARD', None), ('VALUE-PARSE', None), ('ATTR-PLUMB', None), ('ATTR-DEFAULTS', None), ('ATTR-PATHS', None), ('ATTR-MODE', None)],
    'C19': [('SWAPPED-ARGS', None), ('BODY-STRUCT', None), ('DERIVE-KEEP', None), ('PIPE-DRAIN', None), ('FLAG-PLUMB', None), ('OUT-CONTENT', None), ('OUT-PATH', None), ('NO-WRITE-ON-ERROR', None), ('ONE-ENTRY', None),
            ('ERR-PROPAGATED', inst_has('generate::'))],
    'C20': [('SWAPPED-ARGS', None), ('REQ-BUILD', None), ('DOC-PAIRING', None), ('DOC-TABLE', None), ('DOC-CONTENT', None), ('STATUS', None), ('OUT-AFTER-SUCCESS', None),
            ('HEADER-GUARDS', None), ('ERR-PROPAGATED', inst_has('introspection_schema::'))],
}


# thorough tier: the ordering obligations decided again on the MIR control-flow graph (real dominators, witness paths)
PROPS_THOROUGH = {
    'C06': [('MIR-VALIDATE', None)],
    'C12': [('MIR-VISITED', None)],
    'C17': [('MIR-VISITED', None)],
    'C19': [('MIR-WRITE-AFTER-GEN', None)],
    'C20': [('MIR-WRITE-AFTER-OK', None)],
}
