"""Second-generation rules added after the first seeded-mutant campaign: ALIAS-SOLE, TYPENAME-SAME-TYPE,
VISITED-DISCIPLINE, REACH-KINDS, DOUBLE-DESCENT, SCALAR-BUILTIN, DEPR-ORIGIN (aggregates), SCAN-GUARD, VALUE-PARSE."""
import re

from . import prov as P
from . import terms as TM
from . import hirx as H
from .core import Ob, ok, bad, undecided, short
from .facts import norm_path
from .rules_hir import walk, callgraph
from .rules_hir5 import free_locals, pat_hids

REGISTRY = []


def rule(*ids):
    def deco(fn):
        REGISTRY.append((fn, ids))
        return fn
    return deco


def _exclusive(fn, a, b):
    """are nodes a and b in different arms of one match / different branches of one if?"""
    anc_a = [(p, r) for p, r, c in fn.ancestors(a)]
    anc_b = [(p, r) for p, r, c in fn.ancestors(b)]
    ids_b = {id(p): r for p, r in anc_b}
    for p, r in anc_a:
        if id(p) in ids_b:
            rb = ids_b[id(p)]
            k = p.get('k')
            if k == 'match' and isinstance(r, tuple) and isinstance(rb, tuple) and r[0] == 'arms' and rb[0] == 'arms' and r[1] != rb[1]:
                return True
            if k == 'if' and {r, rb} == {'then', 'else'}:
                return True
            # one of them sits in a branch that leaves the function (`return f(..)` / `return` later in that branch)
            # before the other can run
            for x, anc in ((a, anc_a), (b, anc_b)):
                for q, rq in anc:
                    if q is p:
                        break
                    if q.get('k') == 'ret':
                        return True
                    if q.get('k') == 'block' and P.diverges(q) and (q.get('k'), rq) != (None, None):
                        # the branch block ends in return/panic: nothing after the common ancestor runs on this path
                        par = fn.parent.get(id(q))
                        if par and par[0] is not None and par[0].get('k') in ('match', 'if'):
                            return True
            return False
    return False


@rule('ALIAS-SOLE')
def rule_alias_sole(ctx):
    """a selection is replaced by a type alias of a fragment only when the spread is the ONLY selection"""
    obs = []
    fn = ctx.fn('codegen', 'codegen::selection::calculate_selection')
    if fn is None:
        return [bad('ALIAS-SOLE', 'floor', 'anchor-missing: calculate_selection not found')]
    fam = [fn]
    for owner, _n, _p in H.Flat(ctx, fn, 2).entries:
        if owner not in fam and not owner.from_macro and norm_path(owner.path).startswith('graphql_client_codegen::codegen::selection'):
            fam.append(owner)
    calls = [(f_, n) for f_ in fam for n in H.calls_in(f_) if any(short(f.path).endswith('push_type_alias') for f in ctx.pv.local_fns(n.get('callee')))]
    if len(calls) < 2:
        obs.append(bad('ALIAS-SOLE', 'floor', 'anchor-missing: expected 2 alias productions (whole selection, single-spread variant), found %d' % len(calls)))
    for i, (fn, c) in enumerate(calls):
        senv = H.sym_env(fn)
        inst = 'calculate_selection/alias#%d' % (i + 1)
        pcs = P.path_conds(fn, c)
        sole = False
        spread = False
        why = []
        for pc in pcs:
            if pc[0] == 'if':
                t = ctx.pv.eval(fn, pc[1], senv, 0)
                for s in P.subterms(t):
                    if s[0] == 'op' and s[1] == '==' and ('const', 1) in s[2] and any(x[0] == 'op' and x[1] == 'len' for x in s[2]) and pc[2]:
                        sole = True
                    if s[0] == 'op' and s[1] == 'matches' and 'FragmentSpread' in repr(s[2][-1]):
                        spread = True
                        # a slice pattern decides "sole" only if it has no rest
                        pat = s[2][-1][1] if s[2][-1][0] == 'pat' else None
                        if pat and pat[0] == 'slice':
                            if not pat[2]:
                                sole = True
                            else:
                                why.append('slice pattern with `..` (first element only)')
            if pc[0] in ('match', 'if') and pc[1] is not None:
                # the decision may have been taken earlier and named (`let sole_spread = match set { [only] => match .. }`):
                # look at the patterns inside the value that is tested here
                try:
                    tt_ = ctx.pv.eval(fn, pc[1], senv, 0)
                except Exception:
                    tt_ = None
                if tt_ is not None:
                    for s_ in P.subterms(tt_):
                        if isinstance(s_, tuple) and s_ and s_[0] == 'match':
                            for pat_, _v in s_[2]:
                                rp_ = repr(pat_)
                                if 'FragmentSpread' in rp_:
                                    spread = True
                                for q_ in [pat_] + [x for x in P.subterms(pat_) if isinstance(x, tuple)]:
                                    if isinstance(q_, tuple) and q_ and q_[0] == 'slice' and not q_[2] and len(q_[1]) == 1:
                                        sole = True
            if pc[0] == 'match' and 'FragmentSpread' in repr(pc[2]):
                spread = True
                # `if let [(.., FragmentSpread(..))] = xs.as_slice()`: a one-element slice pattern without `..`
                for s in [pc[2]] + [x for x in P.subterms(pc[2]) if isinstance(x, tuple)]:
                    if isinstance(s, tuple) and s and s[0] == 'slice':
                        if not s[2] and len(s[1]) == 1:
                            sole = True
                        elif s[2]:
                            why.append('slice pattern with `..` (first element only)')
        if sole and spread:
            obs.append(ok('ALIAS-SOLE', inst, 'alias only when the selection is exactly one fragment spread', c.get('sp', '')))
        else:
            obs.append(bad('ALIAS-SOLE', inst, 'a type alias replaces the selection without testing that the spread is the only selection (%s)' %
                           ('; '.join(why) or 'no `len() == 1` / exact pattern'), c.get('sp', ''),
                           'the other selections on that type are never generated: payload data is dropped'))
    return obs


@rule('TYPENAME-SAME-TYPE')
def rule_typename_same_type(ctx):
    """__typename found inside a spread fragment only counts when the fragment is on the very same type"""
    obs = []
    # the recursive __typename search: a self-recursive function of the validation module that matches on
    # `Selection::Typename` (found by what it does; the name is not relied upon)
    cg = callgraph(ctx)
    fns = [f for f in ctx.crate('codegen').all_fns() if norm_path(f.path).startswith('graphql_client_codegen::query::validation') and not f.from_macro]
    # .. recursive directly or through a helper (the spread case split off into its own function)
    def in_cycle(f_):
        return f_.key in cg.reachable([k_ for k_ in cg.edges.get(f_.key, ())])
    rec = [f for f in fns if in_cycle(f) and
           any(any('Selection::Typename' in repr(P.pat_summary(a['pat'])) for a in m_['arms']) for m_ in f.walk(lambda x: x['k'] == 'match'))]
    if not rec:
        return [bad('TYPENAME-SAME-TYPE', 'floor', 'anchor-missing: recursive __typename search not found')]
    root = rec[0]
    members = [f_ for f_ in fns if f_.key == root.key or (f_.key in cg.reachable([root.key]) and root.key in cg.reachable([f_.key]))]
    # the calls that re-enter the search for the selection set of a *spread fragment*: calls of the root function from
    # inside the cycle
    sites = []
    for f_ in members:
        for call in cg.sites.get((f_.key, root.key), []):
            sites.append((f_, call))
    for i, (f, call) in enumerate(sites):
        senv = H.sym_env(f)
        inst = '%s#%d' % (short(root.path), i + 1)
        good = False
        for pc in P.path_conds(f, call):
            if pc[0] == 'if' and isinstance(pc[2], bool):
                t = ctx.pv.eval(f, pc[1], senv, 0)
                _x, c_, pol_ = P.canon_if(t, pc[2])
                if c_[0] == 'op' and c_[1] == '==' and pol_ and 'ResolvedFragment.on' in TM.fields_in(c_) and any(x[0] == 'param' for x in c_[2]):
                    good = True
                if not pc[2]:
                    continue
                for s in P.subterms(t):
                    if s[0] == 'op' and s[1] == '==' and 'ResolvedFragment.on' in TM.fields_in(s) and any(x[0] == 'param' for x in s[2]):
                        good = True
        if good:
            obs.append(ok('TYPENAME-SAME-TYPE', inst, 'a spread fragment is searched only if it is on the parent type itself', call.get('sp', '')))
        else:
            obs.append(bad('TYPENAME-SAME-TYPE', inst, '__typename selected inside a fragment on ANOTHER type is accepted as the parent\'s __typename', call.get('sp', ''),
                           'an interface/union selection without its own __typename is turned into a tagged enum that cannot pick a variant'))
    return obs


@rule('VISITED-DISCIPLINE', 'REACH-KINDS', 'DOUBLE-DESCENT', 'REACH-INPUT')
def rule_traversals(ctx):
    obs = []
    cg = callgraph(ctx)
    comps = [c for c in cg.sccs() if any(k.startswith('codegen::') for k in c)]
    n_vis = 0
    deep_traversals = set()
    for root in ('query::fragments::fragment_is_recursive', 'query::all_used_types'):
        rf = ctx.fn('codegen', root)
        if rf is not None:
            deep_traversals |= cg.reachable([rf.key])
    for comp in comps:
        for key in sorted(comp):
            fn = ctx.fn_by_key(key)
            if fn is None or fn.from_macro:
                continue
            senv = H.sym_env(fn)
            rec_calls = []
            for tgt in comp:
                rec_calls += cg.sites.get((fn.key, tgt), [])
            rec_calls = [c for c in rec_calls if c.get('k') in ('call', 'mcall')]
            if not rec_calls:
                continue
            # ---- VISITED-DISCIPLINE: the visited set lives outside the recursion -------------------
            for rc in rec_calls:
                for a in ([rc['recv']] if rc['k'] == 'mcall' else []) + rc['args']:
                    aty = a.get('ty', '') + a.get('aty', '')
                    if not any(x in aty for x in ('BTreeSet', 'HashSet')):
                        continue
                    root = a
                    while root.get('k') in ('ref', 'wrap', 'unary'):
                        root = root.get('e')
                    if root.get('k') == 'mcall' and root['method'] in ('clone', 'to_owned', 'cloned') and any(x in (root['recv'].get('ty', '') + root['recv'].get('aty', '')) for x in ('BTreeSet', 'HashSet')):
                        obs.append(bad('VISITED-DISCIPLINE', '%s/copied-set' % short(fn.path),
                                       'the recursive call is handed a *copy* of the visited set: what is visited below one member is forgotten for its siblings', rc.get('sp', ''),
                                       'a node reachable along many paths is walked once per path: exponential time on layered inputs (generation does not finish)'))
                        continue
                    if root.get('k') == 'path' and root['res'].get('r') == 'local':
                        srcs = fn.binds.get(root['res']['hid'], [])
                        fresh = [s_ for s_ in srcs if s_[0] == 'expr' and s_[1].get('k') in ('call', 'mcall') and
                                 any(p_.endswith(('::new', '::default', '::with_capacity')) for p_ in H.callee_paths(s_[1]))]
                        if fresh:
                            obs.append(bad('VISITED-DISCIPLINE', '%s/fresh-set' % short(fn.path),
                                           'a function on the recursive cycle creates the visited set it passes on: every level starts with an empty set', rc.get('sp', ''),
                                           'the guard never fires across levels: a cycle recurses until the stack overflows'))
            for n in H.calls_in(fn):
                if n['k'] == 'mcall' and n['method'] == 'insert' and any(x in (n['recv'].get('ty', '') + n['recv'].get('aty', '')) for x in ('BTreeSet', 'HashSet')):
                    # is the set a parameter (a visited set threaded through the recursion)?
                    root = n['recv']
                    while root.get('k') in ('ref', 'wrap', 'unary', 'field'):
                        root = root.get('e') or root.get('base')
                    if not (root.get('k') == 'path' and root['res'].get('r') == 'local'):
                        continue
                    rhid = root['res']['hid']
                    if not any(s[0] == 'param' for s in fn.binds.get(rhid, [])):
                        continue
                    n_vis += 1
                    inst = '%s/insert' % short(fn.path)
                    t = ctx.pv.eval(fn, n['args'][0], senv, 0)
                    core = t
                    while core[0] in ('sel',) or (core[0] == 'ctor' and len(core[2]) == 1):
                        core = core[2] if core[0] == 'sel' else core[2][0]
                    invariant = False
                    if core[0] == 'param':
                        idx = core[2]
                        # passed unchanged in every recursive call?
                        same = True
                        for rc in rec_calls:
                            args = ([rc['recv']] if rc['k'] == 'mcall' else []) + rc['args']
                            if idx < len(args):
                                at = ctx.pv.eval(fn, args[idx], senv, 0)
                                if at != core:
                                    same = False
                            else:
                                same = False
                        invariant = same and idx != 0
                    if invariant:
                        obs.append(bad('VISITED-DISCIPLINE', inst, 'the visited set records the loop-invariant search target (parameter #%d), not the node being visited' % core[2],
                                       n.get('sp', ''), 'nodes are visited repeatedly or the search stops one level deep: longer cycles are missed'))
                    else:
                        obs.append(ok('VISITED-DISCIPLINE', inst, 'visited set records the node being visited (%s)' % P.show(t, 0, 2)[:60], n.get('sp', '')))
            # ---- REACH-INPUT: a recursive walk over an input type looks at every member ------------
            if (fn.d.get('impl_self') or '').endswith('schema::StoredInputType'):
                def pipeline_root(e_, hops=0):
                    while e_ is not None and hops < 12:
                        hops += 1
                        k_ = e_.get('k')
                        if k_ == 'mcall':
                            e_ = e_['recv']
                        elif k_ in ('ref', 'wrap', 'unary', 'cast'):
                            e_ = e_.get('e')
                        elif k_ == 'path' and e_['res'].get('r') == 'local':
                            srcs = fn.binds.get(e_['res']['hid'], [])
                            if len(srcs) == 1 and srcs[0][0] == 'expr':
                                e_ = srcs[0][1]
                            else:
                                return None
                        elif k_ == 'field':
                            return e_ if e_['name'] == 'fields' and e_.get('adt', '').endswith('StoredInputType') else None
                        else:
                            return None
                    return None
                POSITIONAL = {'take', 'skip', 'take_while', 'skip_while', 'step_by', 'nth', 'last', 'first', 'dedup', 'dedup_by', 'dedup_by_key', 'max_by_key', 'min_by_key',
                              'values', 'keys', 'into_values', 'into_keys', 'split_first', 'split_last', 'get', 'pop', 'truncate'}
                PRED = {'filter', 'filter_map', 'find', 'find_map', 'position'}
                meths = []
                for n in fn.walk(lambda x: x['k'] == 'mcall'):
                    if pipeline_root(n['recv']) is not None:
                        m_ = n['method']
                        if m_ == 'collect' and any(x in n.get('ty', '') for x in ('BTreeMap', 'HashMap', 'BTreeSet', 'HashSet')):
                            m_ = 'collect-into-keyed'
                        meths.append(m_)
                loops_ = [l for l in fn.walk(lambda x: x['k'] == 'for') if pipeline_root(l['iter']) is not None]
                inst = '%s/members' % short(fn.path)
                if not meths and not loops_:
                    obs.append(undecided('REACH-INPUT', inst, 'the walk over the members of the input type was not recognised', fn.loc))
                else:
                    narrowing = sorted(set(meths) & (POSITIONAL | {'collect-into-keyed'}))
                    preds = sorted(set(meths) & PRED)
                    if narrowing:
                        obs.append(bad('REACH-INPUT', inst, 'the member list is narrowed by %s before it is searched' % narrowing, fn.loc,
                                       'a member that closes a cycle without indirection is skipped: the type is not boxed (E0072)'))
                    elif preds:
                        obs.append(undecided('REACH-INPUT', inst, 'the member list is filtered by a predicate (%s) that is not decided here' % preds, fn.loc))
                    else:
                        obs.append(ok('REACH-INPUT', inst, 'every member of the input type is examined (pipeline: %s)' % sorted(set(meths)), fn.loc))
            # ---- DOUBLE-DESCENT ----------------------------------------------------------------
            keyed = []
            for rc in rec_calls:
                args = ([rc['recv']] if rc['k'] == 'mcall' else []) + rc['args']
                node_args = [a for a in args if any(x in (a.get('ty', '') + a.get('aty', '')) for x in ('SelectionId', 'selection::Selection', 'StoredInputType'))]
                if not node_args:
                    continue
                # the collection iterated to produce the argument
                loops = [p for p, r, c in fn.ancestors(rc) if p.get('k') == 'for']
                src = loops[0]['iter'] if loops else node_args[0]
                st_ = TM.strip_bases(ctx.pv.eval(fn, src, senv, 0))
                callee_fns = ctx.pv.local_fns(rc.get('callee'))
                if not loops and st_[0] == 'param' and callee_fns and all(cf_.key != fn.key for cf_ in callee_fns):
                    # the function hands its own, whole argument to a helper of the same traversal: the helper continues
                    # this visit (delegation), it does not descend
                    continue
                keyed.append((repr(st_), rc))
            seen = {}
            for k_, rc in keyed:
                for other in seen.get(k_, []):
                    if not _exclusive(fn, rc, other):
                        obs.append(bad('DOUBLE-DESCENT', '%s' % short(fn.path), 'the same sub-selection is traversed by two recursive calls on one path', rc.get('sp', ''),
                                       'work doubles at every nesting level (2^depth): deep selections effectively never finish'))
                seen.setdefault(k_, []).append(rc)
            if keyed and not any(o.rule == 'DOUBLE-DESCENT' and o.instance == short(fn.path) for o in obs):
                obs.append(ok('DOUBLE-DESCENT', short(fn.path), 'each sub-structure is descended into once per visit (%d recursive sites, mutually exclusive)' % len(keyed), fn.loc))
            # ---- REACH-KINDS: a *whole-subtree* traversal over selections (the fragment-recursion predicate, the
            # used-types collector) descends into every kind that has a sub-selection
            if fn.key not in deep_traversals:
                continue
            for m in fn.walk(lambda x: x['k'] == 'match'):
                if 'selection::Selection' not in m['scrut'].get('ty', '') or 'SelectionParent' in m['scrut'].get('ty', ''):
                    continue
                in_match = any(id(rc) in {id(x) for x in walk(m)} for rc in rec_calls)
                # ... or the match only selects what to descend into and the recursion follows it (`let next = match s {..};
                # next.iter().any(|x| rec(x))`)
                follows = False
                ch_ = H.stmt_chain(fn, m)
                if ch_:
                    blk_, idx_ = ch_[-1]
                    tail_ = [blk_['expr']] if blk_.get('expr') is not None and idx_ < len(blk_['stmts']) else []
                    for st_ in blk_['stmts'][idx_ + 1:] + tail_:
                        if any(id(rc) in {id(x) for x in walk(st_)} for rc in rec_calls):
                            follows = True
                if not in_match and not follows:
                    continue
                for kind in ('Field', 'InlineFragment'):
                    arm = None
                    for a in m['arms']:
                        ps = P.pat_summary(a['pat'])
                        alts = ps[1] if ps[0] == 'or' else [ps]
                        if any((alt[0] == 'ctor' and alt[1].split('::')[-1] == kind) or alt[0] in ('wild', 'bind') for alt in alts):
                            arm = a
                            break
                    inst = '%s/%s' % (short(fn.path), kind)
                    inner = {id(x) for x in walk(arm['body'])} if arm else set()
                    # recursion may also follow the match (post-match loop over subselection())
                    after = False
                    chain = H.stmt_chain(fn, m)
                    if chain:
                        blk, idx = chain[-1]
                        tail = [blk['expr']] if blk.get('expr') is not None and idx < len(blk['stmts']) else []
                        for st in blk['stmts'][idx + 1:] + tail:
                            if any(id(rc) in {id(x) for x in walk(st)} for rc in rec_calls):
                                after = True
                    # recursion after the match only counts for arms that fall through to it
                    leaves_early = arm is not None and (P.diverges(arm['body']) or arm['body'].get('k') == 'ret')
                    if arm is not None and (any(id(rc) in inner for rc in rec_calls) or (after and not leaves_early)):
                        obs.append(ok('REACH-KINDS', inst, 'traversal descends into %s selections' % kind, m.get('sp', '')))
                    else:
                        obs.append(bad('REACH-KINDS', inst, 'the traversal does not descend into the sub-selection of %s selections' % kind, m.get('sp', ''),
                                       'spreads / types nested under an inline fragment (or field) are not seen: missing Box (E0072) or missing definitions (E0412)'))
    if n_vis < 2:
        obs.append(bad('VISITED-DISCIPLINE', 'floor', 'anchor-missing: expected >= 2 visited-set insertions in recursive traversals, found %d' % n_vis))
    return obs


@rule('SCALAR-BUILTIN')
def rule_scalar_builtin(ctx):
    obs = []
    fn = ctx.fn('codegen', 'query::UsedTypes::scalars')
    if fn is None:
        return [bad('SCALAR-BUILTIN', 'floor', 'anchor-missing: UsedTypes::scalars not found')]
    flt = [n for n in walk(fn.body) if n['k'] == 'mcall' and n['method'] == 'filter']
    good = False
    for n in flt:
        body = n['args'][0]
        names = [x for x in walk(body) if x['k'] == 'path' and x['res'].get('path', '').endswith('DEFAULT_SCALARS')]
        by_name = any(x['k'] == 'field' and x['name'] == 'name' for x in walk(body))
        neg = any(x['k'] == 'unary' and x['op'] == '!' for x in walk(body))
        cont = any(x['k'] == 'mcall' and x['method'] == 'contains' for x in walk(body))
        if names and by_name and neg and cont:
            good = True
    if good:
        obs.append(ok('SCALAR-BUILTIN', 'UsedTypes::scalars', 'built-in scalars are excluded from the custom-scalar aliases by NAME (the criterion both schema front ends use)', fn.loc))
    else:
        obs.append(bad('SCALAR-BUILTIN', 'UsedTypes::scalars', 'custom-scalar aliases are not filtered by `!DEFAULT_SCALARS.contains(name)`', fn.loc,
                       'a schema that declares `scalar Int` gets `type Int = super::Int` next to `type Int = i64` (SDL and JSON disagree on ids)'))
    return obs


@rule('DEPR-ORIGIN', 'ALIAS-KEY')
def rule_depr_origin(ctx):
    """every named response field carries its own schema field's deprecation; spreads carry none"""
    obs = []
    n = 0
    for fn, node in ctx.prog.aggregates_norm.get('graphql_client_codegen::codegen::selection::ExpandedField', []):
        f = {x['name']: x['e'] for x in node['fields']}
        if 'graphql_name' not in f or 'deprecation' not in f:
            continue
        senv = H.sym_env(fn)
        g = ctx.pv.eval(fn, f['graphql_name'], senv, 0)
        d = ctx.pv.eval(fn, f['deprecation'], senv, 0)
        named = g[0] != 'none'
        n += 1
        ty = ctx.pv.eval(fn, f['field_type'], senv, 0) if 'field_type' in f else ('unit',)
        sig = 'named[%s]' % ('+'.join(sorted(x for x in TM.fields_in(ty) if x.startswith('Stored') and x.endswith('.name'))) or 'object') if named else 'spread'
        inst = '%s/%s' % (short(fn.path), sig)
        if named:
            if 'StoredField.deprecation' in TM.fields_in(d):
                obs.append(ok('DEPR-ORIGIN', inst, 'deprecation = the selected schema field\'s deprecation', node.get('sp', '')))
            else:
                obs.append(bad('DEPR-ORIGIN', inst, 'a named field is built with deprecation = %s' % P.show(d, 0, 2)[:50], node.get('sp', ''),
                               'deprecated fields of this kind are neither marked (warn) nor omitted (deny)'))
        else:
            if d[0] == 'none':
                obs.append(ok('DEPR-ORIGIN', inst, 'spread fields are never deprecated', node.get('sp', '')))
            else:
                obs.append(bad('DEPR-ORIGIN', inst, 'a fragment-spread field carries a deprecation', node.get('sp', ''), 'non-deprecated positions are marked / omitted'))
    # ALIAS-KEY: the JSON key (graphql_name) and the Rust field name of every named field derive from the same
    # `alias.unwrap_or(schema name)`: the server answers under the alias when there is one
    for fn, node in ctx.prog.aggregates_norm.get('graphql_client_codegen::codegen::selection::ExpandedField', []):
        f = {x['name']: x['e'] for x in node['fields']}
        if 'graphql_name' not in f or 'rust_name' not in f:
            continue
        senv = H.sym_env(fn)
        g = ctx.pv.eval(fn, f['graphql_name'], senv, 0)
        if g[0] == 'none':
            continue
        r_ = ctx.pv.eval(fn, f['rust_name'], senv, 0)
        ty = ctx.pv.eval(fn, f['field_type'], senv, 0) if 'field_type' in f else ('unit',)
        sig = 'named[%s]' % ('+'.join(sorted(x for x in TM.fields_in(ty) if x.startswith('Stored') and x.endswith('.name'))) or 'object')
        inst = '%s/%s' % (short(fn.path), sig)
        g0 = TM.strip_bases(g)
        want_shape = g0[0] == 'orelse' and 'SelectedField.alias' in TM.fields_in(g0[1]) and 'StoredField.name' in TM.fields_in(g0[2]) and not TM.consts_in(g0)
        same = any(TM.strip_bases(s_) == g0 for s_ in P.subterms(r_))
        xf_g = {x for _, xs in TM.paths(g) for x in xs}
        if want_shape and same and not xf_g:
            obs.append(ok('ALIAS-KEY', inst, 'JSON key = alias, or the schema field name when there is no alias; the Rust name derives from the same value', node.get('sp', '')))
        else:
            obs.append(bad('ALIAS-KEY', inst, 'the JSON key of this field is %s (Rust name from %s)' % (P.show(g, 0, 4)[:90], P.show(r_, 0, 4)[:70]), node.get('sp', ''),
                           'an aliased field of this kind is read from the wrong key: missing field / silently None'))
    if sum(1 for o in obs if o.rule == 'ALIAS-KEY') < 1:
        obs.append(bad('ALIAS-KEY', 'floor', 'anchor-missing: no named-field construction of ExpandedField found'))
    named_n = sum(1 for o in obs if '/named[' in o.instance and o.rule == 'DEPR-ORIGIN')
    spread_n = sum(1 for o in obs if o.instance.endswith('/spread') and o.rule == 'DEPR-ORIGIN')
    if named_n < 1 or spread_n < 1:
        obs.append(bad('DEPR-ORIGIN', 'floor', 'anchor-missing: expected a named-field and a spread-field construction of ExpandedField, found %d/%d' % (named_n, spread_n)))
    return obs


@rule('SCAN-GUARD', 'VALUE-PARSE')
def rule_attr_scanner(ctx):
    obs = []
    for name, needs_value in (('extract_attr', True), ('extract_attr_list', True), ('ident_exists', False)):
        fn = ctx.fn('derive', 'graphql_query_derive::attributes::' + name)
        if fn is None:
            obs.append(bad('SCAN-GUARD', 'floor/' + name, 'anchor-missing: attributes::%s not found' % name))
            continue
        senv = H.sym_env(fn)
        # token-consuming next() calls other than loop heads
        nexts = [n for n in walk(fn.body) if n['k'] == 'mcall' and n['method'] == 'next']
        heads = set()
        for lp in fn.walk(lambda x: x['k'] == 'loop'):
            # `while let Some(x) = it.next()`: the next() in the loop's first statement / scrutinee
            first = None
            for n in walk(lp['body']):
                if n['k'] in ('match', 'if'):
                    first = n
                    break
            # conservative: the textually first next() inside the loop is the head
            cands = [n for n in walk(lp['body']) if n['k'] == 'mcall' and n['method'] == 'next']
            if cands:
                cands.sort(key=lambda n: tuple(int(x) for x in n['id'].split('.')))
                heads.add(id(cands[0]))
        consumed = [n for n in nexts if id(n) not in heads]
        badn = []
        for n in consumed:
            guarded = False
            for pc in P.path_conds(fn, n):
                if pc[0] != 'if':
                    continue
                cc_ = P.canon_if(ctx.pv.eval(fn, pc[1], senv, 0), pc[2])
                if cc_[2]:
                    t = cc_[1]
                    for s in P.subterms(t):
                        if s[0] == 'op' and s[1] == '==' and any(x[0] == 'param' for x in s[2]):
                            guarded = True
                        if s[0] == 'call' and any(x[0] == 'param' for x in s[2]):
                            # a named predicate `is_ident_named(token, key)`: it must compare its arguments for equality
                            for pf in ctx.pv.fn_by_path.get(s[1], []):
                                pt = ctx.pv.eval(pf, pf.body, H.sym_env(pf), 0)
                                if any(q[0] == 'op' and q[1] == '==' and any(x[0] == 'param' for x in q[2]) for q in P.subterms(pt)):
                                    guarded = True
            if not guarded:
                badn.append(n)
        inst = 'attributes::' + name
        if badn:
            obs.append(bad('SCAN-GUARD', inst, 'tokens are consumed (iter.next()) outside the `ident == key` branch', badn[0].get('sp', ''),
                           'what follows an unrelated identifier (e.g. a bare flag) is swallowed: a key written after it is lost'))
        elif consumed or not needs_value:
            obs.append(ok('SCAN-GUARD', inst, 'extra tokens are consumed only after the requested key matched (%d sites)' % len(consumed), fn.loc))
        else:
            obs.append(undecided('SCAN-GUARD', inst, 'scanner shape not recognised', fn.loc))
        if needs_value:
            # returned / pushed values come from syn::LitStr::value() of the parsed literal
            # every produced value (returned `Ok(v)` / pushed `v`) is syn::LitStr::value() of the parsed literal,
            # possibly obtained in a helper; no string surgery on the way
            XF = {'trim', 'trim_matches', 'trim_start_matches', 'trim_end_matches', 'trim_start', 'trim_end', 'replace', 'replacen',
                  'strip_prefix', 'strip_suffix', 'split', 'to_lowercase', 'to_uppercase', 'to_ascii_lowercase', 'to_ascii_uppercase',
                  'get', 'split_at', 'chars', 'repr'}
            outs = []
            for n in walk(fn.body):
                if n['k'] == 'ret' and n.get('e') is not None:
                    outs.append(n['e'])
                if n['k'] == 'mcall' and n['method'] == 'push' and n['args']:
                    outs.append(n['args'][0])
            tail = fn.body.get('expr')
            if tail is not None:
                outs.append(tail)
            vals = []
            good = True
            xf = set()
            pushes = bool([n for n in walk(fn.body) if n['k'] == 'mcall' and n['method'] == 'push'])
            for o in outs:
                dn = list(H.deep_nodes(ctx, fn, o, 2, None, True))
                vs = [n for _f, n in dn if n['k'] == 'mcall' and n['method'] == 'value' and 'LitStr' in (n['recv'].get('ty', '') + n['recv'].get('aty', ''))]
                vals += vs
                is_err = any(n['k'] in ('call', 'path') and (n.get('callee') or n.get('res') or {}).get('path', '').endswith('::Err') for _f, n in dn if n is o or True) and not vs
                oty = o.get('ty', '')
                produces = ('String' in oty) and not is_err
                if o['k'] == 'call' and (o.get('callee') or {}).get('path', '').endswith('::Err'):
                    produces = False
                if pushes and o['k'] != 'mcall' and 'Vec<' in oty and not vs:
                    # `Ok(result)`: the vector the pushes went into
                    produces = False
                if produces and not vs:
                    good = False
                if vs:
                    xf |= {n['method'] for _f, n in dn if n['k'] == 'mcall' and n['method'] in XF and
                           ('str' in (n['recv'].get('ty', '') + n['recv'].get('aty', '')) or 'String' in (n['recv'].get('ty', '') + n['recv'].get('aty', '')))}
                for _, xs in TM.paths(ctx.pv.eval(fn, o, senv, 0)):
                    xf |= set(xs) & {'trim', 'replace', 'strip', 'split', 'lower', 'upper'}
            if not vals or xf:
                good = False
            if good:
                obs.append(ok('VALUE-PARSE', inst, 'values are the parsed string literal\'s value (syn::LitStr::value)', fn.loc))
            else:
                obs.append(bad('VALUE-PARSE', inst, 'attribute values are not obtained by parsing the literal (transforms %s, LitStr::value sites %d)' % (sorted(xf), len(vals)), fn.loc,
                               'raw strings and escapes in #[graphql(..)] values reach the option altered'))
    return obs


@rule('REP-FRESH')
def rule_rep_fresh(ctx):
    """a collection interpolated into a template that is rendered once per element (inside a loop / iterator closure)
    is rebuilt for every element: it is not a buffer declared outside the loop and appended to inside it"""
    obs = []
    n_sites = 0
    from .rules_hir5 import pat_hids
    for fn in ctx.crate('codegen').all_fns():
        if fn.from_macro or not norm_path(fn.path).startswith('graphql_client_codegen::codegen'):
            continue
        lets = {}
        for st in fn.walk(lambda x: x['k'] == 'let'):
            for h in pat_hids(st['pat']):
                lets[h] = st
        for q in fn.walk(lambda x: x['k'] == 'macro' and x['name'].split('::')[-1] in ('quote', 'quote_spanned')):
            scope = None
            for parent, role, child in fn.ancestors(q):
                if parent.get('k') == 'for' and role == 'body':
                    scope = parent
                    break
                if parent.get('k') == 'closure':
                    pr = fn.parent.get(id(parent))
                    while pr and pr[0] is not None and pr[0].get('k') in ('wrap', 'ref'):
                        pr = fn.parent.get(id(pr[0]))
                    if pr and pr[0] is not None and pr[0].get('k') == 'mcall' and pr[0]['method'] in H.ITER_CONSUMERS:
                        scope = parent
                    break
            if scope is None:
                continue
            inside = {id(x) for x in walk(scope)}
            seen = set()
            for a in q['args']:
                if a.get('how') != 'outer-local' or a['hid'] in seen:
                    continue
                seen.add(a['hid'])
                # follow `let x = &y;` to the collection itself
                h = a['hid']
                hops = 0
                while hops < 4:
                    hops += 1
                    srcs = fn.binds.get(h, [])
                    if len(srcs) == 1 and srcs[0][0] == 'expr':
                        e_ = srcs[0][1]
                        while e_.get('k') in ('ref', 'wrap'):
                            e_ = e_['e']
                        if e_.get('k') == 'path' and e_['res'].get('r') == 'local':
                            h = e_['res']['hid']
                            continue
                    break
                decl = lets.get(h)
                if decl is None or id(decl) in inside:
                    continue
                muts = [s_ for s_ in fn.binds.get(h, []) if s_[0] == 'mut' and id(s_[3]) in inside and s_[1] in ('push', 'extend', 'insert', 'push_str', 'append', 'extend_from_slice')]
                n_sites += 1
                inst = '%s/%s' % (short(fn.path), a.get('name', '?'))
                if muts:
                    obs.append(bad('REP-FRESH', inst, '`%s` is declared outside the per-element closure/loop and appended to (%s) inside it, then interpolated into the per-element template' %
                                   (a.get('name', '?'), sorted({s_[1] for s_ in muts})), q.get('sp', ''),
                                   'from the second element on, the template receives the data of the earlier elements as well (positions no longer line up)'))
                else:
                    obs.append(ok('REP-FRESH', inst, 'outer value read only (not accumulated across elements)', q.get('sp', '')))
    if n_sites < 1:
        obs.append(ok('REP-FRESH', 'none', 'no per-element template interpolates an outer collection', ''))
    return obs


def _iteration_scope(fn, node):
    """innermost enclosing `for` body or iterator-method closure of node (the per-element scope), else None"""
    for parent, role, child in fn.ancestors(node):
        if parent.get('k') == 'for' and role == 'body':
            return parent
        if parent.get('k') == 'closure':
            pr = fn.parent.get(id(parent))
            while pr and pr[0] is not None and pr[0].get('k') in ('wrap', 'ref'):
                pr = fn.parent.get(id(pr[0]))
            if pr and pr[0] is not None and pr[0].get('k') == 'mcall' and pr[0]['method'] in H.ITER_CONSUMERS + ('any', 'all', 'find', 'position', 'filter', 'find_map'):
                return parent
            return None
    return None


@rule('SET-SCOPE')
def rule_set_scope(ctx):
    """a visited set that influences the yes/no answer of a search belongs to ONE search: it is not declared outside
    the loop that runs the searches (a cycle guard reused across searches acts as a wrong memo: "already visited while
    answering another question" is read as "no")"""
    obs = []
    from .rules_hir5 import pat_hids
    n = 0
    cg_ = callgraph(ctx)

    def set_args(call):
        out = []
        for a in ([call['recv']] if call['k'] == 'mcall' else []) + call['args']:
            ty = a.get('ty', '') + a.get('aty', '')
            if ('BTreeSet' in ty or 'HashSet' in ty) and '&mut' in ty.replace(' ', '&mut') or (('BTreeSet' in ty or 'HashSet' in ty) and a.get('k') == 'ref'):
                out.append(a)
        return out

    def root_local(a):
        r = a
        while r.get('k') in ('ref', 'wrap', 'unary'):
            r = r.get('e')
        return r['res']['hid'] if r.get('k') == 'path' and r['res'].get('r') == 'local' else None

    def shared_across(fn, call, hid, depth):
        """is the set `hid` (a local of fn) declared outside the per-element scope that contains `call`?  follows the set
        up through forwarding parameters (depth levels)."""
        scope = _iteration_scope(fn, call)
        srcs = fn.binds.get(hid, [])
        is_param = any(s_[0] == 'param' for s_ in srcs)
        if not is_param:
            if scope is None:
                return False
            decl = None
            for st in fn.walk(lambda x: x['k'] == 'let'):
                if hid in pat_hids(st['pat']):
                    decl = st
            if decl is None:
                return False
            return id(decl) not in {id(x) for x in walk(scope)}
        if scope is not None:
            return True       # a set handed in from outside and used for every element of a loop
        if depth <= 0:
            return False
        pidx = None
        for i, p_ in enumerate(fn.params):
            if hid in pat_hids(p_):
                pidx = i
        for cfn, cnode in ctx.pv.call_sites(fn):
            args = ([cnode['recv']] if cnode['k'] == 'mcall' else []) + cnode['args']
            if pidx is not None and pidx < len(args):
                h2 = root_local(args[pidx])
                if h2 is not None and shared_across(cfn, cnode, h2, depth - 1):
                    return True
        return False

    for fn in ctx.crate('codegen').all_fns():
        if fn.from_macro:
            continue
        for call in H.calls_in(fn):
            lfs = [f for f in ctx.pv.local_fns(call.get('callee')) if not f.from_macro]
            if not lfs or lfs[0].d.get('output', '') != 'bool':
                continue
            callee = lfs[0]
            # the callee consults the set (contains / insert) to decide
            if not any(x['k'] == 'mcall' and x['method'] in ('contains', 'insert') and any(s in (x['recv'].get('ty', '') + x['recv'].get('aty', '')) for s in ('BTreeSet', 'HashSet'))
                       for _f, x in H.deep_nodes(ctx, callee, callee.body, 1)):
                continue
            for a in set_args(call):
                hid = root_local(a)
                if hid is None:
                    continue
                # calls inside the recursion itself (same SCC) pass the set on: only entries into the search count
                if callee.key == fn.key or fn.key in cg_.reachable([callee.key]):
                    continue
                n += 1
                inst = '%s->%s' % (short(fn.path), short(callee.path))
                if shared_across(fn, call, hid, 2):
                    obs.append(bad('SET-SCOPE', inst, 'the set consulted by the search `%s` is declared outside the loop that runs the searches (or handed in from such a place): it is shared between searches' % short(callee.path),
                                   call.get('sp', ''), 'a node visited while answering one question is skipped when answering the next: wrong "no" answers (missing __typename / missing Box)'))
                else:
                    obs.append(ok('SET-SCOPE', inst, 'the set lives for one search', call.get('sp', '')))
    if n < 1:
        obs.append(ok('SET-SCOPE', 'none', 'no boolean search takes a caller-provided set', ''))
    return obs
