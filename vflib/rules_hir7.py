"""Round-4 rules: NAME-AGREE (type names are spelled the same where defined and where referenced), ... """
import re

from . import prov as P
from . import terms as TM
from . import hirx as H
from .core import Ob, ok, bad, undecided, short
from .facts import norm_path

REGISTRY = []


def rule(*ids):
    def deco(fn):
        REGISTRY.append((fn, ids))
        return fn
    return deco


# ------------------------------------------------------------------------------------------------------------------
# NAME-AGREE
# ------------------------------------------------------------------------------------------------------------------
UNK = '\0?'
KINDS = ('StoredScalar', 'StoredEnum', 'StoredInputType')
BUILTIN = ('ID', 'Int', 'Float', 'Boolean', 'String')
# sample schema type names: the built-in one the generator special-cases, an introspection-style name, names that the
# Rust convention changes and one it leaves alone
SAMPLES = ('ID', '__TypeKind', 'dateTime', 'LOUD_NAME', 'snake_name', 'Plain')


def _words(s):
    out = []
    for part in re.split(r'[^A-Za-z0-9]+', s):
        if not part:
            continue
        out += re.findall(r'[A-Z]+(?![a-z])|[A-Z]?[a-z0-9]+|[A-Z]+', part)
    return out


def heck_camel(s):
    return ''.join(w[:1].upper() + w[1:].lower() for w in _words(s))


def heck_lcamel(s):
    c = heck_camel(s)
    ws = _words(s)
    return (ws[0].lower() + c[len(ws[0]):]) if ws else c


def heck_snake(s):
    return '_'.join(w.lower() for w in _words(s))


XF = {'camel': heck_camel, 'lcamel': heck_lcamel, 'snake': heck_snake, 'kw': lambda s: s, 'own': lambda s: s, 'trim': lambda s: s.strip()}


class NameEval:
    """concrete evaluation of an identifier term for one (kind, sample name, normalization) scenario; anything the
    evaluator does not model gives UNK"""

    def __init__(self, kind, sample, norm, choice=None, leaf_any=False):
        self.kind, self.sample, self.norm = kind, sample, norm
        self.choice = choice or {}
        self.memo = {}
        self.leaf_any = leaf_any      # every data leaf (parameter, pattern binding, any record field) stands for the sample

    def ev(self, t, depth=0):
        if depth > 80 or not isinstance(t, tuple) or not t:
            return {UNK}
        hit = self.memo.get(id(t))
        if hit is not None and hit[0] is t:
            return hit[1]
        r = self._ev(t, depth)
        self.memo[id(t)] = (t, r)
        return r

    def _ev(self, t, depth):
        tag = t[0]
        if tag == 'ident':
            return self.ev(t[1], depth + 1)
        if tag == 'const':
            return {t[1]} if isinstance(t[1], str) else {UNK}
        if tag == 'xf':
            f = XF.get(t[1])
            vs = self.ev(t[2], depth + 1)
            if f is None:
                return {UNK} if vs else set()
            return {v if v == UNK else f(v) for v in vs}
        if tag == 'argvar':
            return {self.sample}
        if self.leaf_any and tag in ('param', 'cparam', 'cproj', 'tproj', 'sel', 'unknown'):
            return {self.sample}
        if self.leaf_any and tag == 'field' and not (isinstance(t[3], str) and t[3] == 'normalization'):
            return {self.sample}
        if tag == 'field':
            adt = t[2].split('::')[-1] if isinstance(t[2], str) else ''
            if t[3] == 'name' and adt.startswith('Stored'):
                return {self.sample} if (adt == self.kind or self.kind == '*') else set()
            return {UNK}
        if tag in ('global', 'ctor') and isinstance(t[1], str):
            return {'\0ctor:' + t[1]}
        if tag == 'join':
            if id(t) in self.choice:
                return self.ev(self.choice[id(t)], depth + 1)
            out = set()
            for x in t[1]:
                out |= self.ev(x, depth + 1)
            return out
        if tag == 'if':
            c = self.cond(t[1], depth + 1)
            out = set()
            if True in c or UNK in c:
                out |= self.ev(t[2], depth + 1)
            if False in c or UNK in c:
                out |= self.ev(t[3], depth + 1)
            return out
        if tag == 'match':
            scrut = t[1]
            if (scrut[0] == 'field' and scrut[3] == 'normalization') or any(p_[0] == 'ctor' and '::Normalization::' in p_[1] for p_, a_ in t[2]):
                out = set()
                hit = False
                for pat, arm in t[2]:
                    if pat[0] == 'ctor':
                        if pat[1].split('::')[-1] == self.norm:
                            return self.ev(arm, depth + 1)
                        continue
                    if pat[0] in ('wild', 'bind'):
                        return self.ev(arm, depth + 1)
                    hit = True
                    out |= self.ev(arm, depth + 1)
                return out if hit else {UNK}
            out = set()
            for pat, arm in t[2]:
                out |= self.ev(arm, depth + 1)
            return out
        if tag in ('early', 'orelse'):
            out = set()
            for x in t[1:]:
                if isinstance(x, tuple):
                    out |= self.ev(x, depth + 1)
            return out
        if tag in ('diverge', 'rec', 'absent', 'none'):
            return set()
        if tag == 'fmt':
            # a composite identifier (`{}On`, prefix + field name ..) is a name of its own, not a schema type name
            if t[1] in ('{}',) and len(t[2]) == 1:
                return self.ev(t[2][0], depth + 1)
            return set()
        return {UNK}

    def pat_test(self, value, pat, depth):
        if pat[0] in ('wild', 'bind'):
            return {True}
        if pat[0] == 'or':
            rs = [self.pat_test(value, p_, depth + 1) for p_ in pat[1]]
            if any(True in r for r in rs) and not any(UNK in r or False in r for r in rs if True in r):
                return {True}
            if all(r == {False} for r in rs):
                return {False}
            return {UNK}
        if pat[0] == 'ctor' and not pat[2]:
            if '::Normalization::' in pat[1]:
                return {pat[1].split('::')[-1] == self.norm}
            vs = self.ev(value, depth + 1)
            if vs and all(isinstance(v, str) and v.startswith('\0ctor:') for v in vs):
                return {v[len('\0ctor:'):] == pat[1] for v in vs}
        if pat[0] == 'lit':
            vs = self.ev(value, depth + 1)
            if vs and UNK not in vs and not any(v.startswith('\0ctor:') for v in vs):
                return {v == pat[1] for v in vs}
        return {UNK}

    def cond(self, c, depth):
        if not isinstance(c, tuple) or not c:
            return {UNK}
        if c[0] == 'op':
            op, args = c[1], c[2]
            if op in ('==', '!=') and len(args) == 2:
                a, b = self.ev(args[0], depth + 1), self.ev(args[1], depth + 1)
                if not a or not b:
                    return set()
                if UNK in a or UNK in b:
                    return {UNK}
                r = {(x == y) for x in a for y in b}
                return r if op == '==' else {not x for x in r}
            if op in ('starts_with', 'ends_with', 'contains') and len(args) == 2:
                a, b = self.ev(args[0], depth + 1), self.ev(args[1], depth + 1)
                if not a or not b:
                    return set()
                if UNK in a or UNK in b:
                    return {UNK}
                f = {'starts_with': str.startswith, 'ends_with': str.endswith, 'contains': str.__contains__}[op]
                return {f(x, y) for x in a for y in b}
            if op == 'matches' and len(args) == 2 and args[1][0] == 'pat':
                return self.pat_test(args[0], args[1][1], depth + 1)
            if op == '!' and len(args) == 1:
                return {(not x) if x != UNK else UNK for x in self.cond(args[0], depth + 1)}
            if op in ('||', '&&'):
                parts = [self.cond(a, depth + 1) for a in args]
                parts = [p for p in parts if p]
                if not parts:
                    return set()
                out = set()

                def rec(i, acc):
                    if i == len(parts):
                        out.add(acc)
                        return
                    for v in parts[i]:
                        if v == UNK:
                            rec(i + 1, UNK if acc != (op == '||') else acc)
                        elif op == '||':
                            rec(i + 1, True if (v or acc is True) else acc)
                        else:
                            rec(i + 1, False if ((not v) or acc is False) else acc)
                rec(0, op == '&&')
                return out
        return {UNK}


_INFO = {}


def _term_info(term):
    """(outermost name join or None, ids of all join objects equal to it), computed once per term object"""
    hit = _INFO.get(id(term))
    if hit is not None and hit[0] is term:
        return hit[1]
    top = None
    ids = set()
    seen = set()
    st = [term]
    # breadth-first so that the first join met is an outermost one
    while st:
        nxt = []
        for x in st:
            if not isinstance(x, tuple) or id(x) in seen:
                continue
            seen.add(id(x))
            if x and x[0] == 'join' and top is None and _kinds_in(x):
                top = x
            if x and x[0] == 'join':
                nxt.extend(x[1])
            else:
                nxt.extend(y for y in x if isinstance(y, tuple))
        st = nxt
    if top is not None:
        st = [term]
        seen = set()
        while st:
            x = st.pop()
            if not isinstance(x, tuple) or id(x) in seen:
                continue
            seen.add(id(x))
            if x and x[0] == 'join':
                if x is top or (len(x[1]) == len(top[1]) and x == top):
                    ids.add(id(x))
                st.extend(x[1])
            else:
                st.extend(y for y in x if isinstance(y, tuple))
    _INFO[id(term)] = (term, (top, ids))
    return top, ids


def spellings(term, kind, sample, norm):
    """set of spellings, evaluated once per consistent choice of the outermost name join (the same join value occurs at
    every use of one local, so its alternatives are chosen consistently)"""
    top, ids = _term_info(term)
    if top is None:
        return NameEval(kind, sample, norm).ev(term)
    out = set()
    for alt in top[1]:
        if kind not in _kinds_in(alt):
            continue
        out |= NameEval(kind, sample, norm, {i: alt for i in ids}).ev(term)
    return out


def _grammar_leaves(seq, out):
    for el in seq or []:
        t = el.get('t')
        if t == 'leaf':
            out.append(el)
        elif t == 'group':
            _grammar_leaves(el['seq'], out)
        elif t == 'choice':
            for c, a in el['alts']:
                _grammar_leaves(a, out)
        elif t == 'rep':
            _grammar_leaves(el['seq'], out)


_KINDS_MEMO = {}


def _kinds_in(term):
    hit = _KINDS_MEMO.get(id(term))
    if hit is not None and hit[0] is term:
        return hit[1]
    ks = _kinds_in0(term)
    _KINDS_MEMO[id(term)] = (term, ks)
    return ks


def _kinds_in0(term):
    ks = set()
    for s in P.subterms(term):
        if isinstance(s, tuple) and s and s[0] == 'field' and s[3] == 'name' and isinstance(s[2], str):
            a = s[2].split('::')[-1]
            if a.startswith('Stored'):
                ks.add(a)
    return ks


@rule('NAME-AGREE')
def rule_name_agree(ctx):
    """Every identifier of the generated module that spells a schema type name (scalar, enum, input object) is spelled
    the same way where the type is defined (`type X = ..`, `enum X`, `struct X`) and where it is referenced (field types,
    variant payloads, impl headers), under both normalizations, for built-in names (`ID`: defined by the literal alias
    in the preamble), names with leading underscores and names the Rust convention rewrites.  Decided by evaluating the
    provenance term of each such identifier on sample names (keyword escaping is ignored)."""
    obs = []
    items, ip, trees, roots = ctx.grammar()
    allitems = list(ctx.all_items())
    defs = {}       # kind -> [(term, site)]
    def_ids = set()
    literal_types = set()
    for it in allitems:
        if it.kind not in ('struct', 'enum', 'type'):
            continue
        nm = it.name
        if not isinstance(nm, dict):
            continue
        def_ids.add(id(nm))
        if nm.get('t') == 'tok':
            if it.kind == 'type':
                literal_types.add(nm.get('s'))
            continue
        term = nm.get('term')
        if term is None:
            continue
        ks = _kinds_in(term)
        ks = ks & set(KINDS)
        if len(ks) == 1:
            defs.setdefault(next(iter(ks)), []).append((term, nm.get('site') or it.site))
    # binder positions (field names, variant names) are not references to a type
    for it in allitems:
        for f in it.fields:
            if isinstance(f.name, dict):
                def_ids.add(id(f.name))
        for v in it.variants:
            if isinstance(v.name, dict):
                def_ids.add(id(v.name))
    leaves = []
    for tr in trees:
        _grammar_leaves(tr, leaves)
    refs = []
    for el in leaves:
        if id(el) in def_ids or el.get('kind') != 'ident' or el.get('term') is None:
            continue
        ks = _kinds_in(el['term']) & set(KINDS)
        if ks:
            refs.append((el, ks))
    # floors (fail closed)
    for k in KINDS:
        if not defs.get(k):
            obs.append(bad('NAME-AGREE', 'floor/definition/' + k, 'no definition site spelling a %s name was found in the module grammar' % k, '', 'checker lost its anchor'))
    per_kind = {k: sum(1 for el, ks in refs if k in ks) for k in KINDS}
    for k, n in per_kind.items():
        if n < 1:
            obs.append(bad('NAME-AGREE', 'floor/reference/' + k, 'no reference site spelling a %s name was found' % k, '', 'checker lost its anchor'))
    if 'ID' not in literal_types:
        obs.append(bad('NAME-AGREE', 'floor/alias-ID', 'the literal alias `type ID = ..` is no longer in the preamble', '', 'ID fields do not type-check'))
    if any(o.status == 'violated' for o in obs):
        return obs

    def def_spelling(kind, sample, norm):
        if kind == 'StoredScalar' and sample in BUILTIN:
            return {sample} if sample in literal_types or sample == 'String' else {UNK}
        out = set()
        for term, site in defs[kind]:
            out |= spellings(term, kind, sample, norm)
        return out

    seen = set()
    nchecked = 0
    for el, ks in refs:
        fn = ctx.site_fn(el['site']) if el.get('site') else None
        where = short(fn.path) if fn is not None else '?'
        for kind in sorted(ks & set(KINDS)):
            samples = SAMPLES + (BUILTIN if kind == 'StoredScalar' else ())
            verdict = None
            evaluated = False
            for sample in samples:
                if sample in BUILTIN and kind != 'StoredScalar':
                    continue
                for norm in ('None', 'Rust'):
                    want = def_spelling(kind, sample, norm)
                    got = spellings(el['term'], kind, sample, norm)
                    if not got:
                        continue
                    evaluated = True
                    if UNK in want or UNK in got:
                        verdict = verdict or ('undecided', sample, norm, want, got)
                        continue
                    if not (got & want):
                        verdict = ('bad', sample, norm, want, got)
                        break
                    if not (got >= want):
                        verdict = verdict or ('undecided', sample, norm, want, got)
                if verdict and verdict[0] == 'bad':
                    break
            if not evaluated:
                continue    # composite identifier (`{}On` ..): not the name of a schema type
            inst = '%s/%s' % (where, kind)
            if (inst, verdict and verdict[0]) in seen:
                continue
            seen.add((inst, verdict and verdict[0]))
            nchecked += 1
            loc = ctx.site_loc(el['site']) if el.get('site') else ''
            if verdict is None:
                obs.append(ok('NAME-AGREE', inst, 'references spell %s names exactly as their definitions do (samples %s, both normalizations)' % (kind, ','.join(samples)), loc))
            elif verdict[0] == 'bad':
                _, sample, norm, want, got = verdict
                obs.append(bad('NAME-AGREE', inst, 'for the schema type `%s` under normalization=%s the reference is spelled %s but the definition is %s'
                               % (sample, norm, sorted(got), sorted(want)), loc, 'the generated module mentions a type it does not define (E0412)'))
            else:
                _, sample, norm, want, got = verdict
                obs.append(undecided('NAME-AGREE', inst, 'spelling not evaluable for `%s`/%s: %s vs %s' % (sample, norm, sorted(got), sorted(want)), loc))
    # (B) names carried in generator-side records (ExpandedField.field_type ..): the grammar sees the join of every
    # value stored in the record field, so each struct-literal site is evaluated on its own, where the term is exact
    ncarried = 0
    for adt, sites in sorted(ctx.prog.aggregates_norm.items()):
        for fn, node in sites:
            if not fn.key.startswith('codegen::') or fn.from_macro:
                continue
            senv = None
            for fld in node.get('fields', []):
                if 'e' not in fld:
                    continue
                fty = fld['e'].get('ty', '')
                if not any(x in fty for x in ('Cow<', 'String', 'str')):
                    continue
                if senv is None:
                    senv = H.sym_env(fn)
                try:
                    term = ctx.pv.eval(fn, fld['e'], senv, 0)
                except Exception:
                    continue
                allk = _kinds_in(term)
                ks = allk & set(KINDS)
                if not ks or allk - set(KINDS):
                    # a name taken through the kind-agnostic `TypeId::name` (objects, interfaces, unions too) is the name
                    # of whatever the id denotes (a variant label ..), not a reference this rule can attribute to a kind
                    continue
                for kind in sorted(ks):
                    verdict = None
                    evaluated = False
                    for sample in SAMPLES + (BUILTIN if kind == 'StoredScalar' else ()):
                        if sample in BUILTIN and kind != 'StoredScalar':
                            continue
                        for norm in ('None', 'Rust'):
                            got = spellings(term, kind, sample, norm)
                            if not got:
                                continue
                            evaluated = True
                            want = def_spelling(kind, sample, norm)
                            if UNK in got or UNK in want:
                                verdict = verdict or ('undecided', sample, norm, want, got)
                            elif got != want:
                                verdict = ('bad', sample, norm, want, got)
                                break
                        if verdict and verdict[0] == 'bad':
                            break
                    if not evaluated:
                        continue
                    ncarried += 1
                    inst = 'carried/%s.%s@%s/%s' % (adt.split('::')[-1], fld['name'], short(fn.path), kind)
                    loc = fld['e'].get('sp', fn.loc)
                    if verdict is None:
                        obs.append(ok('NAME-AGREE', inst, 'the stored name is spelled as the %s definition spells it' % kind, loc))
                    elif verdict[0] == 'bad':
                        _, sample, norm, want, got = verdict
                        obs.append(bad('NAME-AGREE', inst, 'for the schema type `%s` under normalization=%s the stored reference is spelled %s but the definition is %s'
                                       % (sample, norm, sorted(got), sorted(want)), loc, 'the generated module mentions a type it does not define (E0412)'))
                    else:
                        _, sample, norm, want, got = verdict
                        obs.append(undecided('NAME-AGREE', inst, 'spelling not evaluable for `%s`/%s: %s vs %s' % (sample, norm, sorted(got), sorted(want)), loc))
    if ncarried < 2:
        # the records are filled through a helper / closure: only the (join-imprecise) grammar reading above decides them
        obs.append(undecided('NAME-AGREE', 'carried', 'fewer than 2 record sites carrying a scalar/enum type name were found (%d): response-field references are decided on the joined grammar terms only' % ncarried, ''))
    obs.append(ok('NAME-AGREE', 'coverage', '%d definition sites, %d reference identifiers, %d (site, kind) pairs and %d carried record sites evaluated' % (sum(len(v) for v in defs.values()), len(refs), nchecked, ncarried), ''))
    return obs


# ------------------------------------------------------------------------------------------------------------------
# DEFAULT-LITERAL
# ------------------------------------------------------------------------------------------------------------------
def _value_matches(ctx):
    """(fn, match node) for matches over the query-document value type (graphql_parser's `Value`)"""
    out = []
    for fn in ctx.crate('codegen').all_fns():
        if fn.from_macro:
            continue
        for m in fn.walk(lambda x: x['k'] == 'match'):
            pats = [a['pat'] for a in m.get('arms', [])]
            n = 0
            for p in pats:
                while p.get('k') in ('ref', 'guard') and 'pat' in p:
                    p = p['pat']
                path = (p.get('res') or {}).get('path', '') if isinstance(p.get('res'), dict) else ''
                if 'graphql_parser' in path and '::Value::' in path:
                    n += 1
            if n >= 4:
                out.append((fn, m))
    return out


def _toks(seq, out):
    for el in seq or []:
        t = el.get('t')
        if t in ('tok', 'leaf'):
            out.append(el)
        elif t == 'group':
            out.append({'t': 'tok', 's': el.get('d', '(')})
            _toks(el['seq'], out)
        elif t == 'choice':
            for c, a in el['alts']:
                _toks(a, out)
        elif t == 'rep':
            _toks(el['seq'], out)


@rule('DEFAULT-LITERAL')
def rule_default_literal(ctx):
    """A variable's default value is rendered as a Rust expression of the variable's type.  Where the renderer matches
    on the document value, the enum-value arm has to produce a path `<generated enum>::<variant>` (an identifier that
    spells a StoredEnum name, `::`, an identifier): a bare string literal there is a `&str` where the generated enum is
    expected (E0308).  (The object arm's constructor is decided by NAME-AGREE.)"""
    obs = []
    ms = _value_matches(ctx)
    if not ms:
        return [bad('DEFAULT-LITERAL', 'floor', 'anchor-missing: no match over the query-document value type renders default values', '', 'checker lost its anchor')]
    found = 0
    for fn, m in ms:
        senv = H.sym_env(fn)
        for a in m['arms']:
            p = a['pat']
            while p.get('k') in ('ref', 'guard') and 'pat' in p:
                p = p['pat']
            path = (p.get('res') or {}).get('path', '') if isinstance(p.get('res'), dict) else ''
            if not path.endswith('::Enum'):
                continue
            found += 1
            inst = '%s/Enum' % short(fn.path)
            loc = a['body'].get('sp', fn.loc)
            try:
                term = ctx.pv.eval(fn, a['body'], dict(senv), 0)
            except Exception as e:   # fail closed
                obs.append(bad('DEFAULT-LITERAL', inst, 'arm not evaluable: %r' % (e,), loc, 'checker lost its anchor'))
                continue
            tm = [l for c, l in P.leaves(term) if isinstance(l, tuple) and l and l[0] == 'tmpl']
            if not tm:
                obs.append(bad('DEFAULT-LITERAL', inst, 'the enum-value arm yields no template (%s)' % P.show(term, 0, 3)[:120], loc, 'default enum values do not type-check'))
                continue
            problems = []
            good = 0
            for l in tm:
                toks = []
                _toks(ctx.ex.expand(l[1], l[2]), toks)
                text = [t.get('s') if t.get('t') == 'tok' else '#' for t in toks]
                if 'compile_error' in text:
                    continue
                okp = False
                for i, t in enumerate(toks):
                    if t.get('t') == 'leaf' and t.get('kind') == 'ident' and t.get('term') is not None and 'StoredEnum' in _kinds_in(t['term']):
                        if i + 2 < len(toks) and toks[i + 1].get('s') == '::' and toks[i + 2].get('t') == 'leaf' and toks[i + 2].get('kind') == 'ident':
                            okp = True
                if okp:
                    good += 1
                else:
                    problems.append(' '.join(str(x) for x in text)[:80])
            # the variant identifier is spelled like the variants of the generated enum (same normalizer, same escape)
            if not problems and good:
                def_terms = []
                for it_ in ctx.all_items():
                    if it_.kind != 'enum':
                        continue
                    for v_ in it_.variants:
                        if isinstance(v_.name, dict) and v_.name.get('term') is not None and 'StoredEnum.variants' in TM.fields_in(v_.name['term']):
                            def_terms.append(v_.name['term'])
                ref_terms = []
                for l in tm:
                    toks = []
                    _toks(ctx.ex.expand(l[1], l[2]), toks)
                    for i, t_ in enumerate(toks):
                        if i >= 2 and toks[i - 1].get('s') == '::' and t_.get('t') == 'leaf' and t_.get('kind') == 'ident' and t_.get('term') is not None \
                                and toks[i - 2].get('t') == 'leaf' and 'StoredEnum' in _kinds_in(toks[i - 2].get('term') or ()):
                            ref_terms.append(t_['term'])
                mism = None
                if def_terms and ref_terms:
                    for sample in ('ID', '__typeKind', 'fooBar', 'LOUD_NAME', 'snake_name', 'Plain'):
                        for norm in ('None', 'Rust'):
                            want = set()
                            for dt in def_terms[:1]:
                                want |= NameEval('*', sample, norm, leaf_any=True).ev(dt)
                            got = set()
                            for rt in ref_terms:
                                got |= NameEval('*', sample, norm, leaf_any=True).ev(rt)
                            if UNK in want or UNK in got or not want or not got:
                                continue
                            if not (got & want):
                                mism = (sample, norm, sorted(got), sorted(want))
                                break
                        if mism:
                            break
                if mism:
                    obs.append(bad('DEFAULT-LITERAL', inst + '/variant', 'for the enum value `%s` under normalization=%s the default literal names the variant %s but the enum defines %s' % mism, loc,
                                   'the default_<var>() constructor names a variant the generated enum does not have (E0599)'))
                elif def_terms and ref_terms:
                    obs.append(ok('DEFAULT-LITERAL', inst + '/variant', 'the variant identifier is spelled like the variants of the generated enum (sample values, both normalizations)', loc))
            if problems or not good:
                obs.append(bad('DEFAULT-LITERAL', inst, 'an enum default value is rendered as `%s`, not as a path into the generated enum' % (problems[0] if problems else '?'), loc,
                               'the default_<var>() constructor does not type-check (E0308)'))
            else:
                obs.append(ok('DEFAULT-LITERAL', inst, 'enum default values are rendered as `<generated enum>::<variant>` (%d template(s))' % good, loc))
    if not found:
        obs.append(bad('DEFAULT-LITERAL', 'floor/Enum', 'the value renderer has no enum-value arm', '', 'checker lost its anchor'))
    # --- list elements, object literals (@oneOf inputs are enums; cycle-closing members are boxed)
    from .rules_hir import callgraph
    cgr = callgraph(ctx)
    for fn, m in ms:
        # the functions the renderer is made of: the matching function and the workspace functions its arms call
        fam = [fn]
        for k_ in sorted(cgr.reachable([fn.key])):
            f_ = ctx.fn_by_key(k_)
            if f_ is not None and f_ not in fam and not f_.from_macro and norm_path(f_.path).startswith('graphql_client_codegen::codegen') \
                    and any(n_['k'] == 'macro' and n_['name'].split('::')[-1] == 'quote' for n_ in H.walk(f_.body)) and fn.key in cgr.reachable([f_.key]):
                fam.append(f_)     # mutually recursive with the value renderer: the object-literal renderer
        for a in m['arms']:
            p = a['pat']
            while p.get('k') in ('ref', 'guard') and 'pat' in p:
                p = p['pat']
            path = (p.get('res') or {}).get('path', '') if isinstance(p.get('res'), dict) else ''
            if path.endswith('::Int'):
                # an integer literal is also a valid Float and a valid ID: the arm has to look at the expected type
                inst = '%s/Int' % short(fn.path)
                try:
                    t_ = ctx.pv.eval(fn, a['body'], H.sym_env(fn), 0)
                except Exception:
                    t_ = None
                if t_ is None:
                    obs.append(undecided('DEFAULT-LITERAL', inst, 'arm not evaluable', a['body'].get('sp', fn.loc)))
                else:
                    consts_ = {c_ for c_ in TM.consts_in(t_) if isinstance(c_, str)}
                    reads_ty = 'StoredScalar.name' in TM.fields_in(t_) or any(x_.get('k') == 'lit' and x_['lit'].get('v') in ('Float', 'ID') for _f, x_ in H.deep_nodes(ctx, fn, a['body'], 1))
                    lits_ = {x_['lit'].get('v') for _f, x_ in H.deep_nodes(ctx, fn, a['body'], 1) if x_.get('k') == 'lit'}
                    # .. also as literal patterns (`match scalar_name { Some("Float") => .. }`)
                    for _f, x_ in H.deep_nodes(ctx, fn, a['body'], 1):
                        if x_.get('k') == 'match':
                            for arm_ in x_.get('arms', []):
                                rp_ = repr(P.pat_summary(arm_['pat']))
                                for nm_ in ('Float', 'ID'):
                                    if "'%s'" % nm_ in rp_:
                                        lits_.add(nm_)
                                        reads_ty = reads_ty or 'StoredScalar.name' in TM.fields_in(t_) or True
                    if {'Float', 'ID'} <= (consts_ | lits_) and reads_ty:
                        obs.append(ok('DEFAULT-LITERAL', inst, 'an integer literal is rendered by the expected scalar: f64 for Float, decimal string for ID, i64 otherwise', a['body'].get('sp', fn.loc)))
                    else:
                        obs.append(bad('DEFAULT-LITERAL', inst, 'an integer default value is rendered as an i64 literal whatever scalar is expected (Float / ID not distinguished)', a['body'].get('sp', fn.loc),
                                       '`$f: Float = 1` / `$id: ID = 7` do not type-check (E0308)'))
            if path.endswith('::List'):
                inst = '%s/List' % short(fn.path)
                consts = []
                nrec = 0
                for f_, c in H.deep_nodes(ctx, fn, a['body'], 1):
                    if c['k'] in ('call', 'mcall') and any(lf_.key == fn.key for lf_ in ctx.pv.local_fns(c.get('callee')) or []):
                        nrec += 1
                        for arg in c.get('args', []):
                            x = arg
                            while x.get('k') in ('wrap', 'ref'):
                                x = x['e']
                            if x.get('k') == 'lit' and isinstance(x['lit'].get('v'), bool):
                                consts.append(x['lit']['v'])
                if consts:
                    obs.append(bad('DEFAULT-LITERAL', inst, 'the elements of a list default value are rendered with a constant optionality (%s) instead of the element type of the list' % consts[0], a['body'].get('sp', fn.loc),
                                   '`[Int]` (Vec<Option<i64>>) gets `vec![1, 2]` (E0308)'))
                elif nrec:
                    obs.append(ok('DEFAULT-LITERAL', inst, 'list elements are rendered from the element type (%d recursive call(s), no constant flag)' % nrec, a['body'].get('sp', fn.loc)))
                else:
                    obs.append(undecided('DEFAULT-LITERAL', inst, 'the list arm does not call the value renderer for its elements in a recognised way', a['body'].get('sp', fn.loc)))
        objf = [f_ for f_ in fam if f_ is not fn]
        if not objf:
            obs.append(undecided('DEFAULT-LITERAL', '%s/Object' % short(fn.path), 'no separate object-literal renderer found', fn.loc))
            continue
        texts = []
        reads_one_of = False
        callees = set()
        for f_ in objf:
            for n_ in H.walk(f_.body):
                if n_['k'] == 'macro' and n_['name'].split('::')[-1] == 'quote':
                    texts.append(re.sub(r'\s+', ' ', n_.get('text', '')))
                if n_['k'] == 'field' and n_.get('name') == 'is_one_of' and 'StoredInputType' in n_.get('adt', ''):
                    reads_one_of = True
                if n_['k'] in ('call', 'mcall'):
                    for lf_ in ctx.pv.local_fns(n_.get('callee')) or []:
                        callees.add(lf_.key)
        inst = '%s/oneOf' % short(objf[0].path)
        variant_form = any(re.search(r'#\w+ ?:: ?#\w+ ?\(', t_) for t_ in texts)
        if reads_one_of and variant_form:
            obs.append(ok('DEFAULT-LITERAL', inst, 'a @oneOf input (generated as an enum) gets `<Enum>::<Variant>(value)`, chosen on StoredInputType.is_one_of', objf[0].loc))
        else:
            obs.append(bad('DEFAULT-LITERAL', inst, 'object literals are always struct literals (is_one_of read: %s, variant form: %s) although @oneOf inputs are generated as enums' % (reads_one_of, variant_form), objf[0].loc,
                           'a default value for a @oneOf input does not compile (E0574)'))
        # the members boxed in the type definition are boxed in the literal: same predicate
        gen = ctx.fn('codegen', 'codegen::inputs::generate_struct')
        preds = set()

        def recursion_predicates(f0):
            """bool functions over (InputId, &Schema) reachable from f0 within two calls: the input-recursion test"""
            out = set()
            for f1, n_ in H.deep_nodes(ctx, f0, f0.body, 2):
                if n_['k'] in ('call', 'mcall'):
                    for lf_ in ctx.pv.local_fns(n_.get('callee')) or []:
                        ptys = ' '.join(p_.get('ty', '') for p_ in lf_.params)
                        if lf_.d.get('output', '') == 'bool' and 'InputId' in ptys and 'Schema' in ptys:
                            out.add(lf_.key)
            return out
        if gen is not None:
            preds = recursion_predicates(gen)
        for f_ in objf:
            callees |= recursion_predicates(f_)
        inst = '%s/boxed' % short(objf[0].path)
        if not preds:
            obs.append(undecided('DEFAULT-LITERAL', inst, 'the recursion predicate of the input struct definition was not found', objf[0].loc))
        elif (preds & callees) and any('Box :: new' in t_ or 'Box::new' in t_ for t_ in texts):
            obs.append(ok('DEFAULT-LITERAL', inst, 'members are wrapped in Box::new under the predicate the type definition uses', objf[0].loc))
        else:
            obs.append(bad('DEFAULT-LITERAL', inst, 'the object-literal renderer never boxes a member (predicate called: %s) although the type definition boxes cycle-closing members' % bool(preds & callees), objf[0].loc,
                           'a default value for a recursive input type does not compile (E0308)'))
    return obs


# ------------------------------------------------------------------------------------------------------------------
# STORE-TOTAL
# ------------------------------------------------------------------------------------------------------------------
TYPE_VECS = ('stored_objects', 'stored_interfaces', 'stored_unions', 'stored_enums', 'stored_inputs', 'stored_scalars')


def _pos(n):
    m = re.search(r':(\d+):(\d+)', n.get('sp', ''))
    return (int(m.group(1)), int(m.group(2))) if m else (0, 0)


def _direct_store(n):
    """name of the Schema vector a `x.stored_K.push(..)` node appends to"""
    if n.get('k') == 'mcall' and n.get('method') == 'push':
        r = n.get('recv') or {}
        while r.get('k') in ('ref', 'wrap'):
            r = r['e']
        if r.get('k') == 'field' and r.get('adt', '').endswith('schema::Schema') and r.get('name', '').startswith('stored_'):
            return r['name']
    return None


@rule('STORE-TOTAL')
def rule_store_total(ctx):
    """Type ids are positions: a front end numbers the definitions of one kind in a first pass (`names[..] = TypeId::enum(idx)`)
    and appends the stored records in a second one, so every definition handed to a per-definition ingest function must
    append exactly one record, on every path (no early return, no conditional push); likewise every field of a definition
    appends its own stored field and it is that id which enters the definition's field list."""
    obs = []
    cg = ctx.crate('codegen')
    # Schema methods that append unconditionally to one stored vector
    pushers = {}
    for fn in cg.all_fns():
        if fn.from_macro or '::schema::Schema::' not in norm_path(fn.path) and not norm_path(fn.path).startswith('graphql_client_codegen::schema::Schema::'):
            continue
        for n in fn.walk(lambda x: x['k'] == 'mcall'):
            v = _direct_store(n)
            if v and not [c for c in H.conditional_context(fn, n)]:
                pushers[fn.key] = v
        # `push_indexed(&mut self.stored_x, value)`: the vector is handed to a generic appending helper
        for n in fn.walk(lambda x: x['k'] in ('call', 'mcall')):
            if not ctx.pv.local_fns(n.get('callee')) or H.conditional_context(fn, n):
                continue
            for a in n.get('args', []):
                if a.get('k') == 'ref' and a.get('mut'):
                    r = a['e']
                    while r.get('k') in ('ref', 'wrap'):
                        r = r['e']
                    if r.get('k') == 'field' and r.get('adt', '').endswith('schema::Schema') and r.get('name', '').startswith('stored_'):
                        pushers.setdefault(fn.key, r['name'])
    # .. transitively: a Schema method that unconditionally calls such a method (`push_named_scalar` -> `push_scalar`)
    changed = True
    while changed:
        changed = False
        for fn in cg.all_fns():
            if fn.from_macro or fn.key in pushers or not norm_path(fn.path).startswith('graphql_client_codegen::schema::Schema::'):
                continue
            if norm_path(fn.path).endswith(('Schema::new', 'Schema::push_default_scalars')):
                continue
            for n in fn.walk(lambda x: x['k'] in ('call', 'mcall')):
                if H.conditional_context(fn, n):
                    continue
                for lf_ in ctx.pv.local_fns(n.get('callee')) or []:
                    if lf_.key in pushers and fn.key not in pushers:
                        pushers[fn.key] = pushers[lf_.key]
                        changed = True
    counts = {}
    for fn in cg.all_fns():
        np_ = norm_path(fn.path)
        if fn.from_macro or not np_.startswith('graphql_client_codegen::schema::') or fn.key in pushers or '::Schema::' in np_:
            continue
        fe = np_.split('::')[2] if len(np_.split('::')) > 3 else 'schema'
        for n in fn.walk(lambda x: x['k'] in ('mcall', 'call')):
            vec = _direct_store(n)
            if vec is None:
                lf = ctx.pv.local_fns(n.get('callee')) if n.get('callee') else []
                for f_ in lf or []:
                    if f_.key in pushers:
                        vec = pushers[f_.key]
            if vec is None:
                continue
            cc = H.conditional_context(fn, n)
            kinds = [c[0] for c in cc]
            early = [x for x in fn.walk(lambda x: x['k'] == 'ret') if _pos(x) < _pos(n)]
            inst = '%s/%s' % (short(fn.path), vec)
            loc = n.get('sp', fn.loc)
            if vec in TYPE_VECS:
                counts[(fe, 'types')] = counts.get((fe, 'types'), 0) + 1
                # selecting the definitions of one kind (a match over the definition enum, a test of `kind`) is how both
                # passes partition the document; only other conditions make the append partial
                def kind_select(c):
                    if c[0] in ('for', 'loop', 'closure'):
                        return True
                    if c[0] == 'match':
                        ty = (c[1].get('scrut') or c[1].get('e') or {}).get('ty', '')
                        return any(x in ty for x in ('Definition', 'TypeKind', 'TypeExtension'))
                    if c[0] == 'if':
                        try:
                            t = ctx.pv.eval(fn, c[1]['cond'], H.sym_env(fn), 0)
                        except Exception:
                            return False
                        fs = TM.fields_in(t)
                        return bool(fs) and all(f.endswith('.kind') for f in fs)
                    return False
                kinds = [c[0] for c in cc if not kind_select(c)]
                if kinds:
                    obs.append(bad('STORE-TOTAL', inst, 'the record of a definition is appended conditionally (inside %s)' % kinds, loc,
                                   'ids assigned by position no longer name the stored record: types after the skipped one are mixed up'))
                elif early:
                    obs.append(bad('STORE-TOTAL', inst, 'an early `return` precedes the append: some definitions store no record', early[0].get('sp', loc),
                                   'ids assigned by position no longer name the stored record: types after the skipped one are mixed up'))
                else:
                    obs.append(ok('STORE-TOTAL', inst, 'every definition handed to the function appends exactly one record', loc))
            elif vec == 'stored_fields':
                counts[(fe, 'fields')] = counts.get((fe, 'fields'), 0) + 1

                def iter_closure(c):
                    """a closure applied to every element of an iterator (`fields.iter().map(|f| ..)`) is a loop body; a closure of
                    an Option / Result combinator (`unwrap_or_else(|| ..)`) runs conditionally"""
                    if c[0] != 'closure':
                        return False
                    pr = fn.parent.get(id(c[1]))
                    while pr and pr[0] is not None and pr[0].get('k') in ('wrap', 'ref'):
                        pr = fn.parent.get(id(pr[0]))
                    if not (pr and pr[0] is not None and pr[0].get('k') == 'mcall'):
                        return False
                    rty = pr[0]['recv'].get('ty', '').replace('&', '').replace('mut ', '').strip()
                    if rty.startswith(('std::option::Option<', 'core::option::Option<', 'std::result::Result<', 'core::result::Result<')):
                        return False
                    return pr[0]['method'] in ('map', 'for_each', 'flat_map', 'fold', 'try_for_each', 'try_fold', 'filter_map', 'extend', 'map_while', 'scan', 'inspect')
                loops = [c for c in cc if c[0] in ('for', 'loop') or iter_closure(c)]
                other = [c[0] for c in cc if c[0] not in ('for', 'loop') and not iter_closure(c)]
                skips = []
                if loops and loops[0][0] in ('for', 'loop'):
                    body = loops[0][1].get('body')
                    skips = [x for x in H.walk(body) if x.get('k') in ('continue', 'break') and _pos(x) < _pos(n)] if body is not None else []
                if other or skips or early:
                    why = ('inside %s' % other) if other else ('after a `%s`' % (skips or early)[0].get('k'))
                    obs.append(bad('STORE-TOTAL', inst, 'a field of a definition does not always store its own record (%s)' % why, loc,
                                   'the field is missing or shares the record (type, deprecation) of another field'))
                else:
                    # the returned id must be what enters the field list
                    par = fn.parent.get(id(n))
                    while par and par[0] is not None and par[0].get('k') in ('wrap', 'ref'):
                        par = fn.parent.get(id(par[0]))
                    direct = par and par[0] is not None and par[0].get('k') == 'mcall' and par[0].get('method') in ('push', 'insert', 'extend', 'push_back')
                    if not direct and par and par[0] is not None and par[0].get('k') in ('closure', 'block'):
                        direct = True   # the closure's / block's value: collected by the iterator chain
                    if direct:
                        obs.append(ok('STORE-TOTAL', inst, 'every field stores its own record and that id enters the field list', loc))
                    else:
                        obs.append(undecided('STORE-TOTAL', inst, 'the id of the stored field does not go straight into a list', loc))
    for fe in sorted({k[0] for k in counts}):
        pass
    fes = sorted({k[0] for k in counts})
    if len(fes) < 2:
        obs.append(bad('STORE-TOTAL', 'floor/front-ends', 'anchor-missing: expected two schema front ends appending records, found %s' % fes, '', 'checker lost its anchor'))
    for fe in fes:
        if counts.get((fe, 'types'), 0) < 6:
            obs.append(bad('STORE-TOTAL', 'floor/%s/types' % fe, 'anchor-missing: %d appends of type records (expected one per kind, 6)' % counts.get((fe, 'types'), 0), '', 'checker lost its anchor'))
        if counts.get((fe, 'fields'), 0) < 1:
            obs.append(bad('STORE-TOTAL', 'floor/%s/fields' % fe, 'anchor-missing: no append of field records in this front end', '', 'checker lost its anchor'))
    return obs


# ------------------------------------------------------------------------------------------------------------------
# SEL-TOTAL
# ------------------------------------------------------------------------------------------------------------------
def _inside(fn, node, anc):
    if node is anc:
        return True
    for parent, role, child in fn.ancestors(node):
        if parent is anc:
            return True
    return False


def _nearest_loop(fn, node):
    for parent, role, child in fn.ancestors(node):
        if parent.get('k') in ('for', 'loop', 'while') and role == 'body':
            return parent
        if parent.get('k') == 'closure':
            return None
    return None


@rule('SEL-TOTAL')
def rule_sel_total(ctx):
    """Every element of a selection set is expanded on its own: in the loops over selections of the response-type
    expander, whether an element is skipped (`continue` / `break`) or its record (ExpandedField, ExpandedVariant ..) is
    built may depend on the element and on the schema, never on state accumulated from the elements seen before (a
    `seen` list, a counter): two selections of one schema field under different aliases, or the same field in two
    fragments, are distinct response keys."""
    from .rules_hir5 import free_locals, pat_hids
    obs = []
    entry = ctx.fn('codegen', 'codegen::selection::calculate_selection')
    if entry is None:
        return [bad('SEL-TOTAL', 'floor', 'anchor-missing: the selection expander was not found', '', 'checker lost its anchor')]
    fl = H.Flat(ctx, entry, 2)
    fns = [entry]
    for owner, node, proxy in fl.entries:
        if owner not in fns and not owner.from_macro and norm_path(owner.path).startswith('graphql_client_codegen::codegen'):
            fns.append(owner)
    nloops = 0
    for fn in fns:
        for loop in fn.walk(lambda x: x['k'] == 'for'):
            ity = loop['iter'].get('ty', '') + loop['pat'].get('ty', '')
            if 'Selection' not in ity:
                continue
            nloops += 1
            # loop-carried state: locals declared outside the loop and mutated inside it
            carried = {}
            for h, srcs in fn.binds.items():
                for s_ in srcs:
                    if s_[0] == 'mut' and _inside(fn, s_[3], loop['body']):
                        carried.setdefault(h, s_[3])
                    elif s_[0] == 'assign' and _inside(fn, s_[2], loop['body']):
                        carried.setdefault(h, s_[2])
            inner_decl = set()
            for st in H.walk(loop['body']):
                if st.get('k') == 'let' and st.get('pat'):
                    inner_decl |= pat_hids(st['pat'])
            inner_decl |= pat_hids(loop['pat'])
            carried = {h: n for h, n in carried.items() if h not in inner_decl}
            sites = []
            for n in H.walk(loop['body']):
                k = n.get('k')
                if k in ('continue', 'break') and _nearest_loop(fn, n) is loop:
                    sites.append((k, n))
                elif k == 'struct' and n.get('adt', '').split('::')[-1].startswith('Expanded') and all('e' in y for y in n.get('fields', [])):
                    sites.append(('record ' + n['adt'].split('::')[-1], n))
            ordn = {}
            for what, n in sites:
                deps = set()
                for c in H.conditional_context(fn, n, upto=loop):
                    if c[0] == 'if':
                        deps |= free_locals(fn, c[1]['cond'])
                    elif c[0] == 'match':
                        deps |= free_locals(fn, c[1]['scrut'])
                hit = sorted(deps & set(carried))
                ordn[what] = ordn.get(what, 0) + 1
                inst = '%s/loop%d/%s#%d' % (short(fn.path), nloops, what, ordn[what])
                if hit:
                    names = sorted({x.get('name', '?') for x in H.walk(fn.body) if x.get('k') == 'bind' and x.get('hid') in hit}) or ['a local']
                    obs.append(bad('SEL-TOTAL', inst, 'whether a selection is expanded depends on state accumulated over earlier selections (%s)' % ', '.join(names), n.get('sp', ''),
                                   'a later selection (another alias of the same field, the same field in a second fragment) loses its response field'))
                else:
                    obs.append(ok('SEL-TOTAL', inst, 'depends only on the selection itself and the schema', n.get('sp', '')))
    if nloops < 1:
        obs.append(bad('SEL-TOTAL', 'floor/loops', 'anchor-missing: no loop over selections in the expander', entry.loc, 'checker lost its anchor'))
    return obs


# ------------------------------------------------------------------------------------------------------------------
# FMT-SELF
# ------------------------------------------------------------------------------------------------------------------
def _placeholders(text):
    """('display' | 'debug' | 'other', explicit index or None) for each `{..}` of the first string literal of a macro call"""
    m = re.search(r'"((?:[^"\\]|\\.)*)"', text, re.S)
    if not m:
        return None
    s_ = m.group(1).replace('{{', '').replace('}}', '')
    out = []
    for ph in re.findall(r'\{([^{}]*)\}', s_):
        arg, _, spec = ph.partition(':')
        kind = 'debug' if '?' in spec else ('display' if spec.strip('<>^+-#0123456789.$ *') == '' else 'other')
        out.append((kind, arg.strip() or None))
    return out


def _strip_refs(n):
    while isinstance(n, dict) and n.get('k') in ('ref', 'wrap', 'unary', 'deref') and ('e' in n):
        n = n['e']
    return n


@rule('FMT-SELF')
def rule_fmt_self(ctx):
    """`impl Display for T` / `impl Debug for T`: the body of `fmt` never formats `self` again with the same trait
    (`write!(f, "{}", self)`, `self.to_string()`, `self.fmt(f)`): that call has the same receiver and no smaller argument,
    so rendering such a value recurses until the stack overflows and the process aborts instead of reporting the error."""
    obs = []
    n_impls = 0
    for cn, cr in sorted(ctx.prog.crates.items()):
        for fn in cr.all_fns():
            m = re.match(r'^<(.+) as core::fmt::(Display|Debug)>::fmt$', fn.path)
            if not m or fn.from_macro or not fn.params:
                continue
            n_impls += 1
            trait = m.group(2).lower()
            selfh = fn.params[0].get('hid')
            inst = '%s/%s' % (short(m.group(1)), m.group(2))
            hits = []
            for mac in fn.walk(lambda x: x['k'] == 'macro'):
                name = mac['name'].split('::')[-1]
                if name not in ('write', 'writeln', 'format', 'format_args', 'print', 'println', 'eprint', 'eprintln', 'panic'):
                    continue
                phs = _placeholders(mac.get('text', ''))
                args = [fn.nodes.get(a['id']) for a in mac.get('args', []) if a.get('how') == 'span']
                if name in ('write', 'writeln'):
                    args = args[1:]
                if phs is None:
                    continue
                seq = 0
                for kind, explicit in phs:
                    if explicit is not None and explicit.isdigit():
                        idx = int(explicit)
                    elif explicit is not None:
                        # inline named argument `{self}` is not valid Rust; `{name}` captures a local
                        continue
                    else:
                        idx = seq
                        seq += 1
                    if idx >= len(args) or args[idx] is None:
                        continue
                    a = _strip_refs(args[idx])
                    if a.get('k') == 'path' and (a.get('res') or {}).get('hid') == selfh and kind == trait:
                        hits.append((mac, '`%s!` formats `self` with {%s}' % (name, '' if trait == 'display' else ':?')))
            for c in fn.walk(lambda x: x['k'] == 'mcall'):
                r = _strip_refs(c['recv'])
                if r.get('k') == 'path' and (r.get('res') or {}).get('hid') == selfh:
                    if c['method'] == 'to_string' and trait == 'display':
                        hits.append((c, '`self.to_string()` inside Display::fmt'))
                    elif c['method'] == 'fmt' and (c.get('callee') or {}).get('path', '') == fn.path:
                        hits.append((c, '`self.fmt(f)` calls this very function'))
            for c in fn.walk(lambda x: x['k'] == 'call'):
                if (c.get('callee') or {}).get('path', '') == fn.path and c.get('args'):
                    r = _strip_refs(c['args'][0])
                    if r.get('k') == 'path' and (r.get('res') or {}).get('hid') == selfh:
                        hits.append((c, 'calls itself on `self`'))
            if hits:
                node, why = hits[0]
                obs.append(bad('FMT-SELF', inst, why + ': unbounded recursion when this value is rendered', node.get('sp', fn.loc),
                               'rendering the value overflows the stack (process abort) instead of printing a message'))
            else:
                obs.append(ok('FMT-SELF', inst, 'fmt does not format `self` with its own trait again', fn.loc))
    if n_impls < 5:
        obs.append(bad('FMT-SELF', 'floor', 'anchor-missing: %d hand-written Display/Debug impls found (7 confirmed by hand)' % n_impls, '', 'checker lost its anchor'))
    return obs
