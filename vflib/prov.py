"""E4 — provenance analysis: abstract evaluation of resolved HIR expression trees to *terms*.

A term says where a value comes from and which transforms were applied on the way.  Terms are
hashable tuples:

  ('const', v)                     literal
  ('global', path)                 const/static item or unit/enum-variant path
  ('param', fnkey, i, name)        parameter of an API entry point (no workspace callers)
  ('field', base, adt, name)       field of a record that is an *origin* (schema/query/options record)
  ('agg', adt, fnkey, nodeid, envid)   struct literal (fields projected lazily)
  ('ctor', path, (args..))         tuple-struct / enum-variant constructor application
  ('tuple', (t..))
  ('xf', name, base)               string transform (snake, camel, lower, upper, trim, ...)
  ('fmt', text, (args..))          format!/concat/push_str
  ('ident', strterm)               Ident::new(s, _)
  ('parsed', strterm, ty)          syn::parse_str
  ('tmpl', sitekey, envid)         quote! template instance
  ('closure', fnkey, nodeid, envid)
  ('if', cond, then, else)         value chosen by a branch
  ('match', scrut, ((patsummary, term)..))
  ('join', frozenset)              several possible sources
  ('op', op, (args..))             comparison / arithmetic / derived boolean
  ('call', path, (args..))         un-modelled call (external or opaque)
  ('index',)                       enumerate() index
  ('none',) ('unit',) ('diverge', why) ('rec', what) ('unknown', why)

Collections, Option, Result(Ok), Box, references and Cow are *transparent*: a term describes the
element(s).
"""
import os
import re
import sys
sys.setrecursionlimit(100000)

NEUTRAL_METHODS = {
    'into', 'as_ref', 'as_str', 'as_mut', 'as_deref', 'as_deref_mut', 'borrow', 'borrow_mut', 'deref', 'deref_mut',
    'clone', 'cloned', 'copied', 'to_string', 'to_owned', 'into_owned', 'to_vec', 'as_slice', 'as_path', 'to_path_buf',
    'unwrap', 'expect', 'unwrap_or_default', 'ok', 'ok_or', 'ok_or_else', 'take', 'iter', 'iter_mut', 'into_iter',
    'filter', 'rev', 'peekable', 'collect', 'next', 'peek', 'skip', 'find', 'by_ref',
    'get_mut', 'into_static', 'to_token_stream', 'into_token_stream', 'map_err', 'into_boxed_str', 'as_bytes',
    'skip_while', 'take_while', 'inspect', 'fuse', 'into_inner', 'into_schema', 'values', 'into_values',
    'values_mut', 'drain', 'step_by', 'unwrap_unchecked', 'display', 'to_str', 'to_string_lossy', 'into_string',
    'as_os_str', 'to_os_string', 'lock', 'from', 'new', 'unwrap_or_else_neutral', 'min', 'max', 'sorted',
    'dedup', 'unzip', 'flatten', 'cycle', 'as_mut_slice', 'borrowed', 'owned', 'some', 'ok_', 'box_new',
}
# methods whose result also depends on another argument (joined)
JOIN_ARG_METHODS = {'unwrap_or', 'or', 'chain', 'or_else_value', 'get_or_insert', 'max_by', 'min_by'}
CLOSURE_RESULT_METHODS = {'map', 'and_then', 'filter_map', 'flat_map', 'find_map', 'map_while'}
CLOSURE_JOIN_METHODS = {'unwrap_or_else', 'or_else', 'or_insert_with', 'get_or_insert_with', 'map_or_else_dflt'}
BOOL_METHODS = {'is_empty', 'is_some', 'is_none', 'is_ok', 'is_err', 'contains', 'starts_with', 'ends_with',
                'any', 'all', 'eq', 'ne', 'len', 'contains_key', 'is_ident', 'binary_search', 'position',
                'count', 'is_success', 'is_server_error', 'is_client_error', 'exists', 'is_file', 'is_some_and',
                'is_none_or', 'cmp', 'partial_cmp', 'lt', 'le', 'gt', 'ge', 'binary_search_by', 'matches'}
STRING_XF = {
    'to_snake_case': 'snake', 'to_upper_camel_case': 'camel', 'to_lower_camel_case': 'lcamel',
    'to_shouty_snake_case': 'shouty', 'to_kebab_case': 'kebab', 'to_title_case': 'title',
    'to_pascal_case': 'camel', 'to_snek_case': 'snake', 'to_shouty_kebab_case': 'shoutykebab', 'to_train_case': 'train',
    'to_lowercase': 'lower', 'to_uppercase': 'upper', 'to_ascii_lowercase': 'lower', 'to_ascii_uppercase': 'upper',
    'trim': 'trim', 'trim_start': 'trim', 'trim_end': 'trim', 'trim_matches': 'trim', 'trim_end_matches': 'trim',
    'trim_start_matches': 'trim', 'strip_prefix': 'strip', 'strip_suffix': 'strip', 'replace': 'replace',
    'replacen': 'replace', 'split': 'split', 'splitn': 'split', 'rsplit': 'split', 'split_once': 'split',
    'rsplit_once': 'split', 'split_whitespace': 'split', 'lines': 'split', 'chars': 'chars', 'repeat': 'repeat',
    'escape_default': 'escape', 'escape_debug': 'escape', 'rsplitn': 'split', 'split_at': 'split', 'truncate': 'trunc',
    'file_name': 'file_name', 'file_stem': 'file_stem', 'extension': 'extension', 'with_extension': 'with_extension',
    'parent': 'parent', 'canonicalize': 'canonicalize',
}
NEUTRAL_FNS_SUFFIX = (
    '::Some', '::Ok', 'Box::<T>::new', 'Box::new', 'Cow::Borrowed', 'Cow::Owned', 'String::from', 'From::from',
    'Into::into', 'AsRef::as_ref', 'Clone::clone', 'ToString::to_string', 'ToOwned::to_owned', 'Path::new',
    'PathBuf::from', 'Rc::new', 'Arc::new', 'mem::take', 'IntoIterator::into_iter', 'iter::once', 'Deref::deref',
    'Borrow::borrow', 'ToTokens::to_token_stream', 'ToTokens::into_token_stream', 'TokenStream::from',
    'convert::identity', 'Option::Some', 'Result::Ok', 'Some', 'Ok', 'Box::new',
)

from .facts import norm_path


def join(terms):
    s = set()
    for t in terms:
        if t is None or t == ('absent',):
            continue
        if t[0] == 'join':
            s |= t[1]
        else:
            s.add(t)
    if not s:
        return ('absent',)
    if len(s) > 1:
        # x = join(a, x): a bare recursion marker adds nothing to a join that has other members
        # a diverging alternative has no value
        s2 = {t for t in s if t[0] not in ('rec', 'diverge')} or {t for t in s if t[0] != 'rec'}
        if s2:
            s = s2
    if len(s) == 1:
        return next(iter(s))
    return ('join', frozenset(s))


def pat_summary(p):
    k = p.get('k')
    if k == 'bind':
        if 'sub' in p:
            return pat_summary(p['sub'])
        return ('bind', p['name'])
    if k == 'wild':
        return ('wild',)
    if k == 'struct':
        if p['fields'] and all(f['name'].isdigit() for f in p['fields']):
            return ('ctor', norm_path(p['res'].get('path', '?')), tuple(pat_summary(f['pat']) for f in p['fields']))
        return ('ctor', norm_path(p['res'].get('path', '?')), tuple((f['name'], pat_summary(f['pat'])) for f in p['fields']))
    if k == 'tstruct':
        return ('ctor', norm_path(p['res'].get('path', '?')), tuple(pat_summary(x) for x in p['pats']))
    if k == 'tuple':
        return ('tuple', tuple(pat_summary(x) for x in p['pats']))
    if k == 'or':
        return ('or', tuple(pat_summary(x) for x in p['pats']))
    if k in ('ref', 'guard'):
        return pat_summary(p['pat'])
    if k == 'slice':
        # ('slice', element patterns, has a `..` rest)
        return ('slice', tuple(pat_summary(x) for x in p.get('before', []) + p.get('after', [])), bool(p.get('mid')))
    if k == 'expr':
        if 'lit' in p:
            return ('lit', p['lit']['v'])
        return ('ctor', norm_path(p['res'].get('path', '?')), ())
    return ('other', str(k))


class Prov:
    MAX_DEPTH = 12

    def __init__(self, prog):
        self.prog = prog
        self.envs = [{}]          # envid -> dict hid -> term
        self.env_ids = {}
        self.fn_by_path = {}
        self.fn_by_key = {}
        self.private_adts = set()
        for c in prog.crates.values():
            for it in getattr(c, 'ast_items', []):
                if it.get('kind') in ('struct', 'enum') and it.get('vis', 'pub') == '':
                    self.private_adts.add(norm_path('::'.join(x for x in (c.name, it.get('module', ''), it['name']) if x)))
        for c in prog.crates.values():
            for fn in c.all_fns():
                self.fn_by_path.setdefault(norm_path(fn.path), []).append(fn)
                self.fn_by_key[fn.key] = fn
        # trait method -> impl fns
        self.impl_methods = {}
        for p, fns in self.fn_by_path.items():
            m = re.match(r'^<(.+) as (.+)>::(\w+)$', p)
            if m:
                self.impl_methods.setdefault(m.group(2) + '::' + m.group(3), []).extend(fns)
        self.sites = {}           # sitekey -> (fn, macro node)
        self.memo = {}
        self.stack = []
        self.origin_fields = set()   # (adt, field) treated as leaves; filled by rules
        self.escape_memo = {}
        self.param_memo = {}
        self.guard_memo = {}
        self.escape_fns = {}         # fnkey -> inlined result term of fns recognised as identifier escapes
        self.unknowns = []

    def is_origin_adt(self, adt):
        if adt.startswith(ORIGIN_MODULES) or adt in ORIGIN_ADTS:
            return True
        if not adt.startswith(WORKSPACE_PREFIXES):
            return True
        return False

    def fields_through_private(self, t, depth=2):
        """origin fields of t, looking through module-private helper records (`Helper.x <- Helper{..}` is replaced by the
        fields of what was stored in x): private records are plumbing, not part of the data model"""
        out = set()
        for s_ in subterms(t):
            if s_[0] == 'field':
                adt = s_[2]
                if adt in self.private_adts and depth > 0:
                    for b_ in ([s_[1]] if s_[1][0] != 'join' else list(s_[1][1])):
                        if b_[0] == 'agg':
                            afn = self.fn_by_key.get(b_[2])
                            node = afn.nodes.get(b_[3]) if afn is not None else None
                            for f in (node or {}).get('fields', []):
                                if f['name'] == s_[3] and 'e' in f:
                                    out |= self.fields_through_private(self.eval(afn, f['e'], self.envs[b_[4]], 0), depth - 1)
                else:
                    out.add(adt.split('::')[-1] + '.' + s_[3])
        return out

    # ---- env registry ------------------------------------------------------------------------
    def envid(self, env):
        key = tuple(sorted(env.items()))
        i = self.env_ids.get(key)
        if i is None:
            i = len(self.envs)
            self.envs.append(dict(env))
            self.env_ids[key] = i
        return i

    # ---- helpers -----------------------------------------------------------------------------
    def local_fns(self, callee):
        """workspace fns a resolved callee may denote"""
        if not callee:
            return []
        for key in ('resolved', 'path'):
            p = callee.get(key)
            if p:
                p = norm_path(p)
                if p in self.fn_by_path:
                    return self.fn_by_path[p]
        p = norm_path(callee.get('path') or '')
        # dynamic dispatch on a *workspace* trait: all its impls
        if p in self.impl_methods and p.startswith(WORKSPACE_PREFIXES) and not callee.get('resolved'):
            return self.impl_methods[p]
        return []

    def site_key(self, fn, node):
        k = fn.key + '@' + node['id']
        self.sites[k] = (fn, node)
        return k

    # ---- evaluation --------------------------------------------------------------------------
    def eval(self, fn, e, env=None, depth=0):
        if env is None:
            env = {}
        if e is None:
            return ('unit',)
        if depth > self.MAX_DEPTH:
            return ('unknown', 'depth')
        k = e.get('k')
        m = getattr(self, 'ev_' + k, None)
        if m is None:
            return ('unknown', 'expr-kind:' + str(k))
        return m(fn, e, env, depth)

    def ev_lit(self, fn, e, env, d):
        return ('const', e['lit']['v'])

    def ev_path(self, fn, e, env, d):
        r = e['res']
        if r['r'] == 'local':
            return self.eval_local(fn, r['hid'], env, d)
        if r['r'] == 'def':
            p = norm_path(r['path'])
            dk = r.get('dk', '')
            if dk.startswith('Ctor') and 'Option::None' in p or p.endswith('::None') and 'option' in p.lower() or p == 'std::prelude::v1::None':
                return ('none',)
            if dk.startswith('Const') or dk.startswith('Static'):
                return ('global', p)
            return ('global', p)
        return ('global', norm_path(r.get('path', r.get('dbg', '?'))))

    def eval_local(self, fn, hid, env, d):
        if hid in env:
            base = env[hid]
            muts = [s for s in fn.binds.get(hid, ()) if s[0] in ('mut', 'mutfmt')]
            if not muts:
                return base
            key = ('L', fn.key, hid)
            if key in self.stack:
                return base
            self.stack.append(key)
            try:
                pushes, elems = [], []
                for s in muts:
                    if s[0] == 'mutfmt':
                        a = self.macro_args(fn, s[1], env, d)
                        pushes.append(('fmt', fmt_string(s[1]['text']), a[1:]))
                    elif s[1] == 'push_str' or (s[1] == 'push' and self._ordered_text(fn, hid)):
                        pushes.append(self.eval(fn, s[2], env, d))
                    else:
                        elems.append(self.eval(fn, s[2], env, d))
                t = join([base] + elems)
                if pushes:
                    t = ('fmt', 'push_str', (t,) + tuple(pushes))
                return t
            finally:
                self.stack.pop()
        key = ('L', fn.key, hid)
        if key in self.stack:
            return ('rec', fn.bind_names.get(hid, hid))
        memo_key = (fn.key, hid, self.envid(env)) if env else (fn.key, hid, 0)
        if memo_key in self.memo:
            return self.memo[memo_key]
        self.stack.append(key)
        try:
            srcs = fn.binds.get(hid)
            if not srcs:
                return ('unknown', 'unbound:' + hid)
            vals = []
            pushes = []
            for s in srcs:
                if s[0] == 'mutfmt':
                    a = self.macro_args(fn, s[1], env, d)
                    pushes.append(('fmt', fmt_string(s[1]['text']), a[1:]))
                elif s[0] == 'mut' and (s[1] == 'push_str' or (s[1] == 'push' and self._ordered_text(fn, hid))):
                    pushes.append(self.eval(fn, s[2], env, d))
                else:
                    vals.append(self.eval_src(fn, s, env, d))
            t = join(vals)
            if pushes:
                t = ('fmt', 'push_str', (t,) + tuple(pushes))
            if not self._has_rec(t):
                self.memo[memo_key] = t
            return t
        finally:
            self.stack.pop()

    def _ordered_text(self, fn, hid):
        """`push` on a String (a char) or a PathBuf (a component) appends to a text, it does not add a collection element"""
        ty = (fn.bind_types.get(hid) or '').replace('&', '').replace('mut ', '').strip()
        return ty in ('std::string::String', 'std::path::PathBuf', 'String', 'PathBuf')

    def _has_rec(self, t):
        for s_ in subterms(t):
            if s_[0] == 'rec':
                return True
        return False

    def eval_src(self, fn, s, env, d):
        kind = s[0]
        if kind == 'expr':
            return self.eval(fn, s[1], env, d)
        if kind == 'param':
            return self.eval_param(fn, s[2], env, d)
        if kind == 'proj':
            base = self.eval_src(fn, s[1], env, d)
            return self.project(base, s[2], d)
        if kind == 'cparam':
            return self.closure_param(fn, s[1], s[2], env, d)
        if kind == 'mut':
            return self.guarded_local(fn, s[3], self.eval(fn, s[2], env, d), env, d)
        if kind == 'assign':
            return self.guarded_local(fn, s[2], self.eval(fn, s[1], env, d), env, d)
        if kind == 'uninit':
            return ('absent',)
        return ('unknown', 'src:' + str(kind))

    def eval_param(self, fn, i, env, d):
        """a parameter evaluated outside an inlining context: join over all workspace call sites"""
        key = ('P', fn.key, i)
        if key in self.stack:
            return ('rec', 'param')
        if key in self.param_memo:
            return self.param_memo[key]
        self.stack.append(key)
        try:
            vals = []
            sites = self.call_sites(fn)
            for (cfn, cnode) in sites:
                if cnode['k'] == 'mcall':
                    a = cnode['recv'] if i == 0 else (cnode['args'][i - 1] if i - 1 < len(cnode['args']) else None)
                else:
                    a = cnode['args'][i] if i < len(cnode['args']) else None
                if a is None:
                    continue
                vals.append(self.guarded(cfn, cnode, self.eval(cfn, a, {}, d + 1), d + 1))
            if not vals:
                name = ''
                p = fn.params[i] if i < len(fn.params) else {}
                if p.get('k') == 'bind':
                    name = p['name']
                return ('param', fn.key, i, name)
            res = join(vals)
            if not self._has_rec(res):
                self.param_memo[key] = res
            return res
        finally:
            self.stack.pop()

    def call_sites(self, fn):
        out = []
        p = norm_path(fn.path)
        seen = set()
        cands = [p]
        m = re.match(r'^<(.+) as (.+)>::(\w+)$', p)
        if m and m.group(2).startswith(WORKSPACE_PREFIXES):
            # calls through a workspace trait (dyn / generic): every call of the trait method may reach this impl.
            # For foreign traits (Display, Clone, ...) only call sites *resolved* to this impl count.
            cands.append(m.group(2) + '::' + m.group(3))
        for cp in cands:
            for (cfn, n) in self.prog.calls_norm.get(cp, []):
                if id(n) not in seen:
                    seen.add(id(n))
                    out.append((cfn, n))
        return out

    def closure_param(self, fn, cnode, i, env, d):
        """a closure parameter evaluated without an applying context: look at how the closure is used"""
        pr = fn.parent.get(id(cnode))
        while pr and pr[0] is not None and pr[0].get('k') in ('wrap', 'ref', 'macro'):
            pr = fn.parent.get(id(pr[0]))
        if not pr or pr[0] is None:
            return ('unknown', 'closure-param')
        parent, role = pr
        if parent.get('k') == 'mcall' and isinstance(role, tuple) and role[0] == 'args':
            meth = parent['method']
            recv = self.eval(fn, parent['recv'], env, d)
            if meth == 'fold':
                if i == 0:
                    return join([self.eval(fn, parent['args'][0], env, d), ('rec', 'fold-acc')])
                return recv
            if meth in ('map_err',):
                return ('err', recv)
            if meth in ('sort_by', 'sort_by_key', 'max_by_key', 'min_by_key', 'dedup_by_key', 'partition', 'retain'):
                return recv
            return recv
        if parent.get('k') == 'call':
            return ('unknown', 'closure-param-of-call')
        if parent.get('k') == 'let' and parent.get('pat', {}).get('k') == 'bind':
            # a named local closure: its parameter is whatever the calls `name(args)` pass
            hid = parent['pat']['hid']
            vals = []
            for n in fn.walk(lambda x: x['k'] == 'call' and not x.get('callee')):
                f_ = n.get('f') or {}
                while f_.get('k') in ('ref', 'wrap'):
                    f_ = f_.get('e') or {}
                if f_.get('k') == 'path' and f_.get('res', {}).get('hid') == hid and i < len(n['args']):
                    vals.append(self.guarded_local(fn, n, self.eval(fn, n['args'][i], env, d), env, d))
            if vals:
                return join(vals)
        return ('unknown', 'closure-param')

    def guard_terms(self, fn, node, env, d):
        """[(kind, cond term, label)] for the path conditions of node, evaluated in env (memoised)"""
        key = (fn.key, id(node), self.envid(env) if env else 0)
        r = self.guard_memo.get(key)
        if r is not None:
            return r
        out = []
        for pc in path_conds(fn, node):
            if pc[0] == 'if':
                c = self.eval(fn, pc[1], env, d)
                if c == ('const', True) or c[0] == 'unknown':
                    continue
                out.append(canon_if(abstract_cond(c), pc[2]))
            elif pc[0] == 'match':
                out.append(('match', abstract_cond(self.eval(fn, pc[1], env, d)), pc[2]))
            elif pc[0] == 'nomatch':
                out.append(('match', abstract_cond(self.eval(fn, pc[1], env, d)), ('not', pc[2])))
        if not any(self._has_rec(c[1]) for c in out):
            self.guard_memo[key] = out
        return out

    def guarded(self, fn, node, value, d):
        """wrap `value` with the path conditions under which `node` (in fn) executes"""
        for g in reversed(self.guard_terms(fn, node, {}, d)):
            if g[0] == 'if':
                value = ('if', g[1], value, ('absent',)) if g[2] else ('if', g[1], ('absent',), value)
            else:
                value = ('match', g[1], ((g[2], value),))
        return value

    def guarded_local(self, fn, node, value, env, d):
        """like guarded(), for a mutation/assignment of a local: only conditions *inside* the fn, evaluated in env"""
        for g in reversed(self.guard_terms(fn, node, env, d)):
            if g[0] == 'if':
                value = ('if', g[1], value, ('absent',)) if g[2] else ('if', g[1], ('absent',), value)
            else:
                value = ('match', g[1], ((g[2], value),))
        return value

    # ---- projections -------------------------------------------------------------------------
    def project(self, base, how, d):
        if base is None or base == ('absent',):
            return ('absent',)
        tag = base[0]
        if tag in ('diverge', 'rec'):
            return base
        if tag == 'join':
            return join([self.project(b, how, d) for b in base[1]])
        if tag == 'if':
            return ('if', base[1], self.project(base[2], how, d), self.project(base[3], how, d))
        if tag == 'match':
            return ('match', base[1], tuple((p, self.project(t, how, d)) for p, t in base[2]))
        if tag == 'orelse':
            return ('orelse', self.project(base[1], how, d), self.project(base[2], how, d))
        if tag == 'sel':
            return self.project(base[2], how, d)
        if tag == 'list':
            return join([self.project(b, how, d) for b in base[1]]) if base[1] else ('absent',)
        if how[0] == 'elem':
            return base
        if how[0] == 'tuple':
            if tag == 'tuple' and how[1] < len(base[1]):
                return base[1][how[1]]
            return ('tproj', base, how[1])
        if how[0] == 'ctor':
            _, ctor, i, n = how
            ctor = norm_path(ctor)
            # transparent wrappers
            if ctor.endswith(('::Some', '::Ok')) or ctor in ('std::prelude::v1::Some', 'std::prelude::v1::Ok'):
                return base
            if tag == 'ctor':
                if base[1] == ctor and i < len(base[2]):
                    return base[2][i]
                return ('absent',) if base[1] != ctor else ('unknown', 'ctor-arity')
            if tag in ('none', 'unit'):
                return ('absent',)
            return ('cproj', base, ctor, i)
        if how[0] == 'field':
            return self.project_field(base, norm_path(how[1]), how[2], d)
        return ('unknown', 'proj')

    def project_field(self, base, adt, name, d):
        if base is None or base == ('absent',):
            return ('absent',)
        tag = base[0]
        if tag == 'diverge':
            return base
        if tag == 'join':
            return join([self.project_field(b, adt, name, d) for b in base[1]])
        if tag == 'if':
            return ('if', base[1], self.project_field(base[2], adt, name, d), self.project_field(base[3], adt, name, d))
        if tag == 'match':
            return ('match', base[1], tuple((p, self.project_field(t, adt, name, d)) for p, t in base[2]))
        if tag == 'orelse':
            return ('orelse', self.project_field(base[1], adt, name, d), self.project_field(base[2], adt, name, d))
        if tag == 'sel':
            return self.project_field(base[2], adt, name, d)
        if tag == 'list':
            return join([self.project_field(b, adt, name, d) for b in base[1]]) if base[1] else ('absent',)
        if tag == 'ctor' and name.isdigit() and int(name) < len(base[2]) and base[1].split('::')[-1] == adt.split('::')[-1]:
            return base[2][int(name)]       # `.0` of a tuple struct built right here
        if (adt, name) in self.origin_fields or self.is_origin_adt(adt):
            return ('field', base, adt, name)
        if tag == 'agg':
            _, aadt, fnkey, nodeid, envid = base
            afn = self.fn_by_key[fnkey]
            node = afn.nodes[nodeid]
            for f in node['fields']:
                if f['name'] == name:
                    v = self.eval(afn, f['e'], self.envs[envid], d + 1)
                    muts = self.prog.field_writes_norm.get((adt, name), [])
                    key = ('F', adt, name)
                    if muts and key in self.stack:
                        v = join([v, ('rec', 'field:' + name)])
                    elif muts:
                        self.stack.append(key)
                        try:
                            vals = [v]
                            for (wfn, mnode) in muts:
                                if mnode['args']:
                                    vals.append(self.eval(wfn, mnode['args'][-1], {}, d + 1))
                            v = join(vals)
                        finally:
                            self.stack.pop()
                    return v
            if isinstance(node.get('base'), dict):
                # `T { a: .., ..base }` where base is (through a recursive call) this very literal: loop-carried value
                bkey = ('B', nodeid, fnkey, name)
                if bkey in self.stack:
                    return ('rec', 'base:' + name)
                self.stack.append(bkey)
                try:
                    return self.project_field(self.eval(afn, node['base'], self.envs[envid], d + 1), adt, name, d)
                finally:
                    self.stack.pop()
            return ('unknown', 'agg-field-missing:' + name)
        if (adt, name) in self.origin_fields or self.is_origin_adt(adt):
            return ('field', base, adt, name)
        # internal record: field-based join over all writers in the workspace
        key = ('F', adt, name)
        if key in self.stack:
            return ('rec', 'field:' + name)
        writers = self.prog.aggregates_norm.get(adt, [])
        muts = self.prog.field_writes_norm.get((adt, name), [])
        if not writers and not muts:
            return ('field', base, adt, name)
        self.stack.append(key)
        try:
            vals = []
            for (wfn, wnode) in writers:
                for f in wnode['fields']:
                    if f['name'] == name:
                        vals.append(self.eval(wfn, f['e'], {}, d + 1))
            for (wfn, mnode) in muts:
                if mnode['args']:
                    vals.append(self.eval(wfn, mnode['args'][-1], {}, d + 1))
            if not vals:
                return ('field', base, adt, name)
            return join(vals)
        finally:
            self.stack.pop()

    # ---- expression kinds --------------------------------------------------------------------
    def ev_field(self, fn, e, env, d):
        base = self.eval(fn, e['base'], env, d)
        adt = norm_path(e.get('adt') or '?')
        if adt == '?':
            # tuple field
            try:
                return self.project(base, ('tuple', int(e['name'])), d)
            except ValueError:
                return ('field', base, adt, e['name'])
        return self.project_field(base, adt, e['name'], d)

    def ev_struct(self, fn, e, env, d):
        adt = norm_path(e.get('adt') or e['res'].get('path', '?'))
        return ('agg', adt, fn.key, e['id'], self.envid(env))

    def ev_block(self, fn, e, env, d):
        if e.get('expr') is not None:
            v = self.eval(fn, e['expr'], env, d)
            # early-return guards: `if c { return x; }` statements before the tail expression
            for st in reversed(e['stmts']):
                if st['k'] == 'let' and st.get('els') is not None and st.get('init') is not None:
                    r = ret_expr_of(st['els'])
                    if r is not None:
                        ps = pat_summary(st['pat'])
                        v = ('match', self.eval(fn, st['init'], env, d), ((('not', ps), ('early', self.eval(fn, r, env, d))), (ps, v)))
                    continue
                m = st.get('init') if st['k'] == 'let' else st.get('e')
                while m is not None and m.get('k') in ('wrap',):
                    m = m.get('e')
                if m is not None and m.get('k') == 'try':
                    oty = (m['e'].get('ty') or '').replace(' ', '')
                    if oty.startswith(('std::option::Option<', 'core::option::Option<', 'Option<')):
                        # `let x = opt?;`: the function's value is None when opt is None, the rest of the block otherwise
                        v = ('if', ('op', 'is_some', (self.eval(fn, m['e'], env, d),)), v, ('early', ('none',)))
                        continue
                if m is not None and m.get('k') == 'match' and any(ret_expr_of(a['body']) is not None or a['body'].get('k') == 'ret' for a in m['arms']):
                    # arms that leave the function carry its value on that path; the other arms continue with the block
                    arms = []
                    for a in m['arms']:
                        ps = pat_summary(a['pat'])
                        if a.get('guard') is not None:
                            ps = ('guarded', ps, self.eval(fn, a['guard'], env, d))
                        r = a['body'].get('e') if a['body'].get('k') == 'ret' else ret_expr_of(a['body'])
                        arms.append((ps, ('early', self.eval(fn, r, env, d)) if r is not None else v))
                    v = ('match', self.eval(fn, m['scrut'], env, d), tuple(arms))
                    continue
                if st['k'] != 'stmt':
                    continue
                x = st['e']
                if x.get('k') == 'if' and x.get('else') is None:
                    r = ret_expr_of(x['then'])
                    if r is not None:
                        v = ('if', self.eval(fn, x['cond'], env, d), ('early', self.eval(fn, r, env, d)), v)
                elif x.get('k') == 'if' and _some_branch_returns(x):
                    v = self._stmt_if(fn, x, v, env, d)
            return v
        # a block ending in a diverging statement
        if e['stmts']:
            last = e['stmts'][-1]
            if last['k'] == 'stmt' and last['e'].get('k') in ('ret', 'break', 'continue'):
                return ('diverge', last['e']['k'])
            if last['k'] == 'stmt' and last['e'].get('k') == 'macro' and last['e']['name'] in DIVERGING_MACROS:
                return ('diverge', last['e']['name'])
        return ('unit',)

    def _stmt_if(self, fn, x, v, env, d):
        """an if / else-if chain used as a statement: branches that `return r` end the function with r, the others go on
        with the rest of the block (v)"""
        def branch(b):
            if b is None:
                return v
            bb = b
            while bb.get('k') == 'wrap':
                bb = bb['e']
            if bb.get('k') == 'if':
                return self._stmt_if(fn, bb, v, env, d)
            r = ret_expr_of(b)
            if r is not None:
                return ('early', self.eval(fn, r, env, d))
            if diverges(b):
                return ('diverge', 'stmt')
            return v
        return ('if', self.eval(fn, x['cond'], env, d), branch(x['then']), branch(x.get('else')))

    def ev_wrap(self, fn, e, env, d):
        return self.eval(fn, e['e'], env, d)
    ev_ref = ev_wrap
    ev_cast = ev_wrap
    ev_repeat = ev_wrap

    def ev_try(self, fn, e, env, d):
        # `x?`: the Err alternatives of x leave the function; what continues is the Ok payload (Ok(v) is v here)
        t = self.eval(fn, e['e'], env, d)
        ty = (e['e'].get('ty') or '').replace(' ', '')
        if ty.startswith(('std::option::Option<', 'core::option::Option<', 'Option<')):
            # on an Option, `?` returns None from the function for the None alternatives
            return strip_err(t, none_too=True)
        return strip_err(t)

    def ev_unary(self, fn, e, env, d):
        v = self.eval(fn, e['e'], env, d)
        if e['op'] == '*':
            return v
        return ('op', e['op'], (v,))

    def ev_binary(self, fn, e, env, d):
        return ('op', e['op'], (self.eval(fn, e['l'], env, d), self.eval(fn, e['r'], env, d)))

    def ev_tup(self, fn, e, env, d):
        if not e['es']:
            return ('unit',)
        return ('tuple', tuple(self.eval(fn, x, env, d) for x in e['es']))

    def ev_array(self, fn, e, env, d):
        return ('list', tuple(self.eval(fn, x, env, d) for x in e['es']))

    def ev_index(self, fn, e, env, d):
        return ('sel', 'index', self.eval(fn, e['base'], env, d), self.eval(fn, e['idx'], env, d))

    def ev_if(self, fn, e, env, d):
        c = self.eval(fn, e['cond'], env, d)
        t = self.eval(fn, e['then'], env, d)
        el = self.eval(fn, e['else'], env, d) if e.get('else') is not None else ('unit',)
        return ('if', c, t, el)

    def ev_letx(self, fn, e, env, d):
        return ('op', 'matches', (self.eval(fn, e['init'], env, d), ('pat', pat_summary(e['pat']))))

    def ev_match(self, fn, e, env, d):
        s = self.eval(fn, e['scrut'], env, d)
        arms = []
        for a in e['arms']:
            ps = pat_summary(a['pat'])
            if a.get('guard') is not None:
                ps = ('guarded', ps, self.eval(fn, a['guard'], env, d))
            arms.append((ps, self.eval(fn, a['body'], env, d)))
        arms = tuple(arms)
        # case-of-case: a match on a value that is itself chosen by conditions among known constructors (a private enum
        # made from flags, then matched on) is the inner choice with each constructor replaced by its arm
        if s[0] in ('if', 'match') and _ctor_leaves(s):
            r = _case_of_case(s, arms)
            if r is not None:
                return r
        return ('match', s, arms)

    def ev_closure(self, fn, e, env, d):
        return ('closure', fn.key, e['id'], self.envid(env))

    def ev_assign(self, fn, e, env, d):
        return ('unit',)
    ev_assignop = ev_assign
    ev_for = ev_assign

    def ev_loop(self, fn, e, env, d):
        # value of a loop = values of its `break`s; rarely used as a value here
        return ('unknown', 'loop-value')

    def ev_ret(self, fn, e, env, d):
        return ('diverge', 'ret')

    def ev_break(self, fn, e, env, d):
        return ('diverge', 'break')

    def ev_continue(self, fn, e, env, d):
        return ('diverge', 'continue')

    def ev_constblock(self, fn, e, env, d):
        return ('unknown', 'constblock')

    def ev_other(self, fn, e, env, d):
        return ('unknown', 'other-expr')

    # ---- macros ------------------------------------------------------------------------------
    def macro_args(self, fn, e, env, d):
        out = []
        seen = set()
        for a in e['args']:
            if a['how'] == 'outer-local':
                if a['hid'] in seen:
                    continue
                seen.add(a['hid'])
                out.append(self.eval_local(fn, a['hid'], env, d))
            else:
                n = fn.nodes.get(a['id'])
                if n is not None:
                    out.append(self.eval(fn, n, env, d))
        return tuple(out)

    def fmt_term(self, fn, e, env, d):
        args = self.macro_args(fn, e, env, d)
        fs = fmt_string(e['text'])
        if e['name'].split('::')[-1] in ('format', 'format_args', 'format_ident') and re.search(r'\{[A-Za-z_0-9]', fs):
            plan = fmt_plan(e['text'], len(args))
            if plan is not None:
                return ('fmt', plan[0], tuple(args[i] for i in plan[1]))
        return ('fmt', fs, args)

    def ev_macro(self, fn, e, env, d):
        name = e['name'].split('::')[-1]
        if name in TEMPLATE_MACROS:
            return ('tmpl', self.site_key(fn, e), self.envid(env))
        if name in ('format', 'format_args', 'concat', 'stringify'):
            return self.fmt_term(fn, e, env, d)
        if name == 'format_ident':
            return ('ident', self.fmt_term(fn, e, env, d))
        if name in DIVERGING_MACROS:
            return ('diverge', name)
        if name == 'vec':
            a = self.macro_args(fn, e, env, d)
            return ('list', tuple(a))
        if name in ('write', 'writeln', 'print', 'println', 'eprintln', 'eprint', 'info', 'debug', 'warn', 'error', 'trace',
                    'assert', 'assert_eq', 'assert_ne', 'debug_assert', 'debug_assert_eq'):
            return ('unit',)
        if name == 'matches':
            x = e.get('exp')
            while x is not None and x.get('k') in ('wrap', 'block') and (x.get('e') or x.get('expr')) is not None and not x.get('stmts'):
                x = x.get('e') or x.get('expr')
            if x is not None and x.get('k') == 'match' and len(x['arms']) == 2:
                a0 = x['arms'][0]
                if a0.get('guard') is None:
                    return ('op', 'matches', (self.eval(fn, x['scrut'], env, d), ('pat', pat_summary(a0['pat']))))
                # `matches!(x, pat if guard)`: keep it as the match it expands to
                return self.ev_match(fn, x, env, d)
            return ('op', 'matches', self.macro_args(fn, e, env, d) + (('pat', e['text']),))
        if name == 'include_str' or name == 'env':
            return ('call', name + '!', (('const', e['text']),))
        return self.eval(fn, e['exp'], env, d)

    # ---- calls -------------------------------------------------------------------------------
    def apply_closure(self, clo, args, d):
        """apply a closure term (or join of them) to argument terms -> result term"""
        if clo is None:
            return ('unknown', 'no-closure')
        tag = clo[0]
        if tag == 'join':
            return join([self.apply_closure(c, args, d) for c in clo[1]])
        if tag == 'if':
            return ('if', clo[1], self.apply_closure(clo[2], args, d), self.apply_closure(clo[3], args, d))
        if tag == 'closure':
            _, fnkey, nodeid, envid = clo
            cfn = self.fn_by_key[fnkey]
            node = cfn.nodes[nodeid]
            env = dict(self.envs[envid])
            self.bind_params(cfn, node['params'], args, env, d)
            key = ('C', fnkey, nodeid)
            if self.stack.count(key) >= 2:
                return ('rec', 'closure')
            self.stack.append(key)
            try:
                return self.eval(cfn, node['body'], env, d)
            finally:
                self.stack.pop()
        if tag == 'global':
            # a function item passed as a value: ToString::to_string, String::from, TypeId::as_scalar_id ...
            p = tag and clo[1]
            fake = {'path': p, 'resolved': None}
            return self.call_path(None, fake, list(args), d)
        return ('call', 'closure-apply', (clo,) + tuple(args))

    def map_over(self, recv, clo, d):
        """Option/Iterator map: None stays None, alternatives are mapped separately"""
        tag = recv[0]
        if tag in ('none', 'absent', 'unit', 'diverge'):
            return recv
        if tag == 'join':
            return join([self.map_over(m, clo, d) for m in recv[1]])
        if tag == 'if':
            return ('if', recv[1], self.map_over(recv[2], clo, d), self.map_over(recv[3], clo, d))
        if tag == 'match':
            return ('match', recv[1], tuple((p, self.map_over(t, clo, d)) for p, t in recv[2]))
        if tag == 'orelse':
            return ('orelse', self.map_over(recv[1], clo, d), self.map_over(recv[2], clo, d))
        if tag == 'sel' and recv[1] in ('first', 'last', 'get', 'next', 'pop'):
            # an element that may not exist: the mapped value exists only if it does
            return ('if', ('op', 'is_some', (recv,)), self.apply_closure(clo, [recv], d), ('none',))
        return self.apply_closure(clo, [recv], d)

    def bind_params(self, fn, params, args, env, d):
        for i, p in enumerate(params):
            a = args[i] if i < len(args) else ('unknown', 'missing-arg')
            self.bind_pat(p, a, env, d)

    def bind_pat(self, pat, term, env, d):
        k = pat.get('k')
        if k == 'bind':
            env[pat['hid']] = term
            if 'sub' in pat:
                self.bind_pat(pat['sub'], term, env, d)
        elif k == 'tuple':
            for i, p in enumerate(pat['pats']):
                self.bind_pat(p, self.project(term, ('tuple', i), d), env, d)
        elif k == 'struct':
            adt = pat['res'].get('path', '?')
            for f in pat['fields']:
                if f['name'].isdigit():
                    self.bind_pat(f['pat'], self.project(term, ('ctor', adt, int(f['name']), len(pat['fields'])), d), env, d)
                else:
                    self.bind_pat(f['pat'], self.project(term, ('field', adt, f['name']), d), env, d)
        elif k == 'tstruct':
            ctor = pat['res'].get('path', '?')
            n = len(pat['pats'])
            for i, p in enumerate(pat['pats']):
                t = self.project(term, ('ctor', ctor, i, n), d)
                self.bind_pat(p, t, env, d)
        elif k in ('ref', 'guard'):
            self.bind_pat(pat['pat'], term, env, d)
        elif k == 'slice':
            for p in pat.get('before', []) + pat.get('after', []):
                self.bind_pat(p, self.project(term, ('elem',), d), env, d)
        elif k == 'or':
            for p in pat['pats']:
                self.bind_pat(p, term, env, d)

    def inline(self, fns, args, d):
        """inline workspace fns with the given argument terms; returns join of their results"""
        # object sensitivity: a parameter bound to a join of record literals is analysed per literal,
        # so that fields of one record stay correlated
        for i, a in enumerate(args):
            if a is not None and a[0] in ('join', 'if', 'match'):
                lv = list(leaves(a))
                if len(lv) > 1 and any(l[0] == 'agg' for _, l in lv) and len(lv) <= 64:
                    outs = []
                    for conds, m in lv:
                        a2 = list(args)
                        a2[i] = m
                        outs.append(wrap_conds(conds, self.inline(fns, a2, d)))
                    return join(outs)
        outs = []
        for cfn in fns:
            key = ('I', cfn.key)
            if self.stack.count(key) >= 1:
                outs.append(('rec', 'fn:' + cfn.path))
                continue
            if d > self.MAX_DEPTH:
                outs.append(('unknown', 'depth'))
                continue
            if self.is_escape_fn(cfn, d):
                outs.append(('xf', 'kw', args[0]))
                continue
            env = {}
            self.bind_params(cfn, cfn.params, args, env, d)
            self.stack.append(key)
            try:
                vals = [self.eval(cfn, cfn.body, env, d + 1)]
                for r in cfn.walk(lambda n: n['k'] == 'ret'):
                    if self.in_closure(cfn, r):
                        continue
                    if r.get('e') is not None:
                        vals.append(self.guarded_local(cfn, r, ('early', self.eval(cfn, r['e'], env, d + 1)), env, d + 1))
                res = join([v for v in vals if v[0] != 'diverge'] or vals)
                outs.append(res)
            finally:
                self.stack.pop()
        return join(outs)

    def is_escape_fn(self, cfn, d):
        """does this fn, applied to a symbolic string x, return x or x/table-entry with a constant affix?"""
        if cfn.key in self.escape_memo:
            return self.escape_memo[cfn.key]
        self.escape_memo[cfn.key] = False
        if len(cfn.params) != 1 or cfn.dk not in ('Fn', 'AssocFn'):
            return False
        out = cfn.d.get('output', '')
        if 'str' not in out and 'String' not in out:
            return False
        x = ('argvar', cfn.key)
        env = {}
        self.bind_params(cfn, cfn.params, [x], env, d)
        key = ('I', cfn.key)
        self.stack.append(key)
        try:
            res = self.eval(cfn, cfn.body, env, d + 1)
        finally:
            self.stack.pop()
        ok = escape_shape(res, [x]) is not None
        self.escape_memo[cfn.key] = ok
        if ok:
            self.escape_fns[cfn.key] = res
        return ok

    def in_closure(self, fn, node):
        for (p, role, _c) in fn.ancestors(node):
            if p.get('k') == 'closure':
                return True
        return False

    def ev_call(self, fn, e, env, d):
        args = [self.eval(fn, a, env, d) for a in e['args']]
        cal = e.get('callee')
        if not cal:
            # calling a local value (closure)
            f = self.eval(fn, e['f'], env, d)
            return self.apply_closure(f, args, d)
        return self.call_path(fn, cal, args, d)

    def call_path(self, fn, cal, args, d):
        p = norm_path(cal['path'])
        last = p.split('::')[-1]
        lfns = self.local_fns(cal)
        if lfns and not p.startswith(OPAQUE_PREFIXES):
            return self.inline(lfns, args, d)
        if lfns:
            return ('call', p, tuple(args))
        dk = cal.get('dk', '')
        if dk.startswith('Ctor') or dk == 'SelfCtor':
            if p.endswith(('::Some', '::Ok')) or last in ('Some', 'Ok'):
                return args[0] if args else ('unit',)
            if last == 'Err':
                return ('err', args[0] if args else ('unit',))
            if p.endswith(('borrow::Cow::Owned', 'borrow::Cow::Borrowed')) and len(args) == 1:
                return args[0]      # a string wrapper, like `.into()`
            return ('ctor', p, tuple(args))
        if p in ('proc_macro2::Ident::new', 'syn::Ident::new', 'proc_macro2::Ident::new_raw'):
            return ('ident', args[0])
        if p.startswith('syn::parse_str') or p.startswith('syn::parse2') or p == 'syn::parse_str':
            return ('parsed', args[0] if args else ('unit',), cal.get('gargs', ''))
        if last in STRING_XF and args:
            return ('xf', STRING_XF[last], args[0])
        for suf in NEUTRAL_FNS_SUFFIX:
            if p.endswith(suf) and args:
                return args[0]
        if last in NEUTRAL_METHODS and args:
            return args[0]
        if p.endswith('Default::default') or last in ('default', 'new', 'with_capacity') and not args or last == 'with_capacity':
            return ('absent',)
        if last in ('format',) and args:
            return args[0]
        return ('call', p, tuple(args))

    def ev_mcall(self, fn, e, env, d):
        recv = self.eval(fn, e['recv'], env, d)
        cal = e.get('callee') or {'path': '?::' + e['method']}
        meth = e['method']
        p = norm_path(cal['path'])
        lfns = self.local_fns(cal)
        if lfns:
            args = [recv] + [self.eval(fn, a, env, d) for a in e['args']]
            return self.inline(lfns, args, d)
        argn = e['args']
        ev = lambda a: self.eval(fn, a, env, d)
        if meth in STRING_XF:
            return ('xf', STRING_XF[meth], recv)
        if meth in ('first', 'last') and not p.startswith(('std::collections', 'alloc::collections')):
            return ('sel', meth, recv)
        if meth in ('get', 'nth', 'get_mut') and argn:
            return ('sel', meth, recv, ev(argn[0]))
        if meth in CLOSURE_RESULT_METHODS and argn:
            clo = ev(argn[-1])
            return self.map_over(recv, clo, d)
        if meth in ('map_or', 'map_or_else') and len(argn) == 2:
            dflt = ev(argn[0])
            if meth == 'map_or_else':
                dflt = self.apply_closure(dflt, [], d)
            return ('orelse', self.map_over(recv, ev(argn[1]), d), dflt)
        if meth == 'then' and len(argn) == 1 and 'bool' in (e['recv'].get('ty', '') + e['recv'].get('aty', '')):
            return ('if', recv, self.apply_closure(ev(argn[0]), [], d), ('none',))
        if meth == 'is_some_and' and len(argn) == 1:
            return ('orelse', self.map_over(recv, ev(argn[0]), d), ('const', False))
        if meth == 'is_none_or' and len(argn) == 1:
            return ('orelse', self.map_over(recv, ev(argn[0]), d), ('const', True))
        if meth in ('unwrap_or_else', 'or_else') and argn:
            return ('orelse', recv, self.apply_closure(ev(argn[0]), [], d))
        if meth in ('unwrap_or', 'or') and argn:
            return ('orelse', recv, ev(argn[0]))
        if meth in ('or_insert_with', 'get_or_insert_with') and argn:
            return join([recv, self.apply_closure(ev(argn[0]), [], d)])
        if meth in ('chain', 'or_insert', 'get_or_insert') and argn:
            return join([recv, ev(argn[0])])
        if meth == 'zip' and argn:
            return ('tuple', (recv, ev(argn[0])))
        if meth == 'enumerate':
            return ('tuple', (('index',), recv))
        if meth == 'fold' and len(argn) == 2:
            init = ev(argn[0])
            # the accumulator is the initial value or (recursively) an earlier result, like a loop-carried variable
            return join([init, self.apply_closure(ev(argn[1]), [join([init, ('rec', 'fold-acc')]), recv], d)])
        if meth in ('for_each', 'try_for_each'):
            if argn:
                self.apply_closure(ev(argn[0]), [recv], d)
            return ('unit',)
        if meth in ('concat', 'join'):
            return ('fmt', meth, (recv,) + tuple(ev(a) for a in argn))
        if meth == 'entry' and argn:
            return recv
        if meth in ('then_some',) and argn:
            return ('if', recv, ev(argn[0]), ('none',))
        if meth == 'parse':
            return ('parsed', recv, cal.get('gargs', ''))
        if meth in BOOL_METHODS:
            av = tuple(ev(a) for a in argn)
            if meth in ('any', 'all', 'position', 'is_some_and', 'is_none_or') and av and av[0][0] == 'closure':
                # keep the closure (for predicate evaluation) and its symbolic application (for origins)
                av = av + (self.apply_closure(av[0], [recv], d),)
            return ('op', meth, (recv,) + av)
        if meth in NEUTRAL_METHODS or meth in ('get', 'first', 'last', 'nth'):
            return recv
        if meth in MUTATOR_NAMES:
            return ('unit',)
        return ('call', p, (recv,) + tuple(ev(a) for a in argn))


WORKSPACE_PREFIXES = ('graphql_client_codegen::', 'graphql_query_derive::', 'graphql_introspection_query::',
                      'graphql_client::', 'graphql_client_cli::')
# records that are *origins* of names/types: schema model, bound query model, options
ORIGIN_MODULES = ('graphql_client_codegen::schema::', 'graphql_client_codegen::query::',
                  'graphql_client_codegen::codegen_options::', 'graphql_introspection_query::')

# workspace fns treated as opaque origins (token scanners: analysed as a unit, not inlined)
OPAQUE_PREFIXES = ('graphql_query_derive::attributes::',)

ORIGIN_ADTS = {'graphql_client::Error', 'graphql_client::Response', 'graphql_client::Location', 'graphql_client::PathFragment',
               'graphql_client::QueryBody', 'graphql_client::introspection_schema::Header'}

MUTATOR_NAMES = {'push', 'push_str', 'extend', 'insert', 'reserve', 'sort', 'reverse', 'clear', 'remove', 'pop',
                 'dedup', 'retain', 'truncate', 'push_back', 'extend_from_slice', 'append'}
TEMPLATE_MACROS = {'quote', 'quote_spanned', 'parse_quote', 'parse_quote_spanned'}
DIVERGING_MACROS = {'panic', 'unreachable', 'todo', 'unimplemented'}


def diverges(e):
    """does evaluating this expression never complete normally? (syntactic, conservative)"""
    if e is None:
        return False
    k = e.get('k')
    if k in ('ret', 'break', 'continue'):
        return True
    if k == 'macro':
        return e['name'].split('::')[-1] in DIVERGING_MACROS
    if k == 'block':
        if e.get('expr') is not None:
            return diverges(e['expr'])
        if e['stmts']:
            last = e['stmts'][-1]
            if last['k'] == 'stmt':
                return diverges(last['e'])
        return False
    if k == 'wrap':
        return diverges(e['e'])
    if k == 'call' and e.get('callee') and e['callee']['path'] in ('std::process::exit', 'std::process::abort'):
        return True
    if k == 'match':
        return all(diverges(a['body']) for a in e['arms']) and bool(e['arms'])
    if k == 'if':
        return e.get('else') is not None and diverges(e['then']) and diverges(e['else'])
    return False


def ret_expr_of(block):
    """if `block` is `{ return E; }` (possibly nested in wrappers) -> E"""
    b = block
    while b is not None and b.get('k') in ('wrap',):
        b = b['e']
    if b is None or b.get('k') != 'block':
        return None
    last = b.get('expr')
    if last is None and b['stmts'] and b['stmts'][-1]['k'] == 'stmt':
        last = b['stmts'][-1]['e']
    if last is not None and last.get('k') == 'ret' and last.get('e') is not None:
        return last['e']
    return None


def _some_branch_returns(x):
    while x is not None:
        xx = x
        while xx.get('k') == 'wrap':
            xx = xx['e']
        if xx.get('k') != 'if':
            return ret_expr_of(x) is not None
        if ret_expr_of(xx['then']) is not None:
            return True
        x = xx.get('else')
    return False


def guards_of_stmt(st):
    out = []
    e = st.get('e') if st['k'] == 'stmt' else None
    if e is not None and e.get('k') == 'if' and e.get('else') is None and diverges(e['then']):
        out.append(('if', e['cond'], False))
    if e is not None and e.get('k') == 'if' and e.get('else') is not None and diverges(e['else']) and not diverges(e['then']):
        out.append(('if', e['cond'], True))
    if st['k'] == 'let' and st.get('els') is not None:
        out.append(('letelse', st['init'], pat_summary(st['pat'])))
    # `let x = match s { P => v, Q => return r };` (or the same as a statement): what follows runs only if s is not Q
    m = st.get('init') if st['k'] == 'let' else e
    while m is not None and m.get('k') in ('wrap',):
        m = m.get('e')
    if m is not None and m.get('k') == 'match' and not diverges(m):
        for a in m['arms']:
            if a.get('guard') is None and diverges(a['body']):
                out.append(('nomatch', m['scrut'], pat_summary(a['pat'])))
    return out


def _walk_nodes(e):
    stack = [e]
    while stack:
        n = stack.pop()
        if isinstance(n, list):
            stack.extend(n)
        elif isinstance(n, dict):
            yield n
            for key, v in n.items():
                if isinstance(v, (dict, list)) and not key.startswith('_'):
                    stack.append(v)


def path_conds(fn, node, stop=None):
    """conditions that must hold for control to reach `node` inside fn (outermost first).
    entries: ('if', cond_node, polarity) | ('match', scrut_node, patsummary, armidx) | ('letelse', init, pat)
    Stops at the enclosing closure boundary unless stop is given (closures run when called)."""
    out = []
    for parent, role, child in fn.ancestors(node):
        k = parent.get('k')
        if k == 'if':
            if role == 'then':
                out.append(('if', parent['cond'], True))
            elif role == 'else':
                out.append(('if', parent['cond'], False))
        elif k == 'match' and isinstance(role, tuple) and role[0] == 'arms':
            arm = parent['arms'][role[1]]
            g_ = arm.get('guard')
            if isinstance(g_, dict) and g_.get('k') != 'letx' and not any(x_ is node or x_ is child for x_ in _walk_nodes(g_)):
                # the body of `pat if guard => body` runs only when the guard held
                out.append(('if', g_, True))
            out.append(('match', parent['scrut'], pat_summary(arm['pat']), role[1]))
        elif k == 'block' and isinstance(role, tuple) and role[0] == 'stmts':
            for st in reversed(parent['stmts'][:role[1]]):
                out.extend(reversed(guards_of_stmt(st)))
        elif k == 'block' and role == 'expr':
            for st in reversed(parent['stmts']):
                out.extend(reversed(guards_of_stmt(st)))
        elif k == 'let' and role == 'els':
            out.append(('nomatch', parent['init'], pat_summary(parent['pat'])))
        elif k == 'mcall' and parent.get('method') == 'then' and isinstance(role, tuple) and role[0] == 'args' and \
                'bool' in (parent['recv'].get('ty', '') + parent['recv'].get('aty', '')):
            # `cond.then(|| ..)`: the closure runs only when the receiver is true
            out.append(('if', parent['recv'], True))
        elif k == 'binary' and role == 'r' and parent.get('op') in ('&&', '||'):
            # short-circuit: the right operand runs only if the left one is true (&&) / false (||)
            out.append(('if', parent['l'], parent['op'] == '&&'))
    out.reverse()
    return out


def escape_shape(res, args):
    """If `res` (result of inlining a fn) is `x` on some paths and `x`/table entry with a constant affix on
    the others, where x is the first string argument, return x; else None.  This recognises identifier
    escaping helpers (keyword_replace) by what they compute, not by name."""
    if not args:
        return None
    x = args[0]
    if res[0] not in ('match', 'if'):
        return None
    saw_x = False
    saw_affix = False
    for conds, leaf in leaves(res):
        if leaf == x:
            saw_x = True
            continue
        if leaf[0] == 'fmt':
            ok = True
            has_const = False
            flat = []

            def fl(a):
                if a[0] in ('join', 'list') and a != x:
                    for b in a[1]:
                        fl(b)
                elif a[0] == 'sel' and a != x:
                    fl(a[2])
                else:
                    flat.append(a)
            for a in leaf[2]:
                fl(a)
            for aa in flat:
                if aa == x:
                    continue
                if aa[0] in ('const', 'global'):
                    has_const = True
                    continue
                ok = False
            if ok and has_const:
                saw_affix = True
                continue
        return None
    # conditions may only depend on x and constants
    for t in subterms(('conds',) + tuple(c[1] for conds, _ in leaves(res) for c in conds)):
        if t[0] in ('field', 'param', 'call', 'unknown') and t != x and not _inside(t, x):
            return None
    return x if (saw_x and saw_affix) else None


def _inside(t, x):
    for s in subterms(x):
        if s == t:
            return True
    return False


def fmt_string(text):
    """the format string literal of a format!-like macro call-site snippet"""
    m = re.search(r'"((?:[^"\\]|\\.)*)"', text, re.S)
    return m.group(1) if m else text


def fmt_plan(text, nargs):
    """A format!-like call site with named / captured / indexed placeholders read positionally: (the format string with every
    placeholder written `{}` or `{:spec}`, for each placeholder the index of its value in the macro's argument list).  rustc's
    argument list is: the explicit arguments in source order (positional, then `name = value`), then the captured identifiers
    (`{path}`) in order of first appearance.  None when the text does not add up to `nargs` arguments."""
    fs = fmt_string(text)
    phs = []
    for m in re.finditer(r'\{\{|\}\}|\{([^{}]*)\}', fs):
        if m.group(0) in ('{{', '}}'):
            continue
        name, _, spec = m.group(1).partition(':')
        phs.append((m.start(), m.end(), name.strip(), spec))
    at = text.find(fs)
    rest = text[at + len(fs):] if at >= 0 else ''
    given = re.findall(r',\s*([A-Za-z_][A-Za-z0-9_]*)\s*=[^=]', rest)
    captured = []
    for _, _, name, _ in phs:
        if name and not name.isdigit() and name not in given and name not in captured:
            captured.append(name)
    n_explicit = nargs - len(captured)
    n_pos = n_explicit - len(given)
    if n_explicit < 0 or n_pos < 0:
        return None
    order, nxt = [], 0
    for _, _, name, _ in phs:
        if name == '':
            idx, nxt = nxt, nxt + 1
        elif name.isdigit():
            idx = int(name)
        elif name in given:
            idx = n_pos + given.index(name)
        else:
            idx = n_explicit + captured.index(name)
        if idx >= nargs:
            return None
        order.append(idx)
    out, last = [], 0
    for a, b, _, spec in phs:
        out.append(fs[last:a])
        out.append('{:%s}' % spec if spec else '{}')
        last = b
    out.append(fs[last:])
    return ''.join(out), order


# ------------------------------------------------------------------------------------------------
# term utilities
# ------------------------------------------------------------------------------------------------

def subterms(t, seen=None):
    """every distinct sub-term object of t (DAG-aware: shared sub-objects are visited once)"""
    seen = set()
    stack = [t]
    while stack:
        x = stack.pop()
        if isinstance(x, frozenset):
            stack.extend(x)
            continue
        if not isinstance(x, tuple) or not x:
            continue
        i = id(x)
        if i in seen:
            continue
        seen.add(i)
        if isinstance(x[0], str):
            yield x
        for y in x:
            if isinstance(y, (tuple, frozenset)):
                stack.append(y)


def leaves(t, conds=()):
    """flatten join/if/match alternatives: yields (conds, leaf).  conds = tuple of (kind, cond, label)"""
    tag = t[0]
    if tag == 'join':
        # members in set order: deterministic because vf pins PYTHONHASHSEED (sorting by repr was the hot spot)
        for x in (t[1] if os.environ.get('PYTHONHASHSEED') == '0' else sorted(t[1], key=repr)):
            yield from leaves(x, conds)
    elif tag == 'if':
        if t[1] == ('const', True):
            yield from leaves(t[2], conds)
        elif t[1] == ('const', False):
            yield from leaves(t[3], conds)
        else:
            yield from leaves(t[2], conds + (canon_if(t[1], True),))
            yield from leaves(t[3], conds + (canon_if(t[1], False),))
    elif tag == 'list':
        for x in t[1]:
            yield from leaves(x, conds)
    elif tag == 'orelse':
        yield from leaves(t[1], conds)
        yield from leaves(t[2], conds)
    elif tag == 'absent':
        return
    elif tag == 'match':
        for ps, arm in t[2]:
            if not pat_may_match(ps, t[1]):
                continue
            yield from leaves(arm, conds + (('match', t[1], ps),))
    elif tag == 'early':
        yield from leaves(t[1], conds)
    else:
        if strict_diverge(t):
            return
        yield conds, t


def _ctor_name(t):
    if t[0] in ('ctor', 'global') and '::' in t[1] and t[1].split('::')[-1][:1].isupper():
        return t[1].split('::')[-1]
    return None


def _ctor_leaves(t, depth=0):
    """is t a small if/match tree whose alternatives are all enum constructors (or diverge)?"""
    if depth > 4:
        return False
    tag = t[0]
    if tag == 'if':
        return _ctor_leaves(t[2], depth + 1) and _ctor_leaves(t[3], depth + 1)
    if tag == 'match':
        return all(_ctor_leaves(a, depth + 1) for _, a in t[2])
    if tag in ('diverge', 'early'):
        return True
    return _ctor_name(t) is not None


def _definitely(pat, leaf):
    k = pat[0]
    if k in ('wild', 'bind'):
        return True
    if k == 'ctor':
        n = _ctor_name(leaf)
        if n is None or pat[1].split('::')[-1] != n:
            return False
        return all(sp[0] in ('wild', 'bind') for sp in pat[2] if isinstance(sp, tuple) and sp and isinstance(sp[0], str) and sp[0] in ('wild', 'bind', 'ctor', 'lit', 'tuple', 'or'))
    if k == 'or':
        return any(_definitely(p, leaf) for p in pat[1])
    return False


def _case_of_case(t, arms):
    tag = t[0]
    if tag == 'if':
        a, b = _case_of_case(t[2], arms), _case_of_case(t[3], arms)
        return None if a is None or b is None else ('if', t[1], a, b)
    if tag == 'match':
        out = []
        for p, a in t[2]:
            r = _case_of_case(a, arms)
            if r is None:
                return None
            out.append((p, r))
        return ('match', t[1], tuple(out))
    if tag in ('diverge', 'early'):
        return t
    for ps, body in arms:
        if ps[0] == 'guarded':
            return None
        if _definitely(ps, t):
            return body
        if pat_may_match(ps, t):
            return None
    return ('absent',)


def strip_err(t, depth=0, none_too=False):
    tag = t[0]
    if tag == 'err' or (none_too and tag == 'none'):
        return ('diverge', 'ret')
    if depth > 6:
        return t
    if tag == 'join':
        return join([strip_err(m, depth + 1, none_too) for m in t[1]])
    if tag == 'if':
        return ('if', t[1], strip_err(t[2], depth + 1, none_too), strip_err(t[3], depth + 1, none_too))
    if tag == 'match':
        return ('match', t[1], tuple((p, strip_err(a, depth + 1, none_too)) for p, a in t[2]))
    if tag == 'orelse':
        return ('orelse', strip_err(t[1], depth + 1, none_too), strip_err(t[2], depth + 1, none_too))
    if tag == 'early':
        return t
    return t


def canon_if(c, pol):
    """one spelling per condition: `!x` taken = x not taken; `a == b` not taken = `a != b` taken (and vice versa)"""
    while c[0] == 'op' and c[1] == '!' and len(c[2]) == 1:
        c = c[2][0]
        pol = not pol
    if not pol and c[0] == 'op' and c[1] in ('==', '!=') and len(c[2]) == 2:
        c = ('op', '!=' if c[1] == '==' else '==', c[2])
        pol = True
    return ('if', c, pol)


def strict_diverge(t):
    """a value computed from a diverging expression through strict constructors never exists"""
    while True:
        tag = t[0]
        if tag == 'diverge':
            return True
        if tag in ('xf',):
            t = t[2]
        elif tag in ('ident', 'field', 'tproj', 'cproj'):
            t = t[1]
        else:
            return False


def pat_may_match(pat, term):
    """can a value described by `term` match pattern summary `pat`?  (False only when certainly not)"""
    k = pat[0]
    if k in ('wild', 'bind', 'other', 'not', 'slice'):
        return True
    if k == 'guarded':
        return pat_may_match(pat[1], term)
    if k == 'or':
        return any(pat_may_match(p, term) for p in pat[1])
    tag = term[0]
    if tag == 'join':
        return any(pat_may_match(pat, m) for m in term[1])
    if tag in ('if',):
        return pat_may_match(pat, term[2]) or pat_may_match(pat, term[3])
    if tag == 'orelse':
        return pat_may_match(pat, term[1]) or pat_may_match(pat, term[2])
    if k == 'tuple':
        if tag == 'tuple' and len(term[1]) == len(pat[1]):
            return all(pat_may_match(p, x) for p, x in zip(pat[1], term[1]))
        return True
    if k == 'lit':
        if tag == 'const':
            return term[1] == pat[1]
        return True
    if k == 'ctor':
        name = pat[1].split('::')[-1]
        if tag == 'none':
            return name == 'None'
        if tag == 'ctor':
            return term[1].split('::')[-1] == name
        if tag == 'global' and '::' in term[1] and term[1].split('::')[-1][:1].isupper() and not pat[2]:
            return term[1].split('::')[-1] == name
        if name == 'None' and tag in ('const', 'agg', 'ident', 'tmpl', 'xf', 'fmt'):
            return False
        return True
    return True


GUARD_MAX = 48


def abstract_cond(c):
    """Guards contributed by *where a value was supplied* (call sites, pushes) are only asked "which origins do
    you depend on": big condition terms are abstracted to the set of origin fields they mention (small ones —
    direct tests of an option, of a flag — stay exact so their polarity can be read)."""
    n = 0
    for _ in subterms(c):
        n += 1
        if n > GUARD_MAX:
            break
    if n <= GUARD_MAX:
        return c
    fs = frozenset(('field', ('*',), s_[2], s_[3]) for s_ in subterms(c) if s_[0] == 'field')
    ps = frozenset(('param', s_[1], s_[2], s_[3]) for s_ in subterms(c) if s_[0] == 'param')
    return ('abs', fs | ps)


def wrap_conds(conds, value):
    for c in reversed(conds):
        if c[0] == 'if':
            value = ('if', c[1], value, ('absent',)) if c[2] else ('if', c[1], ('absent',), value)
        elif c[0] == 'match':
            value = ('match', c[1], ((c[2], value),))
    return value


def strip_xf(t):
    """(base term, [transforms outer-last]) for a string-ish term"""
    xs = []
    while isinstance(t, tuple) and t[0] == 'xf':
        xs.append(t[1])
        t = t[2]
    xs.reverse()
    return t, xs


def show(t, depth=0, maxd=6):
    """compact human-readable rendering of a term"""
    if not isinstance(t, tuple):
        return repr(t)
    if not t:
        return '()'
    if depth > maxd:
        return '…'
    tag = t[0]
    s = lambda x: show(x, depth + 1, maxd)
    if tag == 'const':
        return repr(t[1])
    if tag == 'global':
        return t[1].split('::')[-1] if depth else t[1]
    if tag == 'param':
        return 'param(%s#%d %s)' % (t[1].split('::')[-1], t[2], t[3])
    if tag == 'field':
        return '%s.%s' % (t[2].split('::')[-1], t[3]) + ('<-' + s(t[1]) if depth < 2 else '')
    if tag == 'agg':
        return 'agg(%s@%s)' % (t[1].split('::')[-1], t[3])
    if tag == 'ctor':
        return '%s(%s)' % ('::'.join(t[1].split('::')[-2:]), ', '.join(s(x) for x in t[2]))
    if tag == 'tuple':
        return '(' + ', '.join(s(x) for x in t[1]) + ')'
    if tag == 'xf':
        return '%s(%s)' % (t[1], s(t[2]))
    if tag == 'fmt':
        return 'fmt(%r; %s)' % (t[1], ', '.join(s(x) for x in t[2]))
    if tag == 'ident':
        return 'Ident(%s)' % s(t[1])
    if tag == 'parsed':
        return 'parse(%s)' % s(t[1])
    if tag == 'tmpl':
        return 'tmpl(%s)' % t[1].split('::')[-1]
    if tag == 'closure':
        return 'closure@' + t[2]
    if tag == 'if':
        return 'if(%s ? %s : %s)' % (s(t[1]), s(t[2]), s(t[3]))
    if tag == 'match':
        return 'match(%s){%s}' % (s(t[1]), '; '.join('%s=>%s' % (show_pat(p), s(a)) for p, a in t[2]))
    if tag == 'join':
        return 'join{' + ' | '.join(sorted(s(x) for x in t[1])) + '}'
    if tag == 'op':
        return '%s(%s)' % (t[1], ', '.join(s(x) for x in t[2]))
    if tag == 'call':
        return '%s(%s)' % ('::'.join(t[1].split('::')[-2:]), ', '.join(s(x) for x in t[2]))
    if tag == 'orelse':
        return '(%s ?? %s)' % (s(t[1]), s(t[2]))
    if tag == 'early':
        return 'early(' + s(t[1]) + ')'
    return '(' + ' '.join(str(x) if not isinstance(x, tuple) else s(x) for x in t) + ')'


def show_pat(p):
    if p[0] == 'ctor':
        return p[1].split('::')[-1] + ('(' + ','.join(show_pat(x) if isinstance(x, tuple) and x and isinstance(x[0], str) and x[0] in ('ctor', 'bind', 'wild', 'lit', 'tuple', 'or', 'other') else str(x) for x in p[2]) + ')' if p[2] else '')
    if p[0] == 'lit':
        return repr(p[1])
    if p[0] == 'bind':
        return p[1]
    if p[0] == 'wild':
        return '_'
    if p[0] == 'tuple':
        return '(' + ','.join(show_pat(x) for x in p[1]) + ')'
    if p[0] == 'or':
        return '|'.join(show_pat(x) for x in p[1])
    if p[0] == 'slice':
        return '[' + ','.join(show_pat(x) for x in p[1]) + (',..' if p[2] else '') + ']'
    if p[0] == 'not':
        return 'not ' + show_pat(p[1])
    if p[0] == 'guarded':
        return show_pat(p[1]) + ' if …'
    return str(p)
