"""E3 — template model: what the generator can emit.

quote! call-site text is tokenised; holes are bound (through the provenance engine) to the terms
they can hold; template-valued holes are expanded recursively.  The result is a token tree with
explicit alternatives (Choice) and repetitions (Rep) that over-approximates every token stream the
generator can produce, for all inputs.  A small Rust-item parser then recognises items, fields,
variants and attributes in that tree.
"""
import re
from . import prov as P

TOKEN_RE = re.compile(r'''
    (?P<ws>\s+|//[^\n]*|/\*.*?\*/)
  | (?P<rawstr>r(?P<h>\#*)"(?:.|\n)*?"(?P=h))
  | (?P<str>b?"(?:[^"\\]|\\.)*")
  | (?P<char>'(?:[^'\\]|\\.)')
  | (?P<lifetime>'[A-Za-z_][A-Za-z0-9_]*)
  | (?P<num>\d[\d_]*(?:\.\d+)?(?:[eE][+-]?\d+)?[A-Za-z0-9_]*)
  | (?P<ident>(?:r\#)?[A-Za-z_][A-Za-z0-9_]*)
  | (?P<punct>::|->|=>|==|!=|<=|>=|&&|\|\||\.\.=|\.\.\.|\.\.|[-+*/%^!&|=<>@.,;:\#$?~])
  | (?P<open>[\(\[\{])
  | (?P<close>[\)\]\}])
''', re.X | re.S)

CLOSE = {'(': ')', '[': ']', '{': '}'}


class TemplateError(Exception):
    pass


def lex(text):
    pos = 0
    out = []
    while pos < len(text):
        m = TOKEN_RE.match(text, pos)
        if not m:
            raise TemplateError('cannot tokenise at %r' % text[pos:pos + 20])
        pos = m.end()
        k = m.lastgroup
        if k == 'ws' or k == 'h':
            continue
        s = m.group(k) if k != 'rawstr' else m.group('rawstr')
        if m.group('rawstr'):
            k = 'rawstr'
            s = m.group('rawstr')
        out.append((k, s))
    return out


def strip_macro(text):
    """'quote!( ... )' -> inner text"""
    i = text.find('!')
    if i < 0:
        raise TemplateError('not a macro call: %r' % text[:30])
    rest = text[i + 1:].strip()
    if not rest or rest[0] not in CLOSE or rest[-1] != CLOSE[rest[0]]:
        raise TemplateError('unbalanced macro call')
    return rest[1:-1]


def parse_tokens(toks):
    """token list -> tree.  nodes: dicts with 't' in tok/group/hole/rep"""
    def seq(i, closer):
        out = []
        while i < len(toks):
            k, s = toks[i]
            if k == 'close':
                if s != closer:
                    raise TemplateError('mismatched delimiter')
                return out, i + 1
            if k == 'open':
                inner, j = seq(i + 1, CLOSE[s])
                out.append({'t': 'group', 'd': s, 'seq': inner})
                i = j
                continue
            if k == 'punct' and s == '#' and i + 1 < len(toks):
                k2, s2 = toks[i + 1]
                if k2 == 'ident':
                    name = s2[2:] if s2.startswith('r#') else s2
                    out.append({'t': 'hole', 'name': name})
                    i += 2
                    continue
                if k2 == 'open' and s2 == '(':
                    inner, j = seq(i + 2, ')')
                    sep = None
                    # optional separator then '*'
                    if j < len(toks) and toks[j] == ('punct', '*'):
                        j += 1
                    elif j + 1 < len(toks) and toks[j + 1] == ('punct', '*'):
                        sep = toks[j][1]
                        j += 2
                    else:
                        raise TemplateError('repetition without *')
                    out.append({'t': 'rep', 'seq': inner, 'sep': sep})
                    i = j
                    continue
            kind = {'ident': 'ident', 'punct': 'punct', 'lifetime': 'lifetime'}.get(k, 'lit')
            out.append({'t': 'tok', 'kind': kind, 's': s})
            i += 1
        if closer is not None:
            raise TemplateError('unclosed group')
        return out, i
    out, _ = seq(0, None)
    return out


def lit_value(s):
    """value of a string literal token"""
    if s.startswith('r'):
        m = re.match(r'r(#*)"(.*)"\1$', s, re.S)
        return m.group(2) if m else s
    if s.startswith('"'):
        body = s[1:-1]
        return bytes(body, 'utf-8').decode('unicode_escape') if '\\' in body else body
    return s


STRISH = ('&str', 'str', 'String', 'std::string::String', "std::borrow::Cow<'_, str>", 'Cow<', 'alloc::string::String')


def classify(term, ty):
    tag = term[0]
    if tag == 'ident':
        return 'ident'
    if tag == 'parsed':
        return 'path'
    if tag in ('tmpl',):
        return 'tokens'
    t = ty or ''
    if 'TokenStream' in t or 'ToTokens' in t:
        return 'tokens'
    if 'Ident' in t:
        return 'ident'
    if 'syn::Path' in t or 'syn::path::Path' in t:
        return 'path'
    if 'Visibility' in t:
        return 'vis'
    if 'str' in t or 'String' in t:
        return 'str'
    if tag in ('xf', 'fmt', 'field') or (tag == 'const' and isinstance(term[1], str)):
        return 'str'
    if tag == 'const':
        return 'lit'
    return 'value'


class Expander:
    def __init__(self, pv):
        self.pv = pv
        self.parsed = {}      # sitekey -> token tree (unexpanded)
        self.errors = []
        self.expanded_sites = set()
        self.memo = {}
        self.cut_stack = []
        self.recursive_fns = set()   # keys of call-graph-recursive fns (set by core.Ctx); None = treat every fn as recursive

    def site_tree(self, sitekey):
        if sitekey not in self.parsed:
            fn, node = self.pv.sites[sitekey]
            try:
                self.parsed[sitekey] = parse_tokens(lex(strip_macro(node['text'])))
            except TemplateError as ex:
                self.errors.append((sitekey, str(ex)))
                self.parsed[sitekey] = [{'t': 'leaf', 'kind': 'unparsed', 'term': ('unknown', 'template'), 'site': sitekey}]
        return self.parsed[sitekey]

    def holes_of(self, sitekey):
        fn, node = self.pv.sites[sitekey]
        out = {}
        for a in node['args']:
            if a['how'] == 'outer-local' and a['name'] not in out:
                out[a['name']] = a
        return out

    def expand(self, sitekey, envid, stack=()):
        """-> list of elements (tok/group/leaf/choice/rep), every element tagged with its site"""
        mk = (sitekey, envid)
        hit = self.memo.get(mk)
        if hit is not None and not (hit[1] & set(stack)):
            return hit[0]
        self.cut_stack.append(set())
        res = self._expand(sitekey, envid, stack)
        cuts = self.cut_stack.pop()
        # sites whose expansion was cut because they are on the stack: the result is valid for any stack that
        # contains them... keep it simple: cache only cut-free results, or results whose cuts are all self-cuts
        below = cuts - {sitekey}
        if self.cut_stack:
            self.cut_stack[-1] |= below
        if not below:
            self.memo[mk] = (res, set())
        return res

    def _expand(self, sitekey, envid, stack=()):
        fn, node = self.pv.sites[sitekey]
        self.expanded_sites.add(sitekey)
        env = self.pv.envs[envid]
        holes = self.holes_of(sitekey)
        stack2 = stack + (sitekey,)

        def conv(seq):
            out = []
            for el in seq:
                t = el['t']
                if t == 'tok':
                    out.append({'t': 'tok', 'kind': el['kind'], 's': el['s'], 'site': sitekey, 'env': envid})
                elif t == 'group':
                    out.append({'t': 'group', 'd': el['d'], 'seq': conv(el['seq']), 'site': sitekey, 'env': envid})
                elif t == 'rep':
                    out.append({'t': 'rep', 'seq': conv(el['seq']), 'sep': el['sep'], 'site': sitekey, 'env': envid})
                elif t == 'hole':
                    a = holes.get(el['name'])
                    if a is None:
                        out.append({'t': 'leaf', 'kind': 'unbound', 'term': ('unknown', 'hole:' + el['name']),
                                    'site': sitekey, 'name': el['name']})
                        continue
                    term = self.pv.eval_local(fn, a['hid'], env, 0)
                    alts = []
                    for conds, leaf in P.leaves(term):
                        tag = leaf[0]
                        if tag == 'tmpl':
                            # a template of a function that is already being expanded further up (through whichever of
                            # its templates) is a recursive occurrence: cutting per *site* lets n templates of mutually
                            # recursive functions unfold in every order (n! productions)
                            leaf_fn = self.pv.sites[leaf[1]][0].key if leaf[1] in self.pv.sites else None
                            stack_fns = [self.pv.sites[s_][0].key for s_ in stack2 if s_ in self.pv.sites]
                            depth_same = stack_fns.count(leaf_fn) if leaf_fn is not None else 0
                            reentry = leaf_fn is not None and leaf_fn != fn.key and leaf_fn in stack_fns
                            recursive = self.recursive_fns is None or leaf_fn in self.recursive_fns
                            if leaf[1] in stack2 or (recursive and (reentry or depth_same >= 2)):
                                if self.cut_stack:
                                    self.cut_stack[-1].add(leaf[1])
                                alts.append((conds, [{'t': 'leaf', 'kind': 'rec', 'term': leaf, 'site': sitekey,
                                                      'name': el['name']}]))
                            else:
                                alts.append((conds, self.expand(leaf[1], leaf[2], stack2)))
                        elif tag in ('none', 'unit'):
                            alts.append((conds, []))
                        elif tag == 'diverge':
                            continue
                        else:
                            alts.append((conds, [{'t': 'leaf', 'kind': classify(leaf, a.get('ty')), 'term': leaf,
                                                  'site': sitekey, 'name': el['name'], 'ty': a.get('ty'),
                                                  'env': envid}]))
                    if len(alts) == 1 and not alts[0][0]:
                        out.extend(alts[0][1])
                    else:
                        out.append({'t': 'choice', 'alts': alts, 'site': sitekey, 'name': el['name'], 'term': term, 'env': envid})
                else:
                    out.append(el)
            return out
        return conv(self.site_tree(sitekey))


# ------------------------------------------------------------------------------------------------
# Rust item recognition over expanded trees
# ------------------------------------------------------------------------------------------------

class Attr:
    def __init__(self, group, conds, site):
        self.group = group          # the [ ... ] group element
        self.conds = conds          # tuple of conds under which it is present
        self.site = site
        seq = group['seq']
        self.path = seq[0]['s'] if seq and seq[0]['t'] == 'tok' else '?'
        self.args = seq[1]['seq'] if len(seq) > 1 and seq[1]['t'] == 'group' else []

    def rel(self, owner_conds):
        """conditions of this attribute beyond those of its owner (item/field/variant)"""
        n = len(owner_conds)
        if self.conds[:n] == tuple(owner_conds):
            return self.conds[n:]
        return self.conds

    def kv(self):
        """serde-style arguments: list of (key, value element or None)"""
        out = []
        cur = []
        for el in self.args + [{'t': 'tok', 'kind': 'punct', 's': ','}]:
            if el['t'] == 'tok' and el['s'] == ',':
                if cur:
                    key = cur[0]['s'] if cur[0]['t'] == 'tok' else '?'
                    val = None
                    if len(cur) >= 3 and cur[1]['t'] == 'tok' and cur[1]['s'] == '=':
                        val = cur[2] if len(cur) == 3 else {'t': 'seq', 'seq': cur[2:]}
                    elif len(cur) >= 2 and cur[1]['t'] == 'group':
                        val = cur[1]
                    out.append((key, val))
                cur = []
            else:
                cur.append(el)
        return out

    def __repr__(self):
        return '#[%s(%s)]' % (self.path, ','.join(k for k, _ in self.kv()))


class Field:
    def __init__(self, attrs, vis, name, ty, conds, site):
        self.attrs, self.vis, self.name, self.ty, self.conds, self.site = attrs, vis, name, ty, conds, site


class Variant:
    def __init__(self, attrs, name, payload, conds, site):
        self.attrs, self.name, self.payload, self.conds, self.site = attrs, name, payload, conds, site


class Item:
    def __init__(self, kind, name, attrs, conds, site, body=None, header=None):
        self.kind, self.name, self.attrs, self.conds, self.site = kind, name, attrs, conds, site
        self.body = body            # group element or None
        self.header = header or []  # tokens between name and body
        self.fields = []
        self.variants = []
        self.items = []             # nested (mod / impl)


ITEM_KW = {'struct', 'enum', 'type', 'const', 'mod', 'use', 'impl', 'fn', 'static', 'trait', 'union', 'extern'}


def is_tok(el, s=None):
    return el['t'] == 'tok' and (s is None or el['s'] == s)


def attrs_only(seq):
    """is this sequence zero or more attributes (possibly nested in choices)?"""
    i = 0
    while i < len(seq):
        el = seq[i]
        if is_tok(el, '#') and i + 1 < len(seq) and seq[i + 1]['t'] == 'group' and seq[i + 1]['d'] == '[':
            i += 2
            continue
        if el['t'] == 'choice' and all(attrs_only(a) for _, a in el['alts']):
            i += 1
            continue
        if el['t'] == 'rep' and el['seq'] and attrs_only(el['seq']):
            # `#(#attributes)*` over a Vec<TokenStream> collected from optional attributes
            i += 1
            continue
        return False
    return True


def collect_attrs(seq, conds, out):
    i = 0
    while i < len(seq):
        el = seq[i]
        if is_tok(el, '#'):
            out.append(Attr(seq[i + 1], conds, el.get('site')))
            i += 2
        elif el['t'] == 'choice':
            for c, a in el['alts']:
                collect_attrs(a, conds + c, out)
            i += 1
        elif el['t'] == 'rep':
            collect_attrs(el['seq'], conds, out)
            i += 1
        else:
            i += 1


class ItemParser:
    """Recognises items/fields/variants in an expanded token tree.  Unknown shapes are recorded in
    `self.unparsed` (so rules can fail closed on them) rather than guessed."""

    def __init__(self):
        self.items = []
        self.unparsed = []

    # -- generic splitting helpers ---------------------------------------------------------------
    def parse_items(self, seq, conds=(), into=None):
        into = self.items if into is None else into
        i = 0
        pending = []
        n = len(seq)
        while i < n:
            el = seq[i]
            # attributes
            if is_tok(el, '#') and i + 1 < n and seq[i + 1]['t'] == 'group' and seq[i + 1]['d'] == '[':
                pending.append(Attr(seq[i + 1], conds, el.get('site')))
                i += 2
                continue
            if is_tok(el, '#') and i + 2 < n and is_tok(seq[i + 1], '!') and seq[i + 2]['t'] == 'group':
                i += 3  # inner attribute #![...]
                continue
            if el['t'] == 'choice':
                if all(attrs_only(a) for _, a in el['alts']):
                    for c, a in el['alts']:
                        collect_attrs(a, conds + c, pending)
                    i += 1
                    continue
                # alternatives that are whole item lists
                for c, a in el['alts']:
                    self.parse_items(a, conds + c, into)
                pending = []
                i += 1
                continue
            if el['t'] == 'rep' and el['seq'] and attrs_only(el['seq']):
                collect_attrs(el['seq'], conds, pending)
                i += 1
                continue
            if el['t'] == 'rep':
                self.parse_items(el['seq'], conds + (('rep', None, None),), into)
                pending = []
                i += 1
                continue
            if el['t'] == 'leaf':
                if el['kind'] in ('tokens', 'rec', 'value', 'unparsed', 'unbound'):
                    into.append(Item('opaque', el, pending, conds, el.get('site')))
                    pending = []
                    i += 1
                    continue
                if el['kind'] == 'vis':
                    i += 1
                    continue
            # visibility
            j = i
            if is_tok(seq[j], 'pub'):
                j += 1
                if j < n and seq[j]['t'] == 'group' and seq[j]['d'] == '(':
                    j += 1
            if j < n and is_tok(seq[j]) and seq[j]['s'] in ITEM_KW:
                kw = seq[j]['s']
                j += 1
                if kw == 'impl':
                    # impl [<..>] Path [for Type] { items }
                    k = j
                    while k < n and not (seq[k]['t'] == 'group' and seq[k]['d'] == '{'):
                        k += 1
                    it = Item('impl', None, pending, conds, el.get('site'), body=seq[k] if k < n else None,
                              header=seq[j:k])
                    if k < n:
                        self.parse_items(seq[k]['seq'], conds, it.items)
                    into.append(it)
                    pending = []
                    i = k + 1
                    continue
                if kw == 'use':
                    k = j
                    while k < n and not is_tok(seq[k], ';'):
                        k += 1
                    into.append(Item('use', None, pending, conds, el.get('site'), header=seq[j:k]))
                    pending = []
                    i = k + 1
                    continue
                name = seq[j] if j < n else None
                j += 1
                # find body: first {..} group or ';'
                k = j
                while k < n and not (seq[k]['t'] == 'group' and seq[k]['d'] == '{') and not is_tok(seq[k], ';'):
                    k += 1
                body = seq[k] if k < n and seq[k]['t'] == 'group' else None
                it = Item(kw, name, pending, conds, el.get('site'), body=body, header=seq[j:k])
                pending = []
                if kw == 'struct' and body is not None:
                    self.parse_fields(body['seq'], conds, it)
                elif kw == 'struct' and body is None:
                    pass
                elif kw == 'enum' and body is not None:
                    self.parse_variants(body['seq'], conds, it)
                elif kw == 'mod' and body is not None:
                    self.parse_items(body['seq'], conds, it.items)
                into.append(it)
                i = k + 1
                # tuple struct `struct X(..);`
                continue
            # anything else at item level
            self.unparsed.append(('item', el, conds))
            i += 1
        return into

    def split_commas(self, seq):
        parts, cur = [], []
        for el in seq:
            if is_tok(el, ','):
                parts.append(cur)
                cur = []
            else:
                cur.append(el)
        if cur:
            parts.append(cur)
        return parts

    def parse_fields(self, seq, conds, item):
        for part in self.split_commas(seq):
            self.parse_field_part(part, conds, item)

    def parse_field_part(self, part, conds, item, pending=None):
        pending = list(pending or [])
        i = 0
        n = len(part)
        while i < n:
            el = part[i]
            if is_tok(el, '#') and i + 1 < n and part[i + 1]['t'] == 'group':
                pending.append(Attr(part[i + 1], conds, el.get('site')))
                i += 2
                continue
            if el['t'] == 'choice':
                if all(attrs_only(a) for _, a in el['alts']):
                    for c, a in el['alts']:
                        collect_attrs(a, conds + c, pending)
                    i += 1
                    continue
                if i == n - 1 or True:
                    # alternatives each holding complete field(s)
                    rest = part[i + 1:]
                    for c, a in el['alts']:
                        if not a and not rest:
                            continue
                        for sub in self.split_commas(a + rest):
                            self.parse_field_part(sub, conds + c, item, pending)
                    return
            if el['t'] == 'rep' and el['seq'] and attrs_only(el['seq']):
                collect_attrs(el['seq'], conds, pending)
                i += 1
                continue
            if el['t'] == 'rep':
                for sub in self.split_commas(el['seq']):
                    self.parse_field_part(sub, conds + (('rep', None, None),), item, pending)
                pending = []
                i += 1
                continue
            break
        if i >= n:
            return
        j = i
        vis = None
        if is_tok(part[j], 'pub'):
            vis = 'pub'
            j += 1
            if j < n and part[j]['t'] == 'group' and part[j]['d'] == '(':
                j += 1
        if j + 1 < n and is_tok(part[j + 1], ':'):
            name = part[j]
            ty = part[j + 2:]
            item.fields.append(Field(pending, vis, name, ty, conds, part[j].get('site')))
            return
        if part[j]['t'] == 'leaf' and part[j]['kind'] in ('tokens', 'rec', 'value', 'unbound', 'unparsed'):
            item.fields.append(Field(pending, vis, part[j], None, conds, part[j].get('site')))
            return
        self.unparsed.append(('field', part, conds))

    def parse_variants(self, seq, conds, item):
        for part in self.split_commas(seq):
            self.parse_variant_part(part, conds, item)

    def parse_variant_part(self, part, conds, item, pending=None):
        pending = list(pending or [])
        i = 0
        n = len(part)
        while i < n:
            el = part[i]
            if is_tok(el, '#') and i + 1 < n and part[i + 1]['t'] == 'group':
                pending.append(Attr(part[i + 1], conds, el.get('site')))
                i += 2
                continue
            if el['t'] == 'choice':
                if all(attrs_only(a) for _, a in el['alts']):
                    for c, a in el['alts']:
                        collect_attrs(a, conds + c, pending)
                    i += 1
                    continue
                rest = part[i + 1:]
                for c, a in el['alts']:
                    if not a and not rest:
                        continue
                    for sub in self.split_commas(a + rest):
                        self.parse_variant_part(sub, conds + c, item, pending)
                return
            if el['t'] == 'rep':
                for sub in self.split_commas(el['seq']):
                    self.parse_variant_part(sub, conds + (('rep', None, None),), item, pending)
                pending = []
                i += 1
                continue
            break
        if i >= n:
            return
        name = part[i]
        if name['t'] == 'leaf' and name['kind'] in ('tokens', 'rec', 'value', 'unbound', 'unparsed'):
            item.variants.append(Variant(pending, name, None, conds, name.get('site')))
            return
        if name['t'] in ('tok', 'leaf'):
            item.variants.append(Variant(pending, name, part[i + 1:], conds, name.get('site')))
            return
        self.unparsed.append(('variant', part, conds))


def walk_items(items):
    for it in items:
        yield it
        yield from walk_items(it.items)


def render(seq, depth=0):
    """debug rendering of an expanded sequence"""
    out = []
    for el in seq:
        t = el['t']
        if t == 'tok':
            out.append(el['s'])
        elif t == 'group':
            out.append(el['d'] + ' ' + render(el['seq'], depth + 1) + ' ' + CLOSE[el['d']])
        elif t == 'rep':
            out.append('#(' + render(el['seq'], depth + 1) + ')' + (el['sep'] or '') + '*')
        elif t == 'leaf':
            out.append('‹%s:%s›' % (el['kind'], P.show(el['term'], 3)[:80]))
        elif t == 'choice':
            out.append('⟦' + ' ‖ '.join(render(a, depth + 1) for _, a in el['alts']) + '⟧')
        elif t == 'seq':
            out.append(render(el['seq'], depth + 1))
    return ' '.join(out)


def elem_text(el):
    if el is None:
        return '?'
    if el['t'] == 'tok':
        return el['s']
    if el['t'] == 'leaf':
        return '‹%s›' % P.show(el['term'], 2)[:100]
    return render([el])
