"""C06 — operations the schema cannot answer are never turned into code (structural rules on the
query-binding / validation code)."""
import re
from . import prov as P
from . import terms as TM
from . import hirx as H
from .core import Ob, ok, bad, undecided, short
from .facts import norm_path

QMOD = 'graphql_client_codegen::query'

# lookup -> (role, the parsed-document members whose names must be resolved through it; () = at least one call)
LOOKUPS = {
    'Schema::find_type': ('type-by-name', ('FragmentDefinition.type_condition', 'InlineFragment.type_condition')),
    'Query::find_fragment': ('fragment-by-name', ('FragmentDefinition.name', 'FragmentSpread.fragment_name')),
    'ObjectLike::get_field_by_name': ('field-on-parent', ('Field.name',)),
    'Schema::mutation_type': ('mutation-root', ()),
    'Schema::subscription_type': ('subscription-root', ()),
}
# every arm that handles this kind of parsed selection reaches (directly or through helpers) this lookup
ARM_LOOKUPS = {
    'graphql_parser::query::Selection::FragmentSpread': 'Query::find_fragment',
    'graphql_parser::query::Selection::InlineFragment': 'Schema::find_type',
}


def returns_err(e):
    """does this expression (a branch) leave the fn with an Err(..)? (syntactic)"""
    if e is None:
        return False
    k = e.get('k')
    if k == 'ret':
        x = e.get('e')
        return is_err_ctor(x)
    if k == 'block':
        for st in e['stmts']:
            if st['k'] == 'stmt' and returns_err(st['e']):
                return True
        return returns_err(e.get('expr')) if e.get('expr') is not None else False
    if k == 'wrap':
        return returns_err(e['e'])
    if k == 'macro' and e['name'].split('::')[-1] in P.DIVERGING_MACROS:
        return True
    return False


def is_err_ctor(x):
    while x is not None and x.get('k') in ('wrap', 'macro'):
        x = x['e'] if x['k'] == 'wrap' else x['exp']
    if x is None:
        return False
    if x.get('k') == 'call' and x.get('callee') and x['callee']['path'].endswith('Err'):
        return True
    if x.get('k') == 'mcall' and x['method'] == 'into':
        return is_err_ctor(x['recv'])
    return False


def none_arm_rejects(match_node):
    for a in match_node['arms']:
        ps = P.pat_summary(a['pat'])
        if (ps[0] == 'ctor' and ps[1].endswith('None')) or ps[0] == 'wild':
            if returns_err(a['body']) or P.diverges(a['body']):
                return True
    return False


def rule_lookup_checked(ctx):
    obs = []
    cg = ctx.crate('codegen')
    counts = {}
    covered = {}
    for fn in cg.all_fns():
        if not norm_path(fn.path).startswith(QMOD) or fn.from_macro:
            continue
        ordn = {}
        for n in H.calls_in(fn):
            ps = H.callee_paths(n)
            hit = None
            for suf, (role, floor) in LOOKUPS.items():
                if any(p.endswith(suf) for p in ps):
                    hit = (suf, role)
            if not hit:
                continue
            suf, role = hit
            ordn[suf] = ordn.get(suf, 0) + 1
            counts[suf] = counts.get(suf, 0) + 1
            if n.get('args'):
                covered.setdefault(suf, set()).update(TM.fields_in(ctx.pv.eval(fn, n['args'][0], H.sym_env(fn), 0)))
                # a lookup inside a helper: the name is whatever the helper's callers hand over
                covered[suf].update(TM.fields_in(ctx.pv.eval(fn, n['args'][0], {}, 0)))
            inst = '%s/%s#%d' % (short(fn.path), role, ordn[suf])
            kind, detail = H.consumption(fn, n)
            loc = n.get('sp', '')
            if kind in ('propagated', 'panics', 'letelse'):
                obs.append(ok('LOOKUP-CHECKED', inst, 'lookup result consumed by %s' % (detail if isinstance(detail, str) else kind), loc))
            elif kind == 'match' and none_arm_rejects(detail):
                obs.append(ok('LOOKUP-CHECKED', inst, 'lookup matched with a rejecting None arm', loc))
            elif kind in ('stored',):
                # a stored Option must itself be checked where used: find uses of the binding
                obs.append(_stored_lookup(ctx, fn, n, inst, detail, loc))
            else:
                d = detail if isinstance(detail, str) else kind
                obs.append(bad('LOOKUP-CHECKED', inst, 'result of %s is %s (%s): a failed lookup does not end generation with an error' % (suf, kind, d),
                               loc, 'an unknown field/fragment/type/root is accepted'))
    for suf, (role, members) in LOOKUPS.items():
        if counts.get(suf, 0) < 1:
            obs.append(bad('LOOKUP-CHECKED', 'floor/' + role, 'anchor-missing: no `%s` lookup while binding the query' % suf, '',
                           'the corresponding invalid operation is not rejected'))
        for m in members:
            if m not in covered.get(suf, set()):
                obs.append(bad('LOOKUP-CHECKED', 'floor/%s/%s' % (role, m), 'anchor-missing: no `%s` lookup is fed from %s (lookups are fed from %s)'
                               % (suf, m, sorted(x for x in covered.get(suf, set()) if '.' in x)[:6]), '', 'a name of the document is never resolved against the schema/query'))
    # arms that handle a spread / an inline fragment reach the lookup
    narm = {}
    for fn in cg.all_fns():
        if not norm_path(fn.path).startswith(QMOD) or fn.from_macro:
            continue
        for mt in fn.walk(lambda x: x['k'] == 'match'):
            for a in mt['arms']:
                ps = P.pat_summary(a['pat'])
                want = ARM_LOOKUPS.get(ps[1]) if ps[0] == 'ctor' else None
                if not want:
                    continue
                narm[want] = narm.get(want, 0) + 1
                reached = any(n_['k'] in ('call', 'mcall') and any(p.endswith(want) for p in H.callee_paths(n_)) for _f, n_ in H.deep_nodes(ctx, fn, a['body'], 3))
                inst = '%s/arm[%s]' % (short(fn.path), ps[1].split('::')[-1])
                if reached:
                    obs.append(ok('LOOKUP-CHECKED', inst, 'the arm resolves the name through %s' % want, a['body'].get('sp', '')))
                else:
                    obs.append(bad('LOOKUP-CHECKED', inst, 'the arm never calls %s: the name it carries is not resolved' % want, a['body'].get('sp', ''),
                                   'an unknown fragment / type condition is accepted'))
    for want in set(ARM_LOOKUPS.values()):
        if narm.get(want, 0) < 1:
            obs.append(bad('LOOKUP-CHECKED', 'floor/arms/' + want, 'anchor-missing: no selection arm found that should reach %s' % want))
    return obs


def _stored_lookup(ctx, fn, n, inst, name, loc):
    # uses of the stored variable: every use must be a checked consumption
    hid = None
    pr = fn.parent.get(id(n))
    # climb to the let
    cur = n
    while True:
        pr = fn.parent.get(id(cur))
        if not pr or pr[0] is None:
            break
        if pr[0].get('k') == 'let':
            hid = pr[0]['pat'].get('hid')
            break
        cur = pr[0]
    uses = [u for u in fn.walk(lambda x: x['k'] == 'path' and x['res'].get('hid') == hid)] if hid else []
    if not uses:
        return bad('LOOKUP-CHECKED', inst, 'lookup result stored in `%s` and never examined' % name, loc, 'failed lookup ignored')
    for u in uses:
        kind, detail = H.consumption(fn, u)
        if kind in ('propagated', 'panics', 'letelse') or (kind == 'match' and none_arm_rejects(detail)):
            continue
        return bad('LOOKUP-CHECKED', inst, 'stored lookup `%s` is later %s' % (name, kind), loc, 'failed lookup ignored')
    return ok('LOOKUP-CHECKED', inst, 'stored in `%s`, every use checked' % name, loc)


def rule_err_propagated(ctx):
    """every call of a workspace fn returning Result is propagated/handled, never dropped"""
    obs = []
    n_calls = 0
    for ck in ('codegen', 'cli'):
        for fn in ctx.crate(ck).all_fns():
            if fn.from_macro:
                continue
            ordn = {}
            for n in H.calls_in(fn):
                lf = ctx.pv.local_fns(n.get('callee'))
                if not lf:
                    continue
                out = lf[0].d.get('output', '')
                if not out.startswith('std::result::Result<'):
                    continue
                if lf[0].from_macro:
                    continue
                n_calls += 1
                cs = short(lf[0].path)
                ordn[cs] = ordn.get(cs, 0) + 1
                inst = '%s/%s#%d' % (short(fn.path), cs, ordn[cs])
                kind, detail = H.consumption(fn, n)
                d = detail if isinstance(detail, str) else kind
                if kind == 'dropped':
                    obs.append(bad('ERR-PROPAGATED', inst, 'Result of %s is dropped (%s)' % (cs, d), n.get('sp', ''),
                                   'a detected error does not stop generation / the command'))
                else:
                    obs.append(ok('ERR-PROPAGATED', inst, '%s (%s)' % (kind, d), n.get('sp', '')))
    if n_calls < 15:
        obs.append(bad('ERR-PROPAGATED', 'floor', 'anchor-missing: expected >= 15 calls of Result-returning workspace fns, found %d' % n_calls))
    return obs


def rule_validators_dominate(ctx):
    """resolve(): every validator is `?`-propagated and precedes the Ok result; generation happens only after resolve()?"""
    obs = []
    fn = ctx.fn('codegen', QMOD + '::resolve')
    if fn is None:
        return [bad('VALIDATE-ORDER', 'floor/resolve', 'anchor-missing: query::resolve not found')]
    tail = fn.body.get('expr')
    while tail is not None and tail.get('k') in ('wrap',):
        tail = tail['e']
    if tail is None or not (tail.get('k') == 'call' and tail.get('callee') and tail['callee']['path'].endswith('Ok')):
        obs.append(undecided('VALIDATE-ORDER', 'resolve/shape', 'resolve() does not end in a plain Ok(..) tail expression', fn.loc))
        return obs
    validators = []
    for n in H.calls_in(fn):
        lf = ctx.pv.local_fns(n.get('callee'))
        if lf and 'QueryValidationError' in lf[0].d.get('output', '') and lf[0].d.get('output', '').startswith('std::result::Result<'):
            validators.append((n, lf[0]))
    names = {}
    for n, v in validators:
        vs = short(v.path)
        names[vs] = names.get(vs, 0) + 1
        inst = 'resolve/%s#%d' % (vs, names[vs])
        kind, detail = H.consumption(fn, n)
        if kind != 'propagated':
            obs.append(bad('VALIDATE-ORDER', inst, 'validator result is %s, not `?`-propagated' % kind, n.get('sp', ''),
                           'a detected invalid operation still yields code'))
            continue
        okp, why = H.precedes(fn, n, tail)
        if okp:
            obs.append(ok('VALIDATE-ORDER', inst, 'propagated and precedes Ok(..)', n.get('sp', '')))
            continue
        # inside a `for` over all definitions / all selections
        cc = H.conditional_context(fn, n)
        kinds = [c[0] for c in cc]
        itn = H.iteration_of(fn, n)
        if kinds and all(k in ('for', 'match', 'closure') for k in kinds) and itn is not None and itn[0] in ('for', 'try_for_each', 'try_fold', 'for_each'):
            loop = H.iteration_node(fn, n)
            okl, _ = H.precedes(fn, loop, tail)
            if itn[0] != 'for':
                # the iterator method's own Result must be propagated as well
                okl = okl and H.consumption(fn, loop)[0] == 'propagated'
            it_term = ctx.pv.eval(fn, itn[1], {}, 0)
            fields = TM.fields_in(it_term)
            filt = _chain_methods(ctx, fn, itn[1]) & {'filter', 'take', 'skip', 'take_while', 'skip_while', 'step_by', 'filter_map', 'rev_take'}
            skips = _loop_skips(fn, loop, n)
            if skips:
                obs.append(bad('VALIDATE-ORDER', inst, 'the per-element validator can be skipped: `%s` earlier in the loop body' % skips[0].get('k'), skips[0].get('sp', n.get('sp', '')),
                               'some selections/definitions are never validated'))
            elif okl and not filt and (fields & {'Query.selections', 'Document.definitions'}):
                obs.append(ok('VALIDATE-ORDER', inst, 'applied to every element of %s before Ok(..)' % sorted(fields & {'Query.selections', 'Document.definitions'}), n.get('sp', '')))
            else:
                obs.append(bad('VALIDATE-ORDER', inst, 'validator applied in a loop that does not cover all %s (filters: %s; precedes Ok: %s)' %
                               (sorted(fields) or 'elements', sorted(filt), okl), n.get('sp', ''), 'some selections/definitions are never validated'))
        else:
            obs.append(bad('VALIDATE-ORDER', inst, 'validator does not dominate the Ok(..) result: ' + why, n.get('sp', ''),
                           'a path returns Ok without having validated'))
    # the three classes of checks (roots / operation kinds, __typename presence, type conditions) are identified by what the
    # callee's family rejects, the names are only used for the message
    need = {'validation::validate_typename_presence': 'typename', 'selection::validate_type_conditions': 'type-conditions', 'query::create_roots': 'roots'}
    have = set(names)
    for v, what in need.items():
        if v not in have and len(have) < 3:
            obs.append(bad('VALIDATE-ORDER', 'floor/' + v, 'anchor-missing: resolve() calls only %d validating functions (%s); expected the %s check among at least 3' % (len(have), sorted(have), what), fn.loc,
                           'the corresponding class of invalid operations is accepted'))
    # generation only after resolve()?
    inner = ctx.fn('codegen', 'graphql_client_codegen::generate_module_token_stream_inner')
    if inner is not None:
        rs = H.find_calls(inner, [QMOD + '::resolve'])
        ts = [n for n in H.calls_in(inner) if n.get('k') == 'mcall' and n['method'] == 'to_token_stream' and ctx.pv.local_fns(n.get('callee'))]
        if not rs or not ts:
            obs.append(bad('VALIDATE-ORDER', 'floor/inner', 'anchor-missing: resolve()/to_token_stream() calls not found in the library entry', inner.loc))
        else:
            kind, _ = H.consumption(inner, rs[0])
            okp, why = H.precedes(inner, rs[0], ts[0])
            if kind == 'propagated' and okp:
                obs.append(ok('VALIDATE-ORDER', 'inner/resolve-before-codegen', 'resolve(..)? precedes code generation', rs[0].get('sp', '')))
            else:
                obs.append(bad('VALIDATE-ORDER', 'inner/resolve-before-codegen', 'code generation is reachable without a successful resolve(): %s/%s' % (kind, why),
                               rs[0].get('sp', ''), 'invalid operations yield code'))
    return obs


def _loop_skips(fn, loop, call):
    """`continue` / `break` / explicit `return` nodes of the loop (or iterator closure) body that can run before `call`
    in one iteration: any such node means that some elements do not reach the validator"""
    body = loop.get('body')
    if body is None and loop.get('k') == 'mcall':
        for a in loop.get('args', []):
            c = a
            while c.get('k') in ('wrap', 'ref'):
                c = c['e']
            if c.get('k') == 'closure':
                body = c.get('body')
    if body is None:
        return []
    out = []
    call_line = _pos(call)

    def rec(n, top):
        if not isinstance(n, dict):
            return
        k = n.get('k')
        if not top and k in ('closure', 'for', 'loop', 'while'):
            return
        if k in ('continue', 'break') or (k == 'ret' and not n.get('desugar')):
            if _pos(n) <= call_line:
                out.append(n)
        for v in n.values():
            if isinstance(v, dict):
                rec(v, False)
            elif isinstance(v, list):
                for x in v:
                    if isinstance(x, dict):
                        rec(x, False)
                    elif isinstance(x, (list, tuple)):
                        for y in x:
                            if isinstance(y, dict):
                                rec(y, False)
    rec(body, True)
    return out


def _pos(n):
    """(line, col) of a node's span start, for ordering nodes of one function body"""
    sp = n.get('sp', '')
    m = re.search(r':(\d+):(\d+)', sp)
    return (int(m.group(1)), int(m.group(2))) if m else (0, 0)


def _chain_methods(ctx, fn, e, depth=0):
    """method names along a receiver chain, following into workspace fns one level"""
    out = set()
    cur = e
    while cur is not None:
        k = cur.get('k')
        if k == 'mcall':
            out.add(cur['method'])
            lf = ctx.pv.local_fns(cur.get('callee'))
            if lf and depth < 2:
                for f in lf:
                    tail = f.body.get('expr') if f.body.get('k') == 'block' else f.body
                    if tail is not None:
                        out |= _chain_methods(ctx, f, tail, depth + 1)
            cur = cur['recv']
        elif k in ('wrap', 'ref'):
            cur = cur['e']
        elif k == 'call':
            lf = ctx.pv.local_fns(cur.get('callee'))
            if lf and depth < 2:
                for f in lf:
                    tail = f.body.get('expr') if f.body.get('k') == 'block' else f.body
                    if tail is not None:
                        out |= _chain_methods(ctx, f, tail, depth + 1)
            cur = None
        else:
            cur = None
    return out


KINDS = ['Object', 'Interface', 'Union', 'Scalar', 'Enum', 'Input']
COMPOSITE = {'Object', 'Interface', 'Union'}


def arm_for_kind(match_node, kind, enum_suffix='TypeId'):
    for i, a in enumerate(match_node['arms']):
        if pat_covers(P.pat_summary(a['pat']), kind):
            return i, a
    return None, None


def pat_covers(ps, kind):
    k = ps[0]
    if k in ('wild', 'bind'):
        return True
    if k == 'or':
        return any(pat_covers(p, kind) for p in ps[1])
    if k == 'ctor':
        return ps[1].split('::')[-1] == kind
    return False


def emptiness_checks(ctx, fn, body, depth=0):
    """[(polarity, node)] for `if [!]X.is_empty() { return Err }` below `body`, following workspace callees one level.
    polarity 'empty' = rejects when empty, 'nonempty' = rejects when non-empty"""
    out = []
    stack = [body]
    seen_fns = set()
    while stack:
        n = stack.pop()
        if isinstance(n, list):
            stack.extend(n)
            continue
        if not isinstance(n, dict):
            continue
        if n.get('k') == 'if' and (returns_err(n['then']) or (n.get('else') is not None and returns_err(n['else']))):
            t = ctx.pv.eval(fn, n['cond'], {}, 0)
            neg = 0
            x = t
            while x[0] == 'op' and x[1] == '!':
                neg += 1
                x = x[2][0]
            is_empty = x[0] == 'op' and x[1] == 'is_empty'
            len_zero = x[0] == 'op' and x[1] in ('==', '!=') and any(a[0] == 'op' and a[1] == 'len' for a in x[2]) and ('const', 0) in x[2]
            if is_empty or len_zero:
                empty_true = (neg % 2 == 0)
                if len_zero and x[1] == '!=':
                    empty_true = not empty_true
                then_rejects = returns_err(n['then'])
                rejects_when_empty = (empty_true and then_rejects) or ((not empty_true) and not then_rejects)
                out.append(('empty' if rejects_when_empty else 'nonempty', n))
        if n.get('k') in ('call', 'mcall') and depth < 1:
            for lf in ctx.pv.local_fns(n.get('callee')):
                if lf.key not in seen_fns:
                    seen_fns.add(lf.key)
                    out.extend(emptiness_checks(ctx, lf, lf.body, depth + 1))
        for key, v in n.items():
            if key.startswith('_'):
                continue
            if isinstance(v, (dict, list)):
                stack.append(v)
    return out


def rule_kind_matrix(ctx):
    obs = []
    fn = ctx.fn('codegen', QMOD + '::resolve_selection')
    if fn is None:
        return [bad('KIND-MATRIX', 'floor', 'anchor-missing: query::resolve_selection not found')]
    ms = [n for n in fn.walk(lambda n: n['k'] == 'match') if 'TypeId' in n['scrut'].get('ty', '')]
    if not ms:
        return [undecided('KIND-MATRIX', 'resolve_selection/shape', 'no match on the selected type kind found', fn.loc)]
    m = ms[0]
    for kind in KINDS:
        i, arm = arm_for_kind(m, kind)
        inst = 'resolve_selection/' + kind
        if arm is None:
            obs.append(bad('KIND-MATRIX', inst, 'kind %s has no arm' % kind, m.get('sp', '')))
            continue
        checks = emptiness_checks(ctx, fn, arm['body'])
        pols = {p for p, _ in checks}
        want = 'empty' if kind in COMPOSITE else 'nonempty'
        if want in pols:
            obs.append(ok('KIND-MATRIX', inst, '%s sub-selection is rejected for %s-typed fields' % ('an empty' if want == 'empty' else 'a non-empty', kind), m.get('sp', '')))
        else:
            obs.append(bad('KIND-MATRIX', inst, 'no path rejects %s sub-selection for a field of kind %s' % ('an empty' if want == 'empty' else 'a non-empty', kind),
                           arm['body'].get('sp', m.get('sp', '')),
                           'an %s field %s a sub-selection is turned into code' % (kind.lower(), 'without' if want == 'empty' else 'with')))
    return obs


def _parent_type_table(ctx, obs):
    """the type a selection is validated against is the type of its own parent: field -> the field's type, inline
    fragment -> its type condition, named fragment -> its `on`, operation -> the root object"""
    want = {'Field': 'StoredFieldType.id', 'InlineFragment': 'InlineFragment.type_id', 'Fragment': 'ResolvedFragment.on', 'Operation': 'ResolvedOperation.object_id'}
    cands = [f for f in ctx.crate('codegen').all_fns() if not f.from_macro and (f.d.get('impl_self') or '').endswith('SelectionParent')
             and f.d.get('output', '').endswith('schema::TypeId')]
    if not cands:
        obs.append(bad('COND-MATRIX', 'parent-type/floor', 'anchor-missing: no `SelectionParent -> TypeId` function found'))
        return
    f = cands[0]
    t = ctx.pv.eval(f, f.body, H.sym_env(f), 0)
    seen = {}
    for conds, leaf in P.leaves(t):
        if leaf[0] == 'diverge':
            continue
        kinds = [c[2][1].split('::')[-1] for c in conds if c[0] == 'match' and c[2][0] == 'ctor' and '::SelectionParent::' in c[2][1]]
        if not kinds:
            continue
        seen.setdefault(kinds[0], set()).update(x for x in TM.fields_in(leaf) if x in want.values())
    for k, w in want.items():
        inst = 'parent-type/' + k
        got = seen.get(k)
        if got is None:
            obs.append(undecided('COND-MATRIX', inst, 'no alternative of %s handles a %s parent' % (short(f.path), k), f.loc))
        elif got == {w}:
            obs.append(ok('COND-MATRIX', inst, 'a selection under a %s parent is validated against %s' % (k, w), f.loc))
        else:
            obs.append(bad('COND-MATRIX', inst, 'the type of a %s parent is taken from %s, expected %s' % (k, sorted(got) or 'elsewhere (the enclosing selection?)', w), f.loc,
                           'type conditions nested under it are checked against the wrong type: impossible conditions are accepted'))


def rule_cond_matrix(ctx):
    obs = []
    _parent_type_table(ctx, obs)
    fn = ctx.fn('codegen', QMOD + '::selection::validate_type_conditions')
    if fn is None:
        return obs + [bad('COND-MATRIX', 'floor', 'anchor-missing: validate_type_conditions not found')]
    ms = [n for n in fn.walk(lambda n: n['k'] == 'match') if 'TypeId' in n['scrut'].get('ty', '')]
    # the match on the *parent* kind is the one whose arms contain rejecting returns
    cand = [m for m in ms if any(_contains_err_return(a['body']) for a in m['arms'])]
    if not cand:
        return obs + [undecided('COND-MATRIX', 'validate_type_conditions/shape', 'no kind-dispatching match with rejecting arms', fn.loc)]
    m = cand[0]
    for kind in ('Union', 'Interface', 'Object'):
        i, arm = arm_for_kind(m, kind)
        inst = 'validate_type_conditions/parent-' + kind
        if arm is None:
            obs.append(bad('COND-MATRIX', inst, 'no arm for parent kind %s' % kind, m.get('sp', ''), 'impossible type conditions accepted'))
        elif _contains_err_return(arm['body']):
            # a condition naming *another concrete object* can never apply (the equal type was accepted before): whatever
            # decides "applies" must say no for it
            accepts_other_object = None
            if kind == 'Object':
                for n_ in _walk(arm['body']):
                    if n_.get('k') == 'if' and _contains_err_return(n_['then']):
                        try:
                            t_ = ctx.pv.eval(fn, n_['cond'], H.sym_env(fn), 0)
                        except Exception:
                            continue
                        _x, c_, pol_ = P.canon_if(t_, True)
                        if c_[0] == 'match':
                            for pat_, val_ in c_[2]:
                                ks_ = repr(pat_)
                                is_other = (pat_[0] in ('wild', 'bind')) or ('TypeId::Object' in ks_)
                                if is_other and val_[0] == 'const' and isinstance(val_[1], bool):
                                    # the error is returned when the condition (with polarity) holds
                                    rejected = (val_[1] == pol_)
                                    if not rejected:
                                        accepts_other_object = n_
            if accepts_other_object is not None:
                obs.append(bad('COND-MATRIX', inst, 'for an object parent a type condition naming another concrete type is accepted (the fallback of the "applies" decision is true)',
                               accepts_other_object.get('sp', m.get('sp', '')), '`... on Droid` inside a `Human` selection is turned into code'))
            else:
                obs.append(ok('COND-MATRIX', inst, 'a type condition that cannot apply to a %s parent is rejected' % kind, m.get('sp', '')))
        else:
            obs.append(bad('COND-MATRIX', inst, 'parent kind %s falls into an arm that accepts every type condition' % kind,
                           arm['body'].get('sp', m.get('sp', '')), '`... on Droid` inside a `Human` selection is turned into code'))
    # a rejecting guard of the form `!xs.filter(p).all(q)` accepts whenever nothing passes the filter (`all` of an empty
    # iterator is true): a type condition of a kind the filter never yields slips through
    for n_ in _walk(m):
        if n_.get('k') == 'if' and _contains_err_return(n_['then']):
            for x_ in H.walk_through_locals(fn, n_['cond'], depth=5):
                if x_.get('k') == 'mcall' and x_['method'] == 'all':
                    chain = set()
                    for y_ in H.walk_through_locals(fn, x_['recv'], depth=5):
                        if y_.get('k') == 'mcall':
                            chain.add(y_['method'])
                    if chain & {'filter', 'filter_map', 'skip_while', 'take_while', 'take', 'skip'}:
                        obs.append(bad('COND-MATRIX', 'validate_type_conditions/vacuous-all', 'the rejecting test is `!..%s(..).all(..)`: true for an empty selection, so the error is not raised when nothing passes the filter' % sorted(chain & {'filter', 'filter_map', 'skip_while', 'take_while', 'take', 'skip'})[0],
                                       x_.get('sp', n_.get('sp', '')), 'a type condition naming a union / another interface under an interface parent is accepted'))
    # equal types are accepted early; selections without a type condition are skipped
    return obs


def _contains_err_return(e):
    stack = [e]
    while stack:
        n = stack.pop()
        if isinstance(n, list):
            stack.extend(n)
        elif isinstance(n, dict):
            if n.get('k') == 'ret' and is_err_ctor(n.get('e')):
                return True
            for key, v in n.items():
                if isinstance(v, (dict, list)) and not key.startswith('_'):
                    stack.append(v)
    return False


def rule_typename_matrix(ctx):
    obs = []
    fn = ctx.fn('codegen', QMOD + '::validation::validate_typename_presence')
    if fn is None:
        return [bad('TYPENAME-MATRIX', 'floor', 'anchor-missing: validate_typename_presence not found')]
    # the validator and the private helpers it is split into
    from .rules_hir import callgraph
    cg_ = callgraph(ctx)
    family = [fn] + [f_ for f_ in (ctx.fn_by_key(k_) for k_ in sorted(cg_.reachable([fn.key])) if k_ != fn.key)
                     if f_ is not None and not f_.from_macro and norm_path(f_.path).startswith(QMOD + '::validation')]
    # conditional Err returns guarded by a negated call of a workspace bool predicate
    guards = []
    for f_ in family:
        for n in f_.walk(lambda n: n['k'] == 'if'):
            if not returns_err(n['then']):
                continue
            c = n['cond']
            neg = False
            while c.get('k') in ('unary', 'wrap'):
                if c.get('k') == 'unary' and c.get('op') == '!':
                    neg = not neg
                c = c['e']
            if c.get('k') == 'call' and ctx.pv.local_fns(c.get('callee')) and neg:
                guards.append((n, c, f_))
    # the same decision spelled `if pred(..) { continue } return Err(..)`: an Err return whose path conditions contain
    # "the predicate was false"
    seen_calls = {id(c) for _n, c, _f in guards}
    for f_ in family:
        for r_ in f_.walk(lambda n: n['k'] == 'ret' and is_err_ctor(n.get('e'))):
            for pc in P.path_conds(f_, r_):
                if pc[0] != 'if' or not isinstance(pc[2], bool):
                    continue
                c = pc[1]
                pol = pc[2]
                while isinstance(c, dict) and c.get('k') in ('unary', 'wrap'):
                    if c.get('k') == 'unary' and c.get('op') == '!':
                        pol = not pol
                    c = c['e']
                if isinstance(c, dict) and c.get('k') == 'call' and ctx.pv.local_fns(c.get('callee')) and pol is False and id(c) not in seen_calls:
                    lf_ = ctx.pv.local_fns(c.get('callee'))
                    if lf_ and lf_[0].d.get('output', '') == 'bool':
                        seen_calls.add(id(c))
                        guards.append((r_, c, f_))
    roles = {}
    guard_fn = {}
    for n, c, f_ in guards:
        args = [ctx.pv.eval(f_, a, {}, 0) for a in c['args']]
        fields = set()
        for a in args:
            fields |= TM.fields_in(a) | ctx.pv.fields_through_private(a)
        if 'ResolvedFragment.selection_set' in fields or 'ResolvedFragment.on' in fields:
            roles['fragment'] = n
            guard_fn['fragment'] = f_
        if 'SelectedField.selection_set' in fields or 'Query.selections' in fields:
            roles['field'] = n
            guard_fn['field'] = f_
    for r, what in (('fragment', 'named fragments on interface/union types'), ('field', 'fields of interface/union type')):
        if r in roles:
            obs.append(ok('TYPENAME-MATRIX', 'validate_typename_presence/' + r, '__typename required on ' + what, roles[r].get('sp', '')))
        else:
            obs.append(bad('TYPENAME-MATRIX', 'validate_typename_presence/' + r, 'no rejecting check of __typename presence for ' + what, fn.loc,
                           'an abstract selection without __typename is turned into code that cannot pick a variant'))
    # the streams the checks run over are not thinned out by content: an adaptor between `selections()` / `fragments` and the
    # check may select by kind (the `filter_map` over Selection / TypeId variants), never by what the selection contains
    CONTENT = {'SelectedField.selection_set', 'InlineFragment.selection_set', 'ResolvedFragment.selection_set', 'SelectedField.alias',
               'SelectedField.field_id', 'ResolvedFragment.name'}
    nstreams = 0
    for f_ in family:
        for n in f_.walk(lambda n: n['k'] == 'mcall' and n['method'] in ('filter', 'skip_while', 'take_while', 'take', 'skip', 'step_by')):
            try:
                rt = ctx.pv.eval(f_, n['recv'], {}, 0)
            except Exception:
                continue
            src = TM.fields_in(rt) & {'Query.selections', 'Query.fragments'}
            if not src:
                continue
            nstreams += 1
            inst = 'validate_typename_presence/stream-%s-%s' % (n['method'], '+'.join(sorted(src)))
            if n['method'] != 'filter':
                obs.append(bad('TYPENAME-MATRIX', inst, 'the checked stream over %s is cut by `%s`' % (sorted(src), n['method']), n.get('sp', ''),
                               'some abstract selections are never checked for __typename'))
                continue
            reads = set()
            for a in n.get('args', []):
                c = a
                while c.get('k') in ('wrap', 'ref'):
                    c = c['e']
                if c.get('k') == 'closure':
                    try:
                        bt = ctx.pv.eval(f_, c['body'], H.sym_env(f_), 0)
                        reads |= TM.fields_in(bt)
                    except Exception:
                        reads.add('?')
                else:
                    reads.add('?')
            hit = sorted((reads & CONTENT) | ({'?'} & reads))
            if hit:
                obs.append(bad('TYPENAME-MATRIX', inst, 'the checked stream is filtered by content (%s), not by kind' % hit, n.get('sp', ''),
                               'abstract selections the filter drops may omit __typename'))
            else:
                obs.append(ok('TYPENAME-MATRIX', inst, 'filter reads no selection content', n.get('sp', '')))
    # .. and the loops of the check run to the end: a `break` (or an early `return Ok`) in the kind-selecting position ends
    # the check for everything that follows
    for f_ in family:
        for lp in f_.walk(lambda n: n['k'] == 'for'):
            try:
                it_ = ctx.pv.eval(f_, lp['iter'], H.sym_env(f_), 0)
            except Exception:
                continue
            src = TM.fields_in(it_) & {'Query.selections', 'Query.fragments'}
            if not src:
                continue
            stops = []
            for x in _walk(lp['body']):
                if x['k'] == 'break':
                    near = None
                    for p_, r_, c_ in f_.ancestors(x):
                        if p_.get('k') in ('for', 'loop', 'while'):
                            near = p_
                            break
                    if near is lp:
                        stops.append(x)
                elif x['k'] == 'ret' and not returns_err(x):
                    stops.append(x)
            inst = 'validate_typename_presence/loop-%s' % '+'.join(sorted(src))
            if stops:
                obs.append(bad('TYPENAME-MATRIX', inst, 'the loop over %s can stop early (`%s`) without an error' % (sorted(src), stops[0]['k']), stops[0].get('sp', ''),
                               'abstract selections after the first skipped element are never checked for __typename'))
            else:
                obs.append(ok('TYPENAME-MATRIX', inst, 'the loop visits every element (skips are `continue`s, exits are errors)', lp.get('sp', '')))
    # both abstract kinds are covered where kinds are filtered: each rejecting check is reachable for a parent of kind
    # Interface and for one of kind Union (path conditions evaluated with the TypeId kind as the only known atom)
    def pat_kinds(p):
        """TypeId kinds a pattern matches (None: the pattern is not about TypeId / matches anything)"""
        if not isinstance(p, tuple) or not p:
            return None
        if p[0] == 'or':
            ks = [pat_kinds(x) for x in p[1]]
            if any(k is None for k in ks):
                return None
            out = set()
            for k in ks:
                out |= k
            return out
        if p[0] == 'ctor' and '::TypeId::' in p[1]:
            return {p[1].split('::')[-1]}
        if p[0] == 'guarded':
            return pat_kinds(p[1])
        if p[0] == 'bind' and len(p) > 2 and isinstance(p[2], tuple):
            return pat_kinds(p[2])
        return None

    def excluded(f_, node, kind):
        """is `node` unreachable when the TypeId tested on the way is of `kind`?"""
        for pc in P.path_conds(f_, node):
            if pc[0] == 'if':
                t = ctx.pv.eval(f_, pc[1], H.sym_env(f_), 0)
                _x, c, pol = P.canon_if(t, pc[2])
                if c[0] == 'op' and c[1] == 'matches' and c[2][-1][0] == 'pat':
                    ks = pat_kinds(c[2][-1][1])
                    if ks is not None and ((kind in ks) != pol):
                        return True
            elif pc[0] in ('match', 'letelse'):
                ks = pat_kinds(pc[2])
                if ks is not None and kind not in ks:
                    return True
            elif pc[0] == 'nomatch':
                ks = pat_kinds(pc[2])
                if ks is not None and kind in ks:
                    return True
        return False
    n_sel = {}
    for kind in ('Interface', 'Union'):
        n_sel[kind] = sum(1 for r in ('fragment', 'field') if r in roles and not excluded(guard_fn[r], roles[r], kind))
    pats = []
    for f_ in family:
        for n in f_.walk(lambda n: n['k'] == 'match'):
            for a in n['arms']:
                pats.append(repr(P.pat_summary(a['pat'])))
    txt = ' '.join(pats)
    for kind in ('Interface', 'Union'):
        cnt = max(txt.count('TypeId::' + kind), n_sel[kind] if txt.count('TypeId::' + kind) >= 1 else 0)
        if cnt >= 2:
            obs.append(ok('TYPENAME-MATRIX', 'validate_typename_presence/kind-' + kind, '%s positions selected in both checks' % kind, fn.loc))
        else:
            obs.append(bad('TYPENAME-MATRIX', 'validate_typename_presence/kind-' + kind, 'kind %s is filtered in %d of 2 checks' % (kind, cnt), fn.loc,
                           '%s selections may omit __typename' % kind.lower()))
    return obs


def rule_roots(ctx):
    obs = []
    fn = ctx.fn('codegen', QMOD + '::create_roots')
    if fn is None:
        return [bad('ROOTS', 'floor', 'anchor-missing: create_roots not found')]
    arms = {}
    for m in fn.walk(lambda n: n['k'] == 'match'):
        for a in m['arms']:
            ps = repr(P.pat_summary(a['pat']))
            for kind in ('Subscription', 'Mutation', 'Query', 'SelectionSet'):
                if 'OperationDefinition::' + kind in ps:
                    arms[kind] = a
    # anonymous selection set rejected
    a = arms.get('SelectionSet')
    if a is None:
        obs.append(bad('ROOTS', 'create_roots/anonymous', 'no arm for anonymous `{ .. }` operations', fn.loc, 'anonymous operation accepted'))
    elif returns_err(a['body']) or P.diverges(a['body']):
        obs.append(ok('ROOTS', 'create_roots/anonymous', 'anonymous operation -> error', a['body'].get('sp', '')))
    else:
        obs.append(bad('ROOTS', 'create_roots/anonymous', 'anonymous operation arm does not reject', a['body'].get('sp', ''), 'anonymous operation accepted'))
    # subscription: exactly one root field
    a = arms.get('Subscription')
    if a is None:
        obs.append(bad('ROOTS', 'create_roots/subscription-single', 'no subscription arm', fn.loc))
    else:
        good = False
        for n in _walk(a['body']):
            if n.get('k') == 'if' and returns_err(n['then']):
                t = ctx.pv.eval(fn, n['cond'], {}, 0)
                if t[0] == 'op' and t[1] == '!=' and ('const', 1) in t[2] and any(x[0] == 'op' and x[1] == 'len' for x in t[2]):
                    good = True
                if t[0] == 'op' and t[1] in ('>', '<') and any(x[0] == 'op' and x[1] == 'len' for x in t[2]):
                    good = good or False
        if good:
            obs.append(ok('ROOTS', 'create_roots/subscription-single', 'subscription with != 1 root fields -> error', a['body'].get('sp', '')))
        else:
            obs.append(bad('ROOTS', 'create_roots/subscription-single', 'no `len() != 1 -> Err` check in the subscription arm', a['body'].get('sp', ''),
                           'several root fields in a subscription are accepted'))
    # names
    for kind in ('Query', 'Mutation', 'Subscription'):
        a = arms.get(kind)
        if a is None:
            obs.append(bad('ROOTS', 'create_roots/name-' + kind, 'no %s arm' % kind, fn.loc))
            continue
        named = False
        for n in _walk(a['body']):
            if n.get('k') == 'mcall' and n['method'] in ('expect', 'unwrap', 'ok_or_else', 'ok_or'):
                r = n['recv']
                while r.get('k') == 'mcall' and r['method'] in ('as_ref', 'as_deref', 'clone'):
                    r = r['recv']
                if r.get('k') == 'field' and r['name'] == 'name':
                    named = True
        if named:
            obs.append(ok('ROOTS', 'create_roots/name-' + kind, 'unnamed %s -> panic with message / error' % kind.lower(), a['body'].get('sp', '')))
        else:
            obs.append(bad('ROOTS', 'create_roots/name-' + kind, 'operation name of a %s is not required' % kind.lower(), a['body'].get('sp', ''),
                           'an unnamed operation is accepted'))
    # union selections: only __typename as a field
    un = ctx.fn('codegen', QMOD + '::resolve_union_selection')
    if un is None:
        obs.append(bad('UNION-FIELDS', 'floor', 'anchor-missing: resolve_union_selection not found'))
    else:
        good = False
        for n in un.walk(lambda n: n['k'] == 'if'):
            t = ctx.pv.eval(un, n['cond'], {}, 0)
            if t[0] == 'op' and t[1] in ('==', '!='):
                mentions = any(x[0] == 'global' and x[1].endswith('TYPENAME_FIELD') or x == ('const', '__typename') for x in t[2])
                rej = n['else'] if t[1] == '==' else n['then']
                if mentions and rej is not None and returns_err(rej):
                    good = True
        if good:
            obs.append(ok('UNION-FIELDS', 'resolve_union_selection/field', 'any field other than __typename on a union -> error', un.loc))
        else:
            obs.append(bad('UNION-FIELDS', 'resolve_union_selection/field', 'fields other than __typename are not rejected on union selections', un.loc,
                           'a field the union does not have is accepted'))
    return obs


def _walk(e):
    stack = [e]
    while stack:
        n = stack.pop()
        if isinstance(n, list):
            stack.extend(n)
        elif isinstance(n, dict):
            if 'k' in n:
                yield n
            for key, v in n.items():
                if isinstance(v, (dict, list)) and not key.startswith('_'):
                    stack.append(v)


RULES = [rule_lookup_checked, rule_err_propagated, rule_validators_dominate, rule_kind_matrix, rule_cond_matrix,
         rule_typename_matrix, rule_roots]
