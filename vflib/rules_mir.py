"""Thorough tier: the ordering obligations decided on the MIR control-flow graph.

The quick tier decides "A happens only after B succeeded" structurally on the HIR (hirx.precedes).  Here the same
obligations are decided on the compiler's lowered CFG with real dominators: an `?` is the switch on
`Try::branch`, its *Continue* successor is the block that exists only when the call succeeded, and "the write
happens only after success" is `Continue-block dominates write-block`.  Violations come with a witness path
(source spans of the blocks of a path that reaches the write while avoiding the success block).

Rules (all are necessary conditions of the named property, independent of how the source spells the control flow):
  MIR-WRITE-AFTER-GEN  (C19)  generate: every file-creating call is dominated by the success edge of
                              generate_module_token_stream(..)? and, when rustfmt runs, no path from the rustfmt call
                              reaches the write without passing its success edge.
  MIR-WRITE-AFTER-OK   (C20)  introspect-schema: every file-creating / JSON-writing call is dominated by the success
                              edges of send()?, of `status.is_success()` (true edge) and of response.json()?.
  MIR-VALIDATE         (C06)  query::resolve: no path from entry to a non-error return avoids the success edge of a
                              validator; library entry: to_token_stream is dominated by the success edge of resolve()?.
  MIR-VISITED          (C17, C12) recursive descents through a pool (fragments / input types): the recursive call is
                              dominated by the "not yet visited" edge of a visited-set test (contains -> false edge,
                              insert -> true edge).
"""
from . import hirx as H
from .core import ok, bad, undecided, short
from .facts import norm_path
from .mirx import MirFn

REGISTRY = []


def rule(*ids):
    def deco(fn):
        REGISTRY.append((fn, ids))
        return fn
    return deco


def mirfn(ctx, crate, suffix):
    c = ctx.prog.crates.get(crate)
    if c is None:
        return None
    for p, l in c.mir.items():
        if norm_path(p).endswith(suffix) and '{closure' not in p:
            return MirFn(l[0])
    return None


def witness(m, path, limit=8):
    sps = []
    for b in path:
        s = m.sp(b)
        if s and (not sps or sps[-1] != s):
            sps.append(s)
    if len(sps) > limit:
        sps = sps[:limit // 2] + ['...'] + sps[-limit // 2:]
    return ' -> '.join(sps)


FS_CREATE = ('fs::File::create', 'fs::write', 'fs::OpenOptions::open', 'fs::File::create_new')


def fs_creates(m):
    return m.calls(lambda names, t: any(n.endswith(FS_CREATE) for n in names if n))


def through_helpers(ctx, crate, pred):
    """predicate on call terminators: the call satisfies `pred` itself, or calls a function of the crate whose own body
    (transitively) contains such a call — the effect sits in a helper the function was split into"""
    c = ctx.prog.crates[crate]
    mirs = {}
    for p, l in c.mir.items():
        if '{closure' in p:
            continue
        mirs[norm_path(p)] = MirFn(l[0])
    hit = {p for p, m in mirs.items() if m.calls(pred)}
    changed = True
    while changed:
        changed = False
        for p, m in mirs.items():
            if p in hit:
                continue
            if m.calls(lambda names, t: any(norm_path(n).split('::<')[0] in hit for n in names if n)):
                hit.add(p)
                changed = True

    def wide(names, t):
        return pred(names, t) or any(norm_path(n).split('::<')[0] in hit for n in names if n)
    return wide, hit, mirs


def is_direct(m, bb, pred):
    t = m.blocks[bb]['term']
    return pred([t.get('fn') or '', t.get('resolved') or ''], t)


def dominated_by_success(m, call_bb, targets, what, rule_id, inst, obs, how='try'):
    """every block of `targets` is dominated by the success successor of the call in call_bb"""
    edges = m.try_edges(call_bb) if how == 'try' else m.bool_edges(call_bb)
    if edges is None:
        obs.append(undecided(rule_id, inst, 'the result of %s is not consumed by %s in a recognised way' % (what, '`?`' if how == 'try' else 'a branch'), m.sp(call_bb)))
        return
    succ_bb = edges[0]
    for tb in targets:
        if m.dominates(succ_bb, tb):
            continue
        p = m.path_avoiding(0, tb, avoid={succ_bb})
        obs.append(bad(rule_id, inst, 'a path reaches %s without passing the success edge of %s: %s' % (m.sp(tb), what, witness(m, p or [tb])), m.sp(tb),
                       'the effect happens although %s failed' % what))
        return
    obs.append(ok(rule_id, inst, 'the success edge of %s (bb%d) dominates %d later effect(s)' % (what, succ_bb, len(targets)), m.sp(call_bb)))


@rule('MIR-WRITE-AFTER-GEN')
def rule_mir_generate(ctx):
    obs = []
    m = mirfn(ctx, 'cli', 'generate::generate_code')
    if m is None:
        return [bad('MIR-WRITE-AFTER-GEN', 'floor', 'anchor-missing: MIR of generate::generate_code not found')]
    p_create = lambda names, t: any(n.endswith(FS_CREATE) for n in names if n)
    p_gen = lambda names, t: any(n.endswith('graphql_client_codegen::generate_module_token_stream') for n in names if n)
    w_create, _h1, mirs = through_helpers(ctx, 'cli', p_create)
    w_gen, _h2, _m2 = through_helpers(ctx, 'cli', p_gen)
    # the function may have been split: both effects are looked for through its helpers; if one helper contains both,
    # the question is asked inside that helper
    for _level in range(4):
        writes = m.calls(w_create)
        gens = m.calls(w_gen)
        if writes and gens and set(writes) == set(gens) and len(writes) == 1:
            t_ = m.blocks[writes[0]]['term']
            inner = [mirs.get(norm_path(n).split('::<')[0]) for n in (t_.get('fn') or '', t_.get('resolved') or '') if n]
            inner = [x for x in inner if x is not None]
            if inner:
                m = inner[0]
                continue
        break
    if not writes or not gens:
        return [bad('MIR-WRITE-AFTER-GEN', 'floor', 'anchor-missing: %d file creations, %d library calls in the MIR of generate_code (helpers included)' % (len(writes), len(gens)))]
    dominated_by_success(m, gens[0], writes, 'generate_module_token_stream(..)', 'MIR-WRITE-AFTER-GEN', 'generate/generation', obs)
    # must-pass-through: no path from the entry to a non-error return avoids the file creation
    errs = m.error_blocks()
    badp = None
    for r in m.returns():
        p = m.path_avoiding(0, r, avoid=set(writes) | errs)
        if p:
            badp = p
            break
    if badp:
        obs.append(bad('MIR-WRITE-AFTER-GEN', 'generate/write-on-success', 'a path returns successfully without creating the file: %s' % witness(m, badp), m.sp(badp[-1]),
                       'the command exits 0 although `<stem>.rs` was not written'))
    else:
        obs.append(ok('MIR-WRITE-AFTER-GEN', 'generate/write-on-success', 'every path to a non-error return passes through the file creation (%d returns, %d error blocks)' % (len(m.returns()), len(errs)), m.sp(writes[0])))
    fmts = m.calls_named('generate::format')
    for i, f in enumerate(fmts):
        e = m.try_edges(f)
        inst = 'generate/rustfmt#%d' % (i + 1)
        if e is None:
            obs.append(undecided('MIR-WRITE-AFTER-GEN', inst, 'the result of format(..) is not consumed by `?` in a recognised way', m.sp(f)))
            continue
        badp = None
        for w in writes:
            p = m.path_avoiding(f, w, avoid={e[0]})
            if p:
                badp = (w, p)
                break
        if badp:
            obs.append(bad('MIR-WRITE-AFTER-GEN', inst, 'after rustfmt ran, the file is created on a path that does not pass its success edge: %s' % witness(m, badp[1]), m.sp(badp[0]),
                           'a rustfmt failure still writes a file'))
        else:
            obs.append(ok('MIR-WRITE-AFTER-GEN', inst, 'every path from the rustfmt call to the file creation passes its success edge', m.sp(f)))
    return obs


@rule('MIR-WRITE-AFTER-OK')
def rule_mir_introspect(ctx):
    obs = []
    m = mirfn(ctx, 'cli', 'introspection_schema::introspect_schema')
    if m is None:
        return [bad('MIR-WRITE-AFTER-OK', 'floor', 'anchor-missing: MIR of introspect_schema not found')]
    p_create = lambda names, t: any(n.endswith(FS_CREATE) for n in names if n)
    p_writer = lambda names, t: any('serde_json' in n and n.split('<')[0].endswith(('to_writer_pretty', 'to_writer')) for n in names if n)
    p_send = lambda names, t: any(n.endswith('RequestBuilder::send') for n in names if n)
    p_succ = lambda names, t: any(n.endswith('StatusCode::is_success') for n in names if n)
    p_json = lambda names, t: any(n.split('<')[0].endswith('Response::json') or n.endswith('Response::json') for n in names if n)
    wide = {k: through_helpers(ctx, 'cli', p)[0] for k, p in (('create', p_create), ('writer', p_writer), ('send', p_send), ('succ', p_succ), ('json', p_json))}
    creates = m.calls(wide['create'])
    writers = m.calls(wide['writer'])
    effects = sorted(set(creates + writers))
    sends = m.calls(wide['send'])
    succ = m.calls(wide['succ'])
    jsons = m.calls(wide['json'])
    if not effects or not sends or not succ or not jsons:
        return [bad('MIR-WRITE-AFTER-OK', 'floor', 'anchor-missing: effects=%d send=%d is_success=%d json=%d in the MIR of introspect_schema (helpers included)' % (len(effects), len(sends), len(succ), len(jsons)))]
    # a guard that lives in a helper (`ensure_success(&res)?`) is consumed by `?` at its call site
    eff = lambda b: [x for x in effects if x != b]
    dominated_by_success(m, sends[0], eff(sends[0]), 'send()', 'MIR-WRITE-AFTER-OK', 'introspect/send', obs)
    dominated_by_success(m, succ[0], eff(succ[0]), 'status().is_success()', 'MIR-WRITE-AFTER-OK', 'introspect/status', obs,
                         how='bool' if is_direct(m, succ[0], p_succ) else 'try')
    dominated_by_success(m, jsons[0], eff(jsons[0]), 'response.json()', 'MIR-WRITE-AFTER-OK', 'introspect/json', obs)
    return obs


@rule('MIR-VALIDATE')
def rule_mir_validate(ctx):
    obs = []
    m = mirfn(ctx, 'codegen', 'graphql_client_codegen::query::resolve')
    fn = ctx.fn('codegen', 'graphql_client_codegen::query::resolve')
    if m is None or fn is None:
        return [bad('MIR-VALIDATE', 'floor', 'anchor-missing: MIR of query::resolve not found')]
    # validators = workspace fns returning Result<(), QueryValidationError>
    vnames = set()
    for n in H.calls_in(fn):
        lf = ctx.pv.local_fns(n.get('callee'))
        if lf and 'QueryValidationError' in lf[0].d.get('output', '') and lf[0].d.get('output', '').startswith('std::result::Result<()'):
            vnames.add(norm_path(lf[0].path))
    errs = m.error_blocks()
    rets = m.returns()
    nval = 0
    seen = {}
    for vb in m.calls(lambda names, t: any(norm_path(n) in vnames for n in names if n)):
        nval += 1
        nm = short(norm_path(m.blocks[vb]['term'].get('fn', '?')))
        seen[nm] = seen.get(nm, 0) + 1
        inst = 'resolve/%s#%d' % (nm, seen[nm])
        e = m.try_edges(vb)
        if e is None:
            obs.append(bad('MIR-VALIDATE', inst, 'the validator\'s result is not consumed by `?`', m.sp(vb), 'a detected invalid operation still yields code'))
            continue
        # a validator inside a loop is judged on the loop: after its Break edge nothing but the error return is reachable
        after_break = m.reachable_from(e[1])
        leak = [r for r in rets if r in after_break and m.path_avoiding(e[1], r, avoid=errs - {e[1]}) is not None and e[1] not in errs]
        if leak:
            obs.append(bad('MIR-VALIDATE', inst, 'the failure edge of the validator reaches a return without converting the error', m.sp(vb), 'the error is swallowed'))
        else:
            obs.append(ok('MIR-VALIDATE', inst, 'failure edge -> error return only (Continue bb%d / Break bb%d)' % (e[0], e[1]), m.sp(vb)))
    # success returns: reachable without entering an error block; each must be dominated by the call block of every
    # validator that is not inside a loop body (a loop may legitimately run zero times)
    ok_rets = [r for r in rets if m.path_avoiding(0, r, avoid=errs) is not None]
    for vb in m.calls(lambda names, t: any(norm_path(n) in vnames for n in names if n)):
        nm = short(norm_path(m.blocks[vb]['term'].get('fn', '?')))
        in_loop = vb in m.reachable_from(m.blocks[vb]['term'].get('target')) if m.blocks[vb]['term'].get('target') is not None else False
        inst = 'resolve/%s/on-success-path' % nm
        if in_loop:
            continue
        missing = None
        for r in ok_rets:
            p = m.path_avoiding(0, r, avoid=errs | {vb})
            if p:
                missing = p
        if missing:
            obs.append(bad('MIR-VALIDATE', inst, 'a success return is reachable without running this validator: %s' % witness(m, missing), m.sp(vb),
                           'a path returns Ok without having validated'))
        else:
            obs.append(ok('MIR-VALIDATE', inst, 'every non-error return passes through the validator call', m.sp(vb)))
    if nval < 3:
        obs.append(bad('MIR-VALIDATE', 'floor', 'anchor-missing: %d validator calls in the MIR of resolve (expected >= 3)' % nval))
    # library entry: generation after resolve()?
    mi = mirfn(ctx, 'codegen', 'graphql_client_codegen::generate_module_token_stream_inner')
    if mi is not None:
        rs = mi.calls_named('graphql_client_codegen::query::resolve')
        ts = mi.calls(lambda names, t: any('GeneratedModule' in n and n.endswith('::to_token_stream') for n in names if n))
        if not ts:
            # the per-operation generation may sit in a closure (iterator map): then the collect call stands for it
            ts = mi.calls(lambda names, t: any(n.endswith('Iterator::collect') or n.endswith('iter::Iterator::collect') for n in names if n) and 'TokenStream' in (t.get('gargs') or ''))
        if rs and ts:
            dominated_by_success(mi, rs[0], ts, 'query::resolve(..)', 'MIR-VALIDATE', 'inner/resolve-before-codegen', obs)
        else:
            obs.append(undecided('MIR-VALIDATE', 'inner/resolve-before-codegen', 'resolve()/to_token_stream() calls not found in the MIR of the library entry (%d/%d)' % (len(rs), len(ts)), ''))
    return obs


VISITED_TESTS = ('BTreeSet<T, A>::contains', 'BTreeSet<T, A>::insert', 'HashSet<T, S>::contains', 'HashSet<T, S>::insert',
                 'BTreeSet<T>::contains', 'BTreeSet<T>::insert')


@rule('MIR-VISITED')
def rule_mir_visited(ctx):
    """recursive calls that follow a reference into a pool (fragment spreads, input-type references) sit on the
    not-yet-visited edge of a visited-set test, in the body (fn or closure) that makes the call"""
    obs = []
    # targets: the functions of recursive call-graph components that thread a visited set (found on the HIR, by type)
    from .rules_hir import callgraph, walk
    cg = callgraph(ctx)
    targets = {}
    members = {}
    for comp in cg.sccs():
        comp_suffixes = set()
        for key in comp:
            f = ctx.fn_by_key(key)
            if f is not None:
                comp_suffixes.add(norm_path(f.path).split('graphql_client_codegen::', 1)[-1])
        for key in sorted(comp):
            f = ctx.fn_by_key(key)
            if f is not None:
                members[norm_path(f.path).split('graphql_client_codegen::', 1)[-1]] = comp_suffixes
        for key in sorted(comp):
            f = ctx.fn_by_key(key)
            if f is None or f.from_macro or not key.startswith('codegen::'):
                continue
            if any(n['k'] == 'mcall' and n['method'] in ('contains', 'insert') and any(x in (n['recv'].get('ty', '') + n['recv'].get('aty', '')) for x in ('BTreeSet', 'HashSet'))
                   for n in walk(f.body)):
                targets[norm_path(f.path).split('graphql_client_codegen::', 1)[-1]] = 'pool of mutually referring definitions'
    if len(targets) < 3:
        obs.append(bad('MIR-VISITED', 'floor', 'anchor-missing: only %d recursive functions thread a visited set (expected >= 3: fragment recursion, input recursion, used inputs, __typename search)' % len(targets)))
    c = ctx.prog.crates['codegen']
    n_ok = 0
    for suffix, pool in targets.items():
        items = [(p, MirFn(l[0])) for p, l in c.mir.items() if norm_path(p).split('::{closure')[0].endswith(suffix)]
        if not items:
            obs.append(bad('MIR-VISITED', 'floor/' + suffix.split('::')[-1], 'anchor-missing: MIR of %s not found' % suffix))
            continue
        parent = [m for p, m in items if '{closure' not in p]
        parent = parent[0] if parent else None
        # a recursive call = a call of any function of the same call-graph component (mutual recursion through helpers)
        comp_sfx = tuple(sorted(members.get(suffix, {suffix})))
        is_rec = lambda names, t, comp_sfx=comp_sfx: any(norm_path(n).split('::{closure')[0].endswith(comp_sfx) for n in names if n)
        is_test = lambda names, t: any(n.split('::')[-1] in ('contains', 'insert') and ('BTreeSet' in n or 'HashSet' in n) for n in names if n)
        # sites: (body, block) of every recursive call; a call inside a closure is represented by the block of the
        # parent body that builds that closure (the closure runs only if that block is reached)
        sites = []
        for p, m in items:
            recs = m.calls(is_rec)
            if '{closure' not in p:
                sites += [(m, rb, m.sp(rb)) for rb in recs]
            elif recs and m.calls(is_test):
                # the closure tests the visited set itself
                sites += [(m, rb, m.sp(rb)) for rb in recs]
            elif recs and parent is not None:
                tag = p[p.index('{closure'):].split('::')[0]
                base = suffix.split('::')[-1] + '::' + tag
                for i, blk in enumerate(parent.blocks):
                    if blk['cleanup'] or i not in parent.reach0:
                        continue
                    if any(st['rk'] == 'agg' and st.get('kind', '').startswith('Closure(') and base in st.get('kind', '') for st in blk['stmts']):
                        sites += [(parent, i, m.sp(rb)) for rb in recs]
        n_target_ok = 0
        k = 0
        for m, rb, sp in sites:
            k += 1
            inst = '%s#%d' % (suffix.split('::')[-1], k)
            tests = m.calls(is_test)
            guarded = None
            for tb in tests:
                e = m.bool_edges(tb)
                if e is None:
                    continue
                name = [n for n in (m.blocks[tb]['term'].get('fn') or '', m.blocks[tb]['term'].get('resolved') or '') if n][0]
                is_insert = name.split('::')[-1] == 'insert'
                fresh = e[0] if is_insert else e[1]
                stale = e[1] if is_insert else e[0]
                if m.dominates(fresh, rb) and not m.dominates(stale, rb):
                    guarded = (tb, 'insert -> true' if is_insert else 'contains -> false')
                elif m.dominates(stale, rb) and not m.dominates(fresh, rb) and guarded is None:
                    guarded = (tb, 'WRONG-POLARITY')
            if guarded and guarded[1] != 'WRONG-POLARITY':
                n_ok += 1
                n_target_ok += 1
                obs.append(ok('MIR-VISITED', inst, 'recursive call dominated by the not-yet-visited edge (%s) of the visited-set test at %s' % (guarded[1], m.sp(guarded[0])), sp))
            elif guarded:
                obs.append(bad('MIR-VISITED', inst, 'the recursive call sits on the ALREADY-visited edge of the visited-set test at %s' % m.sp(guarded[0]), sp,
                               'cycles in the %s are followed forever and fresh nodes are skipped' % pool))
            # a descent no test dominates is left to REC-GUARD (it may be structural: sub-selection of a field)
        if n_target_ok == 0 and sites and not any(o.status == 'violated' and o.instance.startswith(suffix.split('::')[-1] + '#') for o in obs):
            # the pool edge and the structural descents share one call site (`let next = match s {..}; for x in next { rec(x) }`):
            # on the CFG the test cannot dominate that block although every pool edge passes it.  Dominance cannot decide
            # this shape; REC-GUARD / VISITED-DISCIPLINE decide it on the HIR in both tiers.
            obs.append(undecided('MIR-VISITED', suffix.split('::')[-1] + '/guarded', 'no recursive call site of %s is dominated by the not-yet-visited edge of its visited-set test (%d sites, merged control flow): left to the HIR rules' % (suffix.split('::')[-1], len(sites)),
                                 sites[0][2]))
        elif n_target_ok == 0 and not any(o.status == 'violated' and o.instance.startswith(suffix.split('::')[-1] + '#') for o in obs):
            obs.append(bad('MIR-VISITED', suffix.split('::')[-1] + '/guarded', 'no recursive descent of %s is dominated by the not-yet-visited edge of a visited-set test (%d recursive call sites)' % (suffix.split('::')[-1], len(sites)),
                           sites[0][2] if sites else '', 'a cycle in the %s recurses until the stack overflows' % pool))
    return obs
