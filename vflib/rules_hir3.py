"""Rules for C19 (CLI generate), C20 (introspect-schema), plus HIR-side rules of C02/C05 (entry points,
operation selection)."""
import os
import re

from . import prov as P
from . import terms as TM
from . import hirx as H
from . import qeval as Q
from .core import Ob, ok, bad, undecided, short
from .facts import norm_path, REPO
from .rules_hir import walk, callgraph
from .rules_hir2 import attr_args, item_attrs
from .rules_c06 import returns_err, is_err_ctor

REGISTRY = []


def rule(*ids):
    def deco(fn):
        REGISTRY.append((fn, ids))
        return fn
    return deco


CLI = 'graphql_client'   # crate name of the CLI binary (bin target `graphql-client`)


def cli_fn(ctx, suffix):
    return ctx.fn('cli', suffix)


FS_WRITES = ('std::fs::File::create', 'std::fs::write', 'std::fs::OpenOptions::open', 'std::fs::File::create_new', 'std::fs::remove_file',
             'std::fs::rename', 'std::fs::copy', 'std::fs::File::options')


def fs_write_calls(fn):
    out = []
    for n in H.calls_in(fn):
        if any(p.startswith(FS_WRITES) or p.endswith(('File::create', 'fs::write', 'OpenOptions::open')) for p in H.callee_paths(n)):
            out.append(n)
    return out


def truncates(fn, call):
    """does this file-opening call replace the previous content of the file?  (True/False, why)"""
    ps = H.callee_paths(call)
    if any(p.endswith(('File::create', 'fs::write', 'File::create_new')) for p in ps):
        return True, 'File::create / fs::write truncate'
    if any(p.endswith('OpenOptions::open') for p in ps) and call['k'] == 'mcall':
        flags = {}
        for n in H.walk_through_locals(fn, call['recv']):
            if n['k'] == 'mcall' and n['method'] in ('truncate', 'append', 'create', 'create_new', 'write'):
                v = [a['lit']['v'] for a in n['args'] if a.get('k') == 'lit']
                flags[n['method']] = v[0] if v else '?'
        if flags.get('append') is True or flags.get('append') == '?':
            return False, 'opened for appending'
        if flags.get('truncate') is True or flags.get('create_new') is True:
            return True, 'OpenOptions with truncate(true)'
        return False, 'OpenOptions%s without truncate(true)' % sorted(flags.items())
    return True, 'library write'


# ================================================================================================
# C19
# ================================================================================================

FLAG_TABLE = {
    # setter -> (Generate field, clap long name)
    'set_variables_derives': ('variables_derives', 'variables-derives'),
    'set_response_derives': ('response_derives', 'response-derives'),
    'set_deprecation_strategy': ('deprecation_strategy', 'deprecation-strategy'),
    'set_module_visibility': ('module_visibility', 'module-visibility'),
    'set_custom_scalars_module': ('custom_scalars_module', 'custom-scalars-module'),
    'set_fragments_other_variant': ('fragments_other_variant', 'fragments-other-variant'),
    'set_extern_enums': ('external_enums', 'external-enums'),
    'set_operation_name': ('selected_operation', 'selected-operation'),
}


def _posn(n):
    m = re.search(r':(\d+):(\d+)', n.get('sp', ''))
    return (int(m.group(1)), int(m.group(2))) if m else (0, 0)


@rule('FLAG-PLUMB', 'OUT-CONTENT', 'OUT-PATH', 'NO-WRITE-ON-ERROR')
def rule_cli_generate(ctx):
    obs = []
    fn = cli_fn(ctx, '::generate::generate_code')
    if fn is None:
        return [bad('FLAG-PLUMB', 'floor', 'anchor-missing: generate::generate_code not found')]
    cli = ctx.crate('cli')
    fl = H.Flat(ctx, fn, 2)
    ev = lambda n_: ctx.pv.eval(fl.owner_of(n_), n_, {}, 0)
    # clap definition
    cli_enum = cli.ast_item('Cli', 'enum')
    gen_fields = {}
    if cli_enum is not None:
        for v in cli_enum['variants']:
            if v['name'] == 'Generate':
                for f in v['fields']:
                    a = {}
                    for nm in ('clap', 'arg'):
                        a.update(item_attrs(f, nm))
                    gen_fields[f['name']] = (a, f)
    setters = {}
    for n in fl.calls():
        if n['k'] == 'mcall' and n['method'].startswith('set_') and ctx.pv.local_fns(n.get('callee')):
            setters.setdefault(n['method'], []).append(n)
        # a setter handed over as a function item (`options.set_if_given(value, Options::set_x)`): the value is the
        # other argument of that call
        for i_, a_ in enumerate(n.get('args', [])):
            x_ = a_
            while x_.get('k') in ('ref', 'wrap'):
                x_ = x_['e']
            if x_.get('k') == 'path' and x_['res'].get('r') == 'def' and x_['res'].get('dk') in ('AssocFn', 'Fn'):
                nm_ = x_['res']['path'].split('::')[-1]
                if nm_.startswith('set_') and ctx.pv.local_fns({'path': x_['res']['path'], 'resolved': x_.get('resolved')}):
                    others = [b_ for j_, b_ in enumerate(n['args']) if j_ != i_]
                    if others:
                        pseudo = {'k': 'mcall', 'method': nm_, 'args': others, 'recv': n.get('recv', others[0]), 'sp': n.get('sp', ''), 'id': n.get('id')}
                        fl.owner[id(pseudo)] = fl.owner_of(n)
                        setters.setdefault(nm_, []).append(pseudo)
    for setter, (field, longname) in FLAG_TABLE.items():
        inst = 'generate/' + setter
        calls = setters.get(setter, [])
        if not calls:
            obs.append(bad('FLAG-PLUMB', inst, '%s is never called by `generate`' % setter, fn.loc, 'the flag --%s has no effect' % longname))
            continue
        t = ev(calls[0]['args'][0])
        fields = {f for f in TM.fields_in(t) if f.startswith('Generate.') or f.startswith('Cli::Generate.')}
        got = {f.split('.')[-1] for f in fields}
        if got != {field}:
            obs.append(bad('FLAG-PLUMB', inst, '%s is fed from %s, expected the `%s` flag' % (setter, sorted(got) or P.show(t, 0, 3)[:80], field), calls[0].get('sp', ''),
                           'a flag configures another option'))
            continue
        a, f = gen_fields.get(field, ({}, None))
        if f is None or a.get('long') != longname:
            obs.append(bad('FLAG-PLUMB', inst + '/flag-name', 'flag for `%s` is --%s, documented --%s' % (field, a.get('long'), longname), f['loc'] if f else '',
                           'documented flag not accepted'))
        else:
            obs.append(ok('FLAG-PLUMB', inst, '--%s -> %s -> %s' % (longname, field, setter), calls[0].get('sp', '')))
    # paths and mode
    gens = fl.calls_to('graphql_client_codegen::generate_module_token_stream')
    if not gens:
        obs.append(bad('ONE-ENTRY', 'generate/entry', '`generate` does not call the library entry generate_module_token_stream', fn.loc,
                       'CLI output is not the library\'s output'))
    else:
        g = gens[0]
        qa = ev(g['args'][0])
        sa = ev(g['args'][1])
        pxf = sorted({x for t_ in (qa, sa) for _, xs in TM.paths(t_) for x in xs})
        if pxf:
            obs.append(bad('FLAG-PLUMB', 'generate/paths', 'the paths given on the command line are rewritten (%s) before the library reads them' % pxf, g.get('sp', ''),
                           'the library is not called with the same inputs (a symlinked schema picks its parser from another extension ..)'))
        elif {f.split('.')[-1] for f in TM.fields_in(qa)} == {'query_path'} and {f.split('.')[-1] for f in TM.fields_in(sa)} == {'schema_path'}:
            obs.append(ok('FLAG-PLUMB', 'generate/paths', 'query and schema paths go to the library entry in that order', g.get('sp', '')))
        else:
            obs.append(bad('FLAG-PLUMB', 'generate/paths', 'library entry receives (%s, %s)' % (sorted(TM.fields_in(qa)), sorted(TM.fields_in(sa))), g.get('sp', ''),
                           'wrong files are read'))
        obs.append(ok('ONE-ENTRY', 'generate/entry', 'CLI calls the same library entry as the derive', g.get('sp', '')))
        sp = gen_fields.get('schema_path', ({}, None))[0]
        if sp.get('long') != 'schema-path':
            obs.append(bad('FLAG-PLUMB', 'generate/schema-path-flag', '--schema-path flag is %s' % sp.get('long'), '', 'documented flag not accepted'))
    news = fl.calls_to('GraphQLClientCodegenOptions::new')
    if news and news[0]['args'] and news[0]['args'][0].get('k') == 'path' and news[0]['args'][0]['res'].get('path', '').endswith('CodegenMode::Cli'):
        obs.append(ok('FLAG-PLUMB', 'generate/mode', 'options built with CodegenMode::Cli', news[0].get('sp', '')))
    else:
        obs.append(bad('FLAG-PLUMB', 'generate/mode', 'options are not built with CodegenMode::Cli', fn.loc, 'no struct declarations / no all-operations output'))
    # module visibility table
    mv = setters.get('set_module_visibility', [])
    if mv:
        t = ev(mv[0]['args'][0])
        tbl = {}
        for conds, leaf in P.leaves(t):
            key = None
            for c in conds:
                if c[0] == 'match' and c[2][0] == 'lit':
                    key = c[2][1]
                elif c[0] == 'match' and c[2][0] == 'ctor' and c[2][1].endswith('None'):
                    key = '<absent>'
                elif c[0] == 'match' and c[2][0] == 'not' and c[2][1][0] == 'ctor' and c[2][1][1].endswith('Some'):
                    key = '<absent>'      # `let Some(x) = arg else { return .. }`
                elif c[0] == 'match' and c[2][0] in ('wild', 'bind') and key is None:
                    key = '<other>'
            name = leaf[1].split('::')[-1] if leaf[0] in ('ctor', 'global') else (leaf[1].split('::')[-1] if leaf[0] == 'agg' else leaf[0])
            if key:
                tbl.setdefault(key, set()).add(name)
        # the flag value is matched case-insensitively (lower-cased before the table is consulted)
        lowered = None
        for conds, leaf in P.leaves(t):
            for c in conds:
                if c[0] == 'match' and c[2][0] == 'lit' and c[1] is not None:
                    xs_ = {x for _, xs in TM.paths(c[1]) for x in xs}
                    lowered = ('lower' in xs_) if lowered is None else (lowered and 'lower' in xs_)
        # the same decision spelled with `if v == "pub" { return .. }` chains / helper functions: evaluate the value for the
        # four kinds of flag value
        def vis_eval(t_, flag):
            tag = t_[0]
            if tag == 'orelse':
                return vis_eval(t_[2], flag) if flag is None else vis_eval(t_[1], flag)
            if tag == 'join':
                out = set()
                for x_ in t_[1]:
                    out |= vis_eval(x_, flag)
                return out
            if tag == 'early':
                return vis_eval(t_[1], flag)
            if tag in ('absent', 'none', 'unit', 'diverge'):
                return set()
            if tag in ('ctor', 'global'):
                return {t_[1].split('::')[-1]}
            if tag == 'agg':
                return {t_[1].split('::')[-1]}
            if tag == 'if':
                c_ = t_[1]
                val = None
                if c_[0] == 'op' and c_[1] in ('==', '!=') and len(c_[2]) == 2:
                    ks = [x_[1] for x_ in c_[2] if x_[0] == 'const' and isinstance(x_[1], str)]
                    if ks and flag is not None:
                        val = (flag == ks[0]) == (c_[1] == '==')
                if val is True:
                    return vis_eval(t_[2], flag)
                if val is False:
                    return vis_eval(t_[3], flag)
                return vis_eval(t_[2], flag) | vis_eval(t_[3], flag)
            if tag == 'match':
                out = set()
                for pat_, arm_ in t_[2]:
                    if pat_[0] == 'lit' and flag is not None:
                        if pat_[1] == flag:
                            return vis_eval(arm_, flag)
                        continue
                    if pat_[0] == 'ctor' and pat_[1].endswith('None'):
                        if flag is None:
                            return vis_eval(arm_, flag)
                        continue
                    if pat_[0] == 'ctor' and pat_[1].endswith('Some'):
                        if flag is None:
                            continue
                        return vis_eval(arm_, flag)
                    if pat_[0] in ('wild', 'bind'):
                        return out | vis_eval(arm_, flag)
                    out |= vis_eval(arm_, flag)
                return out
            return {'?'}
        if not (tbl.get('pub') == {'Public'} and tbl.get('<absent>') == {'Public'} and tbl.get('inherited') == {'Inherited'}):
            tbl2 = {'<absent>': vis_eval(t, None), 'pub': vis_eval(t, 'pub'), 'inherited': vis_eval(t, 'inherited'), '<other>': vis_eval(t, 'crate::x')}
            if all(v_ and '?' not in v_ for v_ in tbl2.values()):
                tbl = tbl2
                # .. and the comparisons are made on the lower-cased value
                cmp_ = [s_ for s_ in P.subterms(t) if isinstance(s_, tuple) and s_ and s_[0] == 'op' and s_[1] in ('==', '!=') and any(x_[0] == 'const' and x_[1] in ('pub', 'inherited') for x_ in s_[2])]
                if cmp_ and lowered is None:
                    lowered = all(any('lower' in xs_ for _o, xs_ in TM.paths(y_)) for s_ in cmp_ for y_ in s_[2] if y_[0] != 'const')
        if lowered is False:
            obs.append(bad('FLAG-PLUMB', 'generate/visibility-case', 'the --module-visibility value is compared with the keywords as written (no lower-casing)', mv[0].get('sp', ''),
                           '`-m Pub` becomes the restricted visibility `pub(Pub)`: invalid code instead of a public module'))
        elif lowered:
            obs.append(ok('FLAG-PLUMB', 'generate/visibility-case', 'the flag value is lower-cased before it is matched', mv[0].get('sp', '')))
        want_pub = tbl.get('pub'), tbl.get('<absent>')
        if tbl.get('pub') == {'Public'} and tbl.get('<absent>') == {'Public'} and tbl.get('inherited') == {'Inherited'}:
            obs.append(ok('FLAG-PLUMB', 'generate/visibility-table', 'pub -> Public, inherited -> Inherited, absent -> Public, other -> restricted path', mv[0].get('sp', '')))
        else:
            obs.append(bad('FLAG-PLUMB', 'generate/visibility-table', 'module visibility table is %s' % {k: sorted(v) for k, v in tbl.items()}, mv[0].get('sp', ''),
                           '--module-visibility does not give the documented visibility'))
    # OUT-CONTENT: what is written
    creates = [n for n in fl.calls() if any(p.startswith(FS_WRITES) or p.endswith(('File::create', 'fs::write', 'OpenOptions::open')) for p in H.callee_paths(n))]
    writes = fl.nodes(lambda n: n['k'] == 'macro' and n['name'].split('::')[-1] in ('write', 'writeln'))
    if len(creates) != 1 or not writes:
        obs.append(bad('OUT-CONTENT', 'generate/shape', 'expected exactly one file creation and one write!, found %d/%d' % (len(creates), len(writes)), fn.loc,
                       'more or less than the library output is written'))
    else:
        w = writes[-1]
        wargs = [fl.owner_of(w).nodes.get(a['id']) for a in w['args'] if a['how'] == 'span']
        wargs = [a for a in wargs if a is not None]
        content = ctx.pv.eval(fl.owner_of(w), wargs[-1], {}, 0) if wargs else ('unknown', 'x')
        fmts = [s for s in P.subterms(content) if s[0] == 'fmt' and s[1] == '{}\\n{}']
        hdr_ok = False
        tok_ok = False
        for s in fmts:
            a0, a1 = s[2][0], s[2][1]
            if a0[0] == 'global' and a0[1].endswith('WARNING_SUPPRESSION'):
                hdr_ok = True
            if any(x[0] == 'call' and x[1].endswith('generate_module_token_stream') or True for x in [a1]) and \
                    ('generate_module_token_stream' in repr(a1) or 'tmpl' in repr(a1)):
                tok_ok = True
        cval = None
        for f_ in cli.all_fns():
            if f_.path.endswith('generate::WARNING_SUPPRESSION'):
                b = f_.body
                while b.get('k') in ('wrap', 'ref', 'block'):
                    b = b.get('e') or b.get('expr')
                if b.get('k') == 'lit':
                    cval = b['lit']['v']
        wplan = P.fmt_plan(w['text'], max(len(wargs) - 1, 0))
        wfs = wplan[0] if wplan is not None else P.fmt_string(w['text'])
        if wfs != '{}':
            obs.append(bad('OUT-CONTENT', 'generate/write-format', 'file is written with format %r' % wfs, w.get('sp', ''), 'extra text in the file'))
        if hdr_ok and tok_ok and cval == '#![allow(clippy::all, warnings)]':
            obs.append(ok('OUT-CONTENT', 'generate/content', 'file content = warning-suppression header + "\\n" + library token stream', w.get('sp', '')))
        else:
            obs.append(bad('OUT-CONTENT', 'generate/content', 'written content is not `header\\n<library output>` (header const=%r, header first=%s, tokens second=%s)' % (cval, hdr_ok, tok_ok),
                           w.get('sp', ''), 'the file differs from what the library produces'))
        # rustfmt only under !no_formatting
        fmt_fn = cli_fn(ctx, '::generate::format')
        if fmt_fn is not None:
            fcalls = fl.calls_of(fmt_fn)
            for n in fcalls:
                pcs = fl.path_conds(n)
                guarded = any(pc[0] in ('if', 'match') and 'no_formatting' in repr(ctx.pv.eval(o_, pc[1], fl.env_of(o_), 0)) + repr(ctx.pv.eval(o_, pc[1], {}, 0)) for o_, pc in pcs)
                if guarded:
                    obs.append(ok('OUT-CONTENT', 'generate/rustfmt', 'rustfmt applied only when --no-formatting is absent', n.get('sp', '')))
                else:
                    obs.append(bad('OUT-CONTENT', 'generate/rustfmt', 'rustfmt is applied regardless of --no-formatting', n.get('sp', ''), 'flag has no effect'))
        tr, why = truncates(fl.owner_of(creates[0]), creates[0])
        if tr:
            obs.append(ok('OUT-CONTENT', 'generate/truncate', 'an existing destination file is replaced (%s)' % why, creates[0].get('sp', '')))
        else:
            obs.append(bad('OUT-CONTENT', 'generate/truncate', 'the destination file is %s' % why, creates[0].get('sp', ''),
                           'regenerating a shorter module leaves the tail of the old file: the file is not what the library produces'))
        # OUT-PATH
        dest = ev(creates[0]['args'][0])
        consts = TM.consts_in(dest)
        xfs = {x for _, xs in TM.paths(dest) for x in xs}
        fields = {f.split('.')[-1] for f in TM.fields_in(dest)}
        foreign = sorted(xfs - {'with_extension', 'file_name', 'fmt', 'parent'})
        if foreign:
            obs.append(bad('OUT-PATH', 'generate/dest', 'the destination path goes through %s: it is no longer a function of the command line alone' % foreign, creates[0].get('sp', ''),
                           'output lands beside another file (symlinked query, other casing ..) or under another stem'))
        elif 'with_extension' in xfs and 'file_name' in xfs and {'query_path', 'output_directory'} <= fields:
            obs.append(ok('OUT-PATH', 'generate/dest', 'destination = output_directory/<query file name>.rs, or beside the query file', creates[0].get('sp', '')))
        else:
            obs.append(bad('OUT-PATH', 'generate/dest', 'destination path is built from %s with %s and constants %s' % (sorted(fields), sorted(xfs), sorted(map(str, consts))),
                           creates[0].get('sp', ''), 'output lands in the wrong file'))
        # both alternatives use extension rs
        ext_calls = [n for n in fl.mcalls('with_extension')]
        exts = {a['lit']['v'] if a.get('k') == 'lit' else '<computed>' for n in ext_calls for a in n['args']}
        # every way the destination derives from the query path / output directory goes through with_extension
        uncovered = [o for o, xs in TM.paths(dest) if o[0] == 'field' and o[1].split('.')[-1] in ('query_path', 'output_directory') and 'with_extension' not in xs]
        if exts != {'rs'} or uncovered:
            obs.append(bad('OUT-PATH', 'generate/extension', 'with_extension constants %s at %d sites' % (sorted(exts), len(ext_calls)), fn.loc, 'wrong extension'))
        # every successful return has written the file: no `return Ok(..)` between the library call and the write
        if gens and writes:
            owner = fl.owner_of(writes[0]) if hasattr(fl, 'owner_of') else fn
            early = []
            if owner is fn:
                gl, wl = _posn(gens[0]), _posn(writes[0])
                for r_ in fn.walk(lambda x: x['k'] == 'ret'):
                    e_ = r_.get('e') or {}
                    while e_.get('k') in ('wrap',):
                        e_ = e_['e']
                    is_ok = e_.get('k') == 'call' and (e_.get('callee') or {}).get('path', '').endswith('Ok')
                    if is_ok and _posn(r_) < wl:
                        early.append(r_)
            if early:
                obs.append(bad('OUT-CONTENT', 'generate/write-on-success', 'a successful `return Ok(..)` is reachable before the file is written', early[0].get('sp', ''),
                               'the command exits 0 without writing (or replacing) `<stem>.rs`'))
            else:
                obs.append(ok('OUT-CONTENT', 'generate/write-on-success', 'no successful return precedes the write', writes[0].get('sp', '')))
        # NO-WRITE-ON-ERROR
        c = creates[0]
        if gens:
            kind, _ = fl.consumption(gens[0])
            okp, why = fl.precedes(gens[0], c)
            if kind == 'propagated' and okp:
                obs.append(ok('NO-WRITE-ON-ERROR', 'generate/create-after-generation', 'File::create is preceded by the `?`-propagated library call', c.get('sp', '')))
            else:
                obs.append(bad('NO-WRITE-ON-ERROR', 'generate/create-after-generation', 'file is created although generation may have failed (%s; %s)' % (kind, why), c.get('sp', ''),
                               'a generation error leaves an (empty) output file behind'))
        if fmt_fn is not None:
            for n in fl.calls_of(fmt_fn):
                kind, _ = fl.consumption(n)
                # the format call sits in an if-expression whose value feeds a let: the let statement must precede the create
                stmt = n
                okp, why = fl.precedes(n, c)
                if kind == 'propagated' and (okp or 'conditional' in why):
                    obs.append(ok('NO-WRITE-ON-ERROR', 'generate/create-after-format', 'rustfmt failure propagates before the file is created', n.get('sp', '')))
                else:
                    obs.append(bad('NO-WRITE-ON-ERROR', 'generate/create-after-format', 'rustfmt result is %s' % kind, n.get('sp', ''), 'file written despite a formatting error'))
    # main returns the error
    mainf = cli_fn(ctx, 'graphql_client::main')
    if mainf is None or not mainf.d.get('output', '').startswith('std::result::Result<'):
        obs.append(bad('NO-WRITE-ON-ERROR', 'main/exit-status', 'main does not return a Result', mainf.loc if mainf else '', 'errors do not give a non-zero exit status'))
    else:
        flm = H.Flat(ctx, mainf, 2)
        gcalls = flm.calls_of(fn)
        if gcalls and flm.consumption(gcalls[0])[0] in ('returned', 'propagated'):
            obs.append(ok('NO-WRITE-ON-ERROR', 'main/exit-status', 'main returns generate_code\'s Result (non-zero exit on Err)', gcalls[0].get('sp', '')))
        else:
            obs.append(bad('NO-WRITE-ON-ERROR', 'main/exit-status', 'result of generate_code is not returned from main', mainf.loc, 'exit status 0 on error'))
    return obs


# ================================================================================================
# C20
# ================================================================================================

def _graphql_tokens(text):
    text = re.sub(r'#[^\n]*', '', text)
    return re.findall(r'[_A-Za-z][_0-9A-Za-z]*|\.\.\.|[{}()\[\]:!@$=]', text)


@rule('REQ-BUILD', 'DOC-PAIRING', 'DOC-TABLE', 'DOC-CONTENT', 'STATUS', 'OUT-AFTER-SUCCESS', 'HEADER-GUARDS')
def rule_introspect(ctx):
    obs = []
    fn = cli_fn(ctx, '::introspection_schema::introspect_schema')
    if fn is None:
        return [bad('REQ-BUILD', 'floor', 'anchor-missing: introspect_schema not found')]
    cli = ctx.crate('cli')
    env = H.sym_env(fn)
    params = {p.get('name'): i for i, p in enumerate(fn.params) if p.get('k') == 'bind'}
    fl = H.Flat(ctx, fn, 2)
    mcalls = fl.mcalls()
    by = {}
    for n in mcalls:
        by.setdefault(n['method'], []).append(n)
    # --- REQ-BUILD
    def input_named(t_, name_):
        """the command's input `name_`: a parameter of that name, or that member of a parameter record"""
        while t_[0] in ('xf',) and t_[1] in ('own',):
            t_ = t_[2]
        if t_[:1] == ('param',) and t_[3] == name_:
            return True
        names_ = {name_, 'schema_' + name_}
        if t_[0] == 'field' and t_[3] in names_ and t_[1][:1] == ('param',):
            return True
        # followed up to `main`: the member of the parsed command line
        return t_[0] == 'field' and t_[3] in names_ and t_[1][0] == 'call' and 'Parser::parse' in t_[1][1]
    posts = by.get('post', [])
    if len(posts) == 1 and posts[0]['args'] and input_named(fl.eval(posts[0]['args'][0]), 'location'):
        obs.append(ok('REQ-BUILD', 'introspect/post', 'one POST to the given location', posts[0].get('sp', '')))
    else:
        obs.append(bad('REQ-BUILD', 'introspect/post', 'expected exactly one .post(location), found %d' % len(posts), fn.loc, 'request goes elsewhere / wrong method'))
    for m in ('get', 'put', 'patch', 'delete'):
        if any('reqwest' in (n.get('callee') or {}).get('path', '') for n in by.get(m, [])):
            obs.append(bad('REQ-BUILD', 'introspect/method', 'request built with .%s()' % m, fn.loc, 'not a POST'))
    sends = by.get('send', [])
    if len(sends) == 1:
        obs.append(ok('REQ-BUILD', 'introspect/send', 'exactly one send()', sends[0].get('sp', '')))
    else:
        obs.append(bad('REQ-BUILD', 'introspect/send', '%d send() calls' % len(sends), fn.loc, 'request sent several times / never'))
    jsons = [n for n in by.get('json', []) if 'RequestBuilder' in n['recv'].get('ty', '') + n.get('ty', '')]
    if len(jsons) == 1:
        bt = fl.eval(jsons[0]['args'][0])
        aggs = {l for _, l in P.leaves(bt) if l[0] == 'agg' and l[1].endswith('QueryBody')}
        if aggs:
            obs.append(ok('REQ-BUILD', 'introspect/body', 'body = .json(QueryBody)', jsons[0].get('sp', '')))
        else:
            obs.append(bad('REQ-BUILD', 'introspect/body', 'request body is %s' % P.show(bt, 0, 3)[:100], jsons[0].get('sp', ''), 'not the introspection document'))
    else:
        obs.append(bad('REQ-BUILD', 'introspect/body', '%d .json() bodies' % len(jsons), fn.loc, 'no JSON body'))
    hdrs = [n for n in by.get('header', [])]
    if hdrs:
        h = hdrs[0]
        a0 = fl.eval(h['args'][0])
        a1 = fl.eval(h['args'][1])
        f0 = {f for f in TM.fields_in(a0) if f.startswith('Header.')}
        f1 = {f for f in TM.fields_in(a1) if f.startswith('Header.')}
        itn = H.iteration_of(fl.owner_of(h), h)
        h_owner = fl.owner_of(h)
        if itn is None and h_owner is not fn:
            # the header is added in a helper that is called once per --header
            itn = H.iteration_of(fn, fl.proxy[id(h)])
            h_owner = fn
        loop = itn is not None
        if f0 == {'Header.name'} and f1 == {'Header.value'} and loop:
            itt = ctx.pv.eval(h_owner, itn[1], fl.env_of(h_owner), 0)
            from .rules_c06 import _loop_skips
            hnode = h if h_owner is fl.owner_of(h) else fl.proxy[id(h)]
            lnode = H.iteration_node(h_owner, hnode)
            partial = []
            if lnode is not None:
                partial = [c_[0] for c_ in H.conditional_context(h_owner, hnode, upto=lnode) if c_[0] in ('if', 'match')]
                partial += [x.get('k') for x in _loop_skips(h_owner, lnode, hnode)]
            if partial:
                obs.append(bad('REQ-BUILD', 'introspect/custom-headers', 'inside the header loop the header is added only conditionally (%s)' % ', '.join(partial), h.get('sp', ''),
                               'some --header arguments are silently not sent'))
            elif input_named(itt, 'headers') and not (_chain(h_owner, itn[1]) & {'filter', 'take', 'skip', 'step_by', 'take_while', 'skip_while', 'filter_map', 'dedup'}):
                obs.append(ok('REQ-BUILD', 'introspect/custom-headers', 'every --header is added as (name, value)', h.get('sp', '')))
            else:
                obs.append(bad('REQ-BUILD', 'introspect/custom-headers', 'header loop does not cover all given headers', h.get('sp', ''), 'some headers are not sent'))
        else:
            obs.append(bad('REQ-BUILD', 'introspect/custom-headers', '.header(%s, %s) (in loop: %s)' % (sorted(f0), sorted(f1), loop), h.get('sp', ''),
                           'header name/value swapped or only one header sent'))
    else:
        # the custom headers may be collected into a HeaderMap first (possibly in a helper)
        hm = []
        for f_, n_ in H.deep_nodes(ctx, fn, fn.body, 2):
            if n_['k'] == 'mcall' and n_['method'] in ('insert', 'append') and 'HeaderMap' in (n_['recv'].get('ty', '') + n_['recv'].get('aty', '')) and len(n_['args']) == 2:
                fe = H.sym_env(f_)
                fa = {x for x in TM.fields_in(ctx.pv.eval(f_, n_['args'][0], fe, 0)) if x.startswith('Header.')}
                fb = {x for x in TM.fields_in(ctx.pv.eval(f_, n_['args'][1], fe, 0)) if x.startswith('Header.')}
                if fa or fb:
                    hm.append((f_, n_, fa, fb))
        if not hm:
            obs.append(bad('REQ-BUILD', 'introspect/custom-headers', 'custom headers are never added', fn.loc, '--header has no effect'))
        else:
            f_, n_, fa, fb = hm[0]
            in_loop = any(c_[0] == 'for' for c_ in H.conditional_context(f_, n_))
            if n_['method'] == 'insert':
                obs.append(bad('REQ-BUILD', 'introspect/custom-headers', 'custom headers are collected with HeaderMap::insert, which replaces an earlier value of the same name', n_.get('sp', ''),
                               'a repeated --header name (or a custom Accept/Content-Type) is not carried'))
            elif fa == {'Header.name'} and fb == {'Header.value'} and in_loop:
                obs.append(ok('REQ-BUILD', 'introspect/custom-headers', 'every --header is appended as (name, value)', n_.get('sp', '')))
            else:
                obs.append(bad('REQ-BUILD', 'introspect/custom-headers', 'HeaderMap::append(%s, %s) (in loop: %s)' % (sorted(fa), sorted(fb), in_loop), n_.get('sp', ''),
                               'header name/value swapped or only one header sent'))
    # the default headers are put on the builder before the user's: `RequestBuilder::headers` replaces same-named entries
    dh = [n_ for n_ in by.get('headers', [])]
    if dh and hdrs:
        first_custom = min((_posn(x_) for x_ in hdrs))
        if fl.owner_of(dh[0]) is fl.owner_of(hdrs[0]) and _posn(dh[0]) > first_custom:
            obs.append(bad('REQ-BUILD', 'introspect/default-headers-first', 'the default headers are merged in after the custom ones (`.headers(..)` replaces entries of the same name)', dh[0].get('sp', ''),
                           'a user-supplied Accept / Content-Type header never reaches the server'))
        elif fl.owner_of(dh[0]) is fl.owner_of(hdrs[0]):
            obs.append(ok('REQ-BUILD', 'introspect/default-headers-first', 'default headers are set before the custom ones are added', dh[0].get('sp', '')))
    ba = by.get('bearer_auth', [])
    if ba:
        t = fl.eval(ba[0]['args'][0])
        if 'authorization' in repr(t):
            obs.append(ok('REQ-BUILD', 'introspect/bearer', '--authorization -> bearer_auth', ba[0].get('sp', '')))
        else:
            obs.append(bad('REQ-BUILD', 'introspect/bearer', 'bearer token is %s' % P.show(t, 0, 3), ba[0].get('sp', ''), 'wrong token'))
    else:
        obs.append(bad('REQ-BUILD', 'introspect/bearer', 'bearer_auth is never called', fn.loc, '--authorization has no effect'))
    ch = cli_fn(ctx, '::introspection_schema::construct_headers')
    if ch is not None:
        lits = {n['lit']['v'] for n in walk(ch.body) if n['k'] == 'lit' and n['lit']['lk'] == 'str'}
        gl = {n['res'].get('path', '').split('::')[-1] for n in walk(ch.body) if n['k'] == 'path' and n['res'].get('r') == 'def'}
        # a value named by a constant of the crate (`const JSON_MEDIA_TYPE: &str = "application/json"`)
        for n in walk(ch.body):
            if n['k'] == 'path' and n['res'].get('r') == 'def' and str(n['res'].get('dk', '')).startswith('Const'):
                for cf_ in cli.all_fns():
                    if norm_path(cf_.path) == norm_path(n['res'].get('path', '')):
                        lits |= {x['lit']['v'] for x in walk(cf_.body) if x['k'] == 'lit' and x['lit']['lk'] == 'str'}
        if lits == {'application/json'} and {'CONTENT_TYPE', 'ACCEPT'} <= gl and any(n['method'] == 'headers' for n in mcalls):
            obs.append(ok('REQ-BUILD', 'introspect/default-headers', 'Content-Type and Accept: application/json', ch.loc))
        else:
            obs.append(bad('REQ-BUILD', 'introspect/default-headers', 'default headers %s = %s' % (sorted(gl & {'CONTENT_TYPE', 'ACCEPT'}), sorted(lits)), ch.loc, 'server rejects the request'))
    # --- DOC-PAIRING: every QueryBody literal of the CLI pairs QUERY and OPERATION_NAME of the same module
    bodies = [(f_, n) for f_, n in ctx.prog.aggregates_norm.get('graphql_client::QueryBody', []) if f_.key.startswith('cli::') and not f_.from_macro]
    mods = {}
    flag_assign = [(one, url) for one in (False, True) for url in (False, True)]

    def flag_atoms(one, url):
        def atoms(t):
            if t[0] == 'param' and t[3] in ('is_one_of', 'specify_by_url'):
                return one if t[3] == 'is_one_of' else url
            return None
        return atoms

    def doc_of(t):
        return t[1] if t[0] == 'global' else (t[1] if t[0] == 'const' and isinstance(t[1], str) else '')

    computed = {}        # (one, url) -> (query path, operation-name path, node) for literals whose fields are computed
    npairs = 0
    for bf, b in bodies:
        f = {x['name']: x['e'] for x in b['fields']}
        q = f.get('query', {}).get('res', {}).get('path', '') if f.get('query', {}).get('k') == 'path' else ''
        o = f.get('operation_name', {}).get('res', {}).get('path', '') if f.get('operation_name', {}).get('k') == 'path' else ''
        if q.endswith('::QUERY') or o.endswith('::OPERATION_NAME'):
            pairs = [(None, q, o)]
        else:
            # computed fields: decide which constants they are for each flag combination
            benv = fl.env_of(bf) if bf.key in fl.caller or bf is fn else H.sym_env(bf)
            qt = ctx.pv.eval(bf, f['query'], benv, 0) if 'query' in f else ('absent',)
            ot = ctx.pv.eval(bf, f['operation_name'], benv, 0) if 'operation_name' in f else ('absent',)
            pairs = []
            for one, url in flag_assign:
                qe = Q.QEval(ctx.pv, [], flag_atoms(one, url))
                try:
                    pairs.append(((one, url), doc_of(Q.select_leaf(qe, qt)), doc_of(Q.select_leaf(qe, ot))))
                except Q.Undecided as ex:
                    obs.append(undecided('DOC-PAIRING', 'introspect/body(is_one_of=%s,specify_by_url=%s)' % (one, url),
                                         'cannot decide which document/operationName the literal carries (%s)' % ex, b.get('sp', '')))
        for key, q, o in pairs:
            mq, mo = q.rsplit('::', 1)[0], o.rsplit('::', 1)[0]
            inst = 'introspect/body[%s]' % mq.split('::')[-1]
            npairs += 1
            if q.endswith('::QUERY') and o.endswith('::OPERATION_NAME') and mq == mo:
                obs.append(ok('DOC-PAIRING', inst, 'QUERY and OPERATION_NAME of the same generated module', b.get('sp', '')))
                if key is None:
                    mods[id(b)] = mq.split('::')[-1]
                else:
                    computed[key] = (mq.split('::')[-1], b)
            else:
                obs.append(bad('DOC-PAIRING', inst, 'query from `%s`, operationName from `%s`' % (q, o), b.get('sp', ''), 'operationName names an operation the document does not define'))
    if npairs < 4:
        obs.append(bad('DOC-PAIRING', 'floor', 'anchor-missing: expected 4 QueryBody (document, operationName) pairs, found %d' % npairs))
    # --- DOC-CONTENT: the derive structs and their documents
    docs = {}
    for it in cli.ast_items:
        if it['kind'] == 'struct' and it['module'] == 'introspection_queries':
            g = item_attrs(it, 'graphql')
            qp = g.get('query_path')
            if not qp:
                continue
            path = os.path.join(REPO, 'graphql_client_cli', qp)
            try:
                toks = _graphql_tokens(open(path).read())
            except OSError:
                obs.append(bad('DOC-CONTENT', it['name'] + '/file', 'query file %s not readable' % qp, it['loc'], ''))
                continue
            ops = []
            for j, t in enumerate(toks):
                if t in ('query', 'mutation', 'subscription') and j + 1 < len(toks) and re.match(r'^[_A-Za-z]', toks[j + 1]) and (j == 0 or toks[j - 1] in ('}',)):
                    ops.append(toks[j + 1])
            mod = _snake(it['name'])
            docs[mod] = {'struct': it['name'], 'file': qp, 'ops': ops, 'isOneOf': 'isOneOf' in toks, 'specifiedByURL': 'specifiedByURL' in toks or 'specifiedByUrl' in toks,
                         'toks': set(toks), 'loc': it['loc']}
            if it['name'] in ops:
                obs.append(ok('DOC-CONTENT', it['name'] + '/operation', '%s defines operation %s' % (qp.split('/')[-1], it['name']), it['loc']))
            else:
                obs.append(bad('DOC-CONTENT', it['name'] + '/operation', '%s defines operations %s, not %s' % (qp, ops, it['name']), it['loc'],
                               'the derive binds another operation / fails'))
            need = {'kind', 'name', 'fields', 'inputFields', 'interfaces', 'enumValues', 'possibleTypes', 'isDeprecated', 'deprecationReason', 'ofType',
                    'queryType', 'mutationType', 'subscriptionType', 'types', '__schema', 'args', 'type'}
            miss = need - set(toks)
            if miss:
                obs.append(bad('DOC-CONTENT', it['name'] + '/members', 'introspection document does not select %s' % sorted(miss), it['loc'],
                               'the written JSON lacks what the JSON schema reader needs: it generates different code than the SDL'))
            else:
                obs.append(ok('DOC-CONTENT', it['name'] + '/members', 'selects every member the JSON schema reader consumes', it['loc']))
            # deprecated members are part of the schema: `fields` / `enumValues` of a type are asked with includeDeprecated: true
            # (the specification leaves deprecated members out of the answer otherwise)
            for sel in ('fields', 'enumValues'):
                occ = [j for j, t in enumerate(toks) if t == sel and j + 1 < len(toks) and toks[j + 1] in ('(', '{')]
                badocc = [j for j in occ if toks[j + 1:j + 6] != ['(', 'includeDeprecated', ':', 'true', ')']]
                if occ and not badocc:
                    obs.append(ok('DOC-CONTENT', '%s/includeDeprecated/%s' % (it['name'], sel), '%s(includeDeprecated: true)' % sel, it['loc']))
                elif badocc:
                    obs.append(bad('DOC-CONTENT', '%s/includeDeprecated/%s' % (it['name'], sel), '%s selects `%s` without includeDeprecated: true' % (qp.split('/')[-1], sel), it['loc'],
                                   'the downloaded JSON schema silently lacks every deprecated %s: code generated from it differs from the SDL of the same schema' % ('field' if sel == 'fields' else 'enum value')))
            docs[mod]['seq'] = toks
    if len(docs) < 4:
        obs.append(bad('DOC-CONTENT', 'floor', 'anchor-missing: expected 4 derived introspection operations, found %d' % len(docs)))
    # the four documents are one query with two optional members: apart from those members and the names of the operation and
    # its fragments they select the same things with the same arguments
    def _skeleton(d_):
        """the document as a tree that does not depend on the order of selections, on the names of the operation and its fragments or
        on how the selection is cut into fragments: {response key: (field, arguments, sub-tree)} with fragment spreads expanded"""
        sq = d_.get('seq', [])
        frags, ops_ = {}, []

        def sel_set(i_):
            # sq[i_] == '{' ; returns (list of raw entries, index after the closing brace)
            out_, i_ = [], i_ + 1
            while i_ < len(sq) and sq[i_] != '}':
                if sq[i_] == '...':
                    if i_ + 1 < len(sq) and sq[i_ + 1] == 'on':
                        sub_, j_ = sel_set(i_ + 3)
                        out_.append(('inline', sq[i_ + 2], sub_))
                        i_ = j_
                    else:
                        out_.append(('spread', sq[i_ + 1]))
                        i_ += 2
                    continue
                name_ = sq[i_]
                alias_ = None
                i_ += 1
                if i_ + 1 < len(sq) and sq[i_] == ':' and re.match(r'^[_A-Za-z]', sq[i_ + 1]):
                    alias_, name_ = name_, sq[i_ + 1]
                    i_ += 2
                args_ = []
                if i_ < len(sq) and sq[i_] == '(':
                    j_ = i_
                    while j_ < len(sq) and sq[j_] != ')':
                        j_ += 1
                    args_ = sq[i_ + 1:j_]
                    i_ = j_ + 1
                while i_ < len(sq) and sq[i_] == '@':
                    i_ += 2
                sub_ = None
                if i_ < len(sq) and sq[i_] == '{':
                    sub_, i_ = sel_set(i_)
                out_.append(('field', alias_ or name_, name_, tuple(args_), sub_))
            return out_, i_ + 1
        i_ = 0
        while i_ < len(sq):
            if sq[i_] == 'fragment' and i_ + 3 < len(sq) and sq[i_ + 2] == 'on':
                j_ = i_ + 4
                while j_ < len(sq) and sq[j_] != '{':
                    j_ += 1
                sub_, j_ = sel_set(j_)
                frags[sq[i_ + 1]] = (sq[i_ + 3], sub_)
                i_ = j_
            elif sq[i_] in ('query', 'mutation', 'subscription', '{'):
                j_ = i_
                while j_ < len(sq) and sq[j_] != '{':
                    j_ += 1
                sub_, j_ = sel_set(j_)
                ops_.append(sub_)
                i_ = j_
            else:
                i_ += 1

        def canon(entries, depth=0):
            tree = {}
            for e_ in entries or []:
                if e_[0] == 'spread':
                    if depth < 12 and e_[1] in frags:
                        for k2, v2 in canon(frags[e_[1]][1], depth + 1).items():
                            tree.setdefault(k2, v2)
                elif e_[0] == 'inline':
                    for k2, v2 in canon(e_[2], depth + 1).items():
                        tree.setdefault(k2, v2)
                elif e_[2] not in ('isOneOf', 'specifiedByURL', 'specifiedByUrl'):
                    tree[e_[1]] = (e_[2], e_[3], canon(e_[4], depth + 1) if e_[4] is not None else None)
            return tree
        return [canon(o_) for o_ in ops_]

    def _first_diff(a_, b_, path_=''):
        if isinstance(a_, list) and isinstance(b_, list):
            for x_, y_ in zip(a_, b_):
                d2 = _first_diff(x_, y_, path_)
                if d2:
                    return d2
            return None if len(a_) == len(b_) else path_ + ': another number of operations'
        for k2 in sorted(set(a_ or {}) | set(b_ or {})):
            if k2 not in (a_ or {}):
                return '%s/%s is not selected here' % (path_, k2)
            if k2 not in (b_ or {}):
                return '%s/%s is selected only here' % (path_, k2)
            if a_[k2][:2] != b_[k2][:2]:
                return '%s/%s is `%s(%s)` here and `%s(%s)` there' % (path_, k2, a_[k2][0], ' '.join(a_[k2][1]), b_[k2][0], ' '.join(b_[k2][1]))
            if (a_[k2][2] is None) != (b_[k2][2] is None):
                return '%s/%s has a sub-selection on one side only' % (path_, k2)
            if a_[k2][2] is not None:
                d2 = _first_diff(a_[k2][2], b_[k2][2], path_ + '/' + k2)
                if d2:
                    return d2
        return None
    sk = {m_: _skeleton(d_) for m_, d_ in docs.items() if d_.get('seq')}
    if len(sk) >= 2:
        plain = [m_ for m_, d_ in docs.items() if m_ in sk and not d_['isOneOf'] and not d_['specifiedByURL']]
        ref_m = plain[0] if plain else sorted(sk)[0]
        for m_ in sorted(sk):
            if m_ == ref_m:
                continue
            if sk[m_] == sk[ref_m]:
                obs.append(ok('DOC-CONTENT', docs[m_]['struct'] + '/sibling', 'selects what %s selects (apart from isOneOf / specifiedByURL)' % docs[ref_m]['file'].split('/')[-1], docs[m_]['loc']))
            else:
                obs.append(bad('DOC-CONTENT', docs[m_]['struct'] + '/sibling', '%s differs from %s: %s' % (
                    docs[m_]['file'].split('/')[-1], docs[ref_m]['file'].split('/')[-1], _first_diff(sk[m_], sk[ref_m]) or 'another shape'), docs[m_]['loc'],
                    'the schema downloaded with these flags is not the schema downloaded without them'))
    # --- DOC-TABLE: which body reaches .json() for each flag combination
    blk = fn.body
    target = None
    for st in blk.get('stmts', []):
        if st['k'] == 'let' and st.get('init') is not None and st['init'].get('k') == 'struct' and st['init'].get('adt', '').endswith('QueryBody') and st['pat'].get('k') == 'bind':
            target = st['pat']['hid']
    def table_verdict(inst, m, sp):
        d = docs.get(m)
        if d is None:
            obs.append(bad('DOC-TABLE', inst, 'body comes from module `%s` which is not one of the derived introspection operations' % m, sp, 'wrong document'))
        elif d['isOneOf'] == one and d['specifiedByURL'] == url:
            obs.append(ok('DOC-TABLE', inst, '-> %s (isOneOf:%s specifiedByURL:%s)' % (d['file'].split('/')[-1], d['isOneOf'], d['specifiedByURL']), sp))
        else:
            obs.append(bad('DOC-TABLE', inst, 'selects %s whose document has isOneOf=%s specifiedByURL=%s' % (d['file'].split('/')[-1], d['isOneOf'], d['specifiedByURL']),
                           sp, 'the flags do not select the matching introspection document'))

    if target is None and len(docs) >= 4 and len(jsons) == 1:
        # the body is computed as a value (helper fn / match on the flags): select the literal that reaches .json()
        bt = ctx.pv.eval(fn, jsons[0]['args'][0], env, 0)
        for one, url in flag_assign:
            inst = 'introspect/flags(is_one_of=%s,specify_by_url=%s)' % (one, url)
            try:
                leaf = Q.select_leaf(Q.QEval(ctx.pv, [], flag_atoms(one, url)), bt)
            except Q.Undecided as ex:
                obs.append(undecided('DOC-TABLE', inst, 'cannot decide which body is sent (%s)' % ex, fn.loc))
                continue
            node = ctx.pv.fn_by_key[leaf[2]].nodes.get(leaf[3]) if leaf[0] == 'agg' and leaf[1].endswith('QueryBody') else None
            if node is None:
                obs.append(undecided('DOC-TABLE', inst, 'the value sent is not a QueryBody literal (%s)' % P.show(leaf, 0, 3)[:80], fn.loc))
            elif id(node) in mods:
                table_verdict(inst, mods[id(node)], node.get('sp', ''))
            elif (one, url) in computed and computed[(one, url)][1] is node:
                table_verdict(inst, computed[(one, url)][0], node.get('sp', ''))
            else:
                obs.append(undecided('DOC-TABLE', inst, 'the literal sent carries no decided document', node.get('sp', '')))
    elif target is None or len(docs) < 4:
        obs.append(undecided('DOC-TABLE', 'introspect/table', 'request body is not built as `let mut body = ..; if .. { body = .. }` nor as a value selected by the flags', fn.loc))
    else:
        def atoms_for(assign):
            def atoms(t):
                if t[0] == 'param' and t[3] in assign:
                    return assign[t[3]]
                return None
            return atoms
        for one in (False, True):
            for url in (False, True):
                cur = None
                undec = None
                for st in blk['stmts']:
                    if st['k'] == 'let' and st['pat'].get('hid') == target:
                        cur = st['init']
                    elif st['k'] == 'stmt' and st['e'].get('k') == 'if':
                        e = st['e']
                        assigns = [a for a in walk(e['then']) if a['k'] == 'assign' and a['l'].get('k') == 'path' and a['l']['res'].get('hid') == target]
                        eassigns = [a for a in walk(e['else']) if a['k'] == 'assign' and a['l'].get('k') == 'path' and a['l']['res'].get('hid') == target] if e.get('else') else []
                        if not assigns and not eassigns:
                            continue
                        try:
                            c = Q.QEval(ctx.pv, [], atoms_for({'is_one_of': one, 'specify_by_url': url})).ev(ctx.pv.eval(fn, e['cond'], env, 0))
                        except Q.Undecided as ex:
                            undec = str(ex)
                            break
                        if c is True and assigns:
                            cur = assigns[-1]['r']
                        elif c is False and eassigns:
                            cur = eassigns[-1]['r']
                inst = 'introspect/flags(is_one_of=%s,specify_by_url=%s)' % (one, url)
                if undec or cur is None or cur.get('k') != 'struct':
                    obs.append(undecided('DOC-TABLE', inst, 'cannot follow the assignments (%s)' % undec, fn.loc))
                    continue
                m_ = mods.get(id(cur))
                if m_ is None and (one, url) in computed and computed[(one, url)][1] is cur:
                    m_ = computed[(one, url)][0]     # one literal whose members are selected by the flags
                if m_ is None:
                    obs.append(undecided('DOC-TABLE', inst, 'the literal sent carries no decided document', cur.get('sp', '')))
                    continue
                table_verdict(inst, m_, cur.get('sp', ''))
    # --- STATUS + OUT-AFTER-SUCCESS (decided over introspect_schema together with the helpers it delegates to)

    def is_success_term(t):
        return t[0] == 'op' and t[1] == 'is_success'

    def gate(owner):
        """every way `owner` completes without an error was reached with is_success() == true"""
        t = ctx.pv.eval(owner, owner.body, H.sym_env(owner), 0)
        constrained = False
        leaks = []
        for conds, leaf in P.leaves(t):
            pol = None
            for c in conds:
                if c[0] == 'if' and is_success_term(c[1]):
                    pol = c[2]
            is_err = leaf[0] in ('err', 'diverge')
            if pol is not None:
                constrained = True
            if not is_err and pol is not True:
                leaks.append(P.show(leaf, 0, 2)[:40])
        return constrained and not leaks, leaks

    tests = [n for n in fl.mcalls('is_success') if 'StatusCode' in (n['recv'].get('ty', '') + n['recv'].get('aty', '') + ' '.join(H.callee_paths(n)))]
    jres = [n for n in fl.mcalls('json') if 'Response' in n['recv'].get('ty', '')]
    wr = [n for n in fl.calls() if any(p.endswith(('to_writer_pretty', 'to_writer')) and 'serde_json' in p for p in H.callee_paths(n))]
    creates_ = [n for n in fl.calls() if any(p.startswith(FS_WRITES) or p.endswith(('File::create', 'fs::write', 'OpenOptions::open')) for p in H.callee_paths(n))]

    def gated_by_success(node):
        """is `node` executed only after is_success() held?  (its own path conditions, or a preceding `?`-propagated
        helper that lets only successful responses through)"""
        for o_, pc in fl.path_conds(node):
            if pc[0] == 'if':
                c = P.canon_if(ctx.pv.eval(o_, pc[1], H.sym_env(o_), 0), pc[2])
                if is_success_term(c[1]) and c[2] is True:
                    return True, 'on the is_success() branch'
        for tnode in tests:
            ow = fl.owner_of(tnode)
            if ow is fn:
                continue
            g, _ = gate(ow)
            px = fl.proxy[id(tnode)]
            if g and fl.consumption(px)[0] == 'propagated' and fl.precedes(px, node)[0]:
                return True, 'after `%s(..)?`, which lets only 2xx responses through' % short(ow.path)
        return False, 'no is_success() condition on its path'

    if not tests:
        obs.append(bad('STATUS', 'introspect/status', 'no `status().is_success()` test', fn.loc, 'non-2xx replies are written as if they were schemas'))
    else:
        ow = fl.owner_of(tests[0])
        g, leaks = gate(ow)
        if g and (ow is fn or fl.consumption(fl.proxy[id(tests[0])])[0] == 'propagated'):
            obs.append(ok('STATUS', 'introspect/status', 'every non-2xx path ends in Err (%s)' % short(ow.path), tests[0].get('sp', '')))
        else:
            obs.append(bad('STATUS', 'introspect/status', 'a non-success status falls through to writing the body (non-error completions without is_success: %s)' % leaks[:3], tests[0].get('sp', ''),
                           'error replies are written to the output'))
        if jres and wr:
            kind, _ = fl.consumption(jres[0])
            p1, w1 = gated_by_success(wr[0])
            p2, w2 = fl.precedes(jres[0], wr[0])
            if kind == 'propagated' and p1 and p2:
                obs.append(ok('STATUS', 'introspect/json-before-write', 'body parsed as JSON (`?`) and status checked before anything is written', wr[0].get('sp', '')))
            else:
                obs.append(bad('STATUS', 'introspect/json-before-write', 'write is not preceded by the status check and a propagated JSON parse (%s; %s; %s)' % (kind, w1, w2), wr[0].get('sp', ''),
                               'a non-JSON or error reply is written'))
        else:
            obs.append(bad('STATUS', 'introspect/json-before-write', 'response.json()/to_writer calls not found', fn.loc, ''))
        for c in creates_:
            okp, why = gated_by_success(c)
            okj = fl.precedes(jres[0], c)[0] if jres else False
            if okp and okj:
                obs.append(ok('OUT-AFTER-SUCCESS', 'introspect/create', 'output file is created only after a 2xx JSON reply', c.get('sp', '')))
            else:
                obs.append(bad('OUT-AFTER-SUCCESS', 'introspect/create', 'the --output file is created/truncated before the request has succeeded', c.get('sp', ''),
                               'a failed run leaves an existing output file empty'))
        for c in creates_:
            tr, why = truncates(fl.owner_of(c), c)
            if tr:
                obs.append(ok('OUT-AFTER-SUCCESS', 'introspect/truncate', 'the output file is replaced, not overwritten in place (%s)' % why, c.get('sp', '')))
            else:
                obs.append(bad('OUT-AFTER-SUCCESS', 'introspect/truncate', 'the --output file is %s' % why, c.get('sp', ''),
                               'when the file already exists and is longer, the old tail stays: the output is not the server\'s JSON'))
        if not creates_:
            obs.append(bad('OUT-AFTER-SUCCESS', 'floor', 'anchor-missing: no file creation in introspect_schema'))
    # --- HEADER-GUARDS
    hf = [f for f in cli.all_fns() if f.path.endswith('from_str') and 'Header' in f.path and not f.from_macro]
    if not hf:
        obs.append(bad('HEADER-GUARDS', 'floor', 'anchor-missing: Header::from_str not found'))
    else:
        h = hf[0]
        henv = H.sym_env(h)
        guards = []
        for n in walk(h.body):
            if n['k'] == 'if' and (returns_err(n['then'])):
                guards.append(ctx.pv.eval(h, n['cond'], henv, 0))
        gtxt = [P.show(g, 0, 6) for g in guards]
        has_colon = any("contains" in g and "':'" in g and g.startswith('!') for g in gtxt)
        # or: the split itself refuses — `split_once(':')` / `find(':')` whose None is turned into Err
        for n in walk(h.body):
            if n['k'] == 'mcall' and n['method'] in ('split_once', 'find') and [a['lit']['v'] for a in n['args'] if a.get('k') == 'lit'] == [':']:
                kind, det = H.consumption(h, n)
                if kind == 'propagated':
                    has_colon = True
                elif kind == 'letelse':
                    has_colon = True
                elif kind == 'match':
                    for a in det['arms']:
                        ps = P.pat_summary(a['pat'])
                        if ps[0] == 'ctor' and ps[1].endswith('None') and (returns_err(a['body']) or (P.diverges(a['body']) and any(x['k'] == 'ret' and returns_err(x) for x in walk(a['body'])))):
                            has_colon = True
        has_empty = any('is_empty' in g for g in gtxt)
        has_ws = any('split' in g and 'count' in g or 'whitespace' in g for g in gtxt)
        # .. or, on the code: a rejecting `if` whose condition (through its named sub-expressions) splits the name at
        # whitespace / tests its characters for whitespace, however the multiplicity test is spelled
        for n in walk(h.body):
            if n['k'] == 'if' and returns_err(n['then']):
                for x in H.walk_through_locals(h, n['cond'], depth=5):
                    if x['k'] == 'mcall' and x['method'] in ('split_whitespace', 'split_ascii_whitespace'):
                        has_ws = True
                    if x['k'] == 'path' and (x.get('res') or {}).get('path', '').endswith(('char::is_whitespace', 'char::is_ascii_whitespace')):
                        has_ws = True
                    if x['k'] == 'mcall' and x['method'] in ('is_whitespace', 'is_ascii_whitespace'):
                        has_ws = True
        for name, good, what in (('colon', has_colon, 'input without a colon'), ('empty-name', has_empty, 'an empty header name'), ('whitespace-name', has_ws, 'a name containing whitespace')):
            if good:
                obs.append(ok('HEADER-GUARDS', 'Header::from_str/' + name, '%s is refused' % what, h.loc))
            else:
                obs.append(bad('HEADER-GUARDS', 'Header::from_str/' + name, 'no guard refuses %s (guards: %s)' % (what, gtxt), h.loc, 'a malformed --header is accepted'))
        # split at the FIRST colon, both parts trimmed
        splits = [n for n in walk(h.body) if n['k'] == 'mcall' and n['method'] in ('splitn', 'split_once', 'find', 'split', 'rsplitn', 'rsplit_once', 'rfind')]
        first = False
        for n in splits:
            if n['method'] == 'splitn' and [a['lit']['v'] for a in n['args'] if a.get('k') == 'lit'] == [2, ':']:
                first = True
            if n['method'] in ('split_once', 'find') and [a['lit']['v'] for a in n['args'] if a.get('k') == 'lit'] == [':']:
                first = True
        if not splits:
            obs.append(undecided('HEADER-GUARDS', 'Header::from_str/first-colon', 'split idiom not recognised', h.loc))
        elif first:
            obs.append(ok('HEADER-GUARDS', 'Header::from_str/first-colon', 'name/value split at the first colon', h.loc))
        else:
            obs.append(bad('HEADER-GUARDS', 'Header::from_str/first-colon', 'split is %s' % [(n['method'], [a['lit']['v'] for a in n['args'] if a.get('k') == 'lit']) for n in splits], h.loc,
                           'values containing colons are cut / split at the wrong colon'))
        aggs = [n for n in walk(h.body) if n['k'] == 'struct' and n.get('adt', '').endswith('Header')]
        if aggs:
            f = {x['name']: ctx.pv.eval(h, x['e'], henv, 0) for x in aggs[0]['fields']}
            nt = {x for _, xs in TM.paths(f.get('name', ('unit',))) for x in xs}
            vt = {x for _, xs in TM.paths(f.get('value', ('unit',))) for x in xs}
            idx = lambda t: sorted({s[3][1] for s in P.subterms(t) if s[0] == 'sel' and len(s) > 3 and s[3][0] == 'const'} |
                                   {s[2] for s in P.subterms(t) if s[0] == 'tproj' and s[1][0] == 'xf' and s[1][1] == 'split'})
            if 'trim' in nt and 'trim' in vt and idx(f['name']) == [0] and idx(f['value']) == [1]:
                obs.append(ok('HEADER-GUARDS', 'Header::from_str/parts', 'name = trimmed part before, value = trimmed part after the colon', h.loc))
            else:
                obs.append(bad('HEADER-GUARDS', 'Header::from_str/parts', 'name transforms %s index %s; value transforms %s index %s' % (sorted(nt), idx(f['name']), sorted(vt), idx(f['value'])), h.loc,
                               'name/value swapped or not trimmed'))
        # clap wiring: the flag's value type is Header
        cli_enum = cli.ast_item('Cli', 'enum')
        okw = False
        if cli_enum:
            for v in cli_enum['variants']:
                for f_ in v['fields']:
                    if f_['name'] == 'headers' and 'Header' in f_['ty'] and (item_attrs(f_, 'arg').get('long') == 'header' or item_attrs(f_, 'clap').get('long') == 'header'):
                        okw = True
                        # each occurrence of the flag is one header, handed to from_str whole
                        keys = {k for k in list(item_attrs(f_, 'arg')) + list(item_attrs(f_, 'clap')) if k != '__present__'}
                        splitting = sorted(keys & {'value_delimiter', 'use_value_delimiter', 'require_value_delimiter', 'value_terminator', 'num_args',
                                                   'value_parser', 'number_of_values', 'multiple_values', 'use_delimiter', 'require_delimiter'})
                        if splitting:
                            obs.append(bad('HEADER-GUARDS', 'cli/header-flag-split', 'the --header flag re-cuts / re-parses its value (%s) before Header::from_str sees it' % splitting, f_.get('loc', ''),
                                           'a header whose value contains the delimiter is refused or sent as several headers'))
                        else:
                            obs.append(ok('HEADER-GUARDS', 'cli/header-flag-split', 'one occurrence of --header = one header string', f_.get('loc', '')))
        if okw:
            obs.append(ok('HEADER-GUARDS', 'cli/header-flag', '--header values are parsed through Header::from_str', ''))
        else:
            obs.append(bad('HEADER-GUARDS', 'cli/header-flag', '--header is not a Vec<Header> flag', '', 'headers are not validated'))
    return obs


def _snake(name):
    s = re.sub(r'([a-z0-9])([A-Z])', r'\1_\2', name)
    s = re.sub(r'([A-Z]+)([A-Z][a-z])', r'\1_\2', s)
    return s.lower()


def _chain(fn, e):
    out = set()
    cur = e
    while cur is not None:
        if cur.get('k') == 'mcall':
            out.add(cur['method'])
            cur = cur['recv']
        elif cur.get('k') in ('wrap', 'ref'):
            cur = cur['e']
        else:
            cur = None
    return out
