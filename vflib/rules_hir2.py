"""Rules for C15 (envelope), C16 (ID helpers), C18 (derive options), C19 (CLI generate), C20 (introspect-schema)."""
import os
import re

from . import prov as P
from . import terms as TM
from . import hirx as H
from . import qeval as Q
from .core import Ob, ok, bad, undecided, short
from .facts import norm_path, REPO
from .rules_hir import walk, _may_panic, callgraph
from .rules_c06 import returns_err, is_err_ctor

REGISTRY = []


def rule(*ids):
    def deco(fn):
        REGISTRY.append((fn, ids))
        return fn
    return deco


def attr_args(attr_text, name):
    """'#[serde(untagged, rename = "x")]' -> dict of key->value for attribute `name`"""
    m = re.match(r'#\[\s*%s\s*\((.*)\)\s*\]\s*$' % name, attr_text.strip(), re.S)
    if not m:
        if re.match(r'#\[\s*%s\s*\]' % name, attr_text.strip()):
            return {}
        return None
    inner = m.group(1)
    out = {}
    depth = 0
    cur = ''
    parts = []
    instr = False
    for ch in inner:
        if ch == '"':
            instr = not instr
        if not instr:
            if ch in '([{':
                depth += 1
            elif ch in ')]}':
                depth -= 1
            elif ch == ',' and depth == 0:
                parts.append(cur)
                cur = ''
                continue
        cur += ch
    if cur.strip():
        parts.append(cur)
    for p_ in parts:
        p_ = p_.strip()
        if '=' in p_ and not p_.startswith('('):
            k, v = p_.split('=', 1)
            out[k.strip()] = v.strip().strip('"')
        else:
            mm = re.match(r'^(\w+)\s*\((.*)\)$', p_, re.S)
            if mm:
                out[mm.group(1)] = mm.group(2)
            else:
                out[p_] = True
    return out


def item_attrs(item, name):
    out = {}
    for a in item.get('attrs', []):
        d = attr_args(a, name)
        if d is not None:
            out.update(d)
            out.setdefault('__present__', True)
    return out


def derives_of(ctx, crate, type_path):
    out = set()
    for im in ctx.crate(crate).impls:
        if norm_path(im['self']).split('<')[0] == type_path and im.get('from_macro', '').startswith('derive:'):
            out.add(im['from_macro'].split(':', 1)[1])
    return out


# ================================================================================================
# C15
# ================================================================================================

ENVELOPE = {
    'Response': {'data': r'^Option<', 'errors': r'^Option<Vec<Error>>$', 'extensions': r'^Option<HashMap<String,\s*serde_json::Value>>$'},
    'Error': {'message': r'^String$', 'locations': r'^Option<Vec<Location>>$', 'path': r'^Option<Vec<PathFragment>>$',
              'extensions': r'^Option<HashMap<String,\s*serde_json::Value>>$'},
    'Location': {'line': r'^i(32|64)$|^u(32|64)$', 'column': r'^i(32|64)$|^u(32|64)$'},
}


@rule('ENV-ACCEPT', 'ENV-ROUNDTRIP', 'BODY-KEYS')
def rule_envelope(ctx):
    obs = []
    c = ctx.crate('client')
    for tname, fields in ENVELOPE.items():
        it = c.ast_item(tname, 'struct', '')
        if it is None:
            obs.append(bad('ENV-ACCEPT', 'floor/' + tname, 'anchor-missing: struct %s not found in graphql_client' % tname))
            continue
        sa = item_attrs(it, 'serde')
        loc = it['loc']
        if sa:
            keys = sorted(k for k in sa if k != '__present__')
            obs.append(bad('ENV-ACCEPT', tname + '/container-attrs', 'container carries serde(%s)' % ','.join(keys), loc,
                           'spec-shaped bodies rejected / members renamed' if keys else ''))
        else:
            obs.append(ok('ENV-ACCEPT', tname + '/container-attrs', 'no container serde attributes (unknown members ignored, keys = field names)', loc))
        have = {f['name']: f for f in it['fields']}
        for fname, pat in fields.items():
            f = have.get(fname)
            inst = '%s.%s' % (tname, fname)
            if f is None:
                obs.append(bad('ENV-ACCEPT', inst, 'member `%s` missing' % fname, loc, 'a spec member is dropped on deserialize'))
                continue
            ty = re.sub(r'\s+', '', f['ty']).replace(',', ', ') if False else re.sub(r'\s+', ' ', f['ty']).strip()
            tyn = ty.replace(' ', '')
            if not re.match(pat.replace(r'\s*', ''), tyn):
                obs.append(bad('ENV-ACCEPT', inst, 'member type is `%s`' % ty, f['loc'],
                               'a member the spec makes optional/nullable (or typed differently) is rejected'))
            else:
                obs.append(ok('ENV-ACCEPT', inst, 'type %s' % ty, f['loc']))
            fa = item_attrs(f, 'serde')
            if fa:
                keys = sorted(k for k in fa if k != '__present__')
                obs.append(bad('ENV-ROUNDTRIP', inst, 'member carries serde(%s)' % ','.join(keys), f['loc'],
                               'deserialize(serialize(r)) != r (member skipped, renamed one way, defaulted or flattened)'))
            else:
                obs.append(ok('ENV-ROUNDTRIP', inst, 'no serde attribute: same key, always written, in both directions', f['loc']))
        extra = set(have) - set(fields)
        for e in sorted(extra):
            f = have[e]
            tyn = f['ty'].replace(' ', '')
            if not tyn.startswith('Option<') and not item_attrs(f, 'serde').get('default'):
                obs.append(bad('ENV-ACCEPT', '%s.%s' % (tname, e), 'extra required member `%s: %s`' % (e, f['ty']), f['loc'],
                               'bodies without this non-spec member are rejected'))
        ds = derives_of(ctx, 'client', 'graphql_client::' + tname)
        for need in ('Serialize', 'Deserialize', 'PartialEq'):
            if need in ds:
                obs.append(ok('ENV-ROUNDTRIP', '%s/derive-%s' % (tname, need), 'derived', loc))
            else:
                obs.append(bad('ENV-ROUNDTRIP', '%s/derive-%s' % (tname, need), '%s is not derived for %s (hand-written or absent)' % (need, tname), loc,
                               'the two directions may use different keys / equality is not structural'))
    # PathFragment
    pf = c.ast_item('PathFragment', 'enum', '')
    if pf is None:
        obs.append(bad('ENV-ACCEPT', 'floor/PathFragment', 'anchor-missing: enum PathFragment not found'))
    else:
        sa = item_attrs(pf, 'serde')
        keys = {k for k in sa if k != '__present__'}
        if keys != {'untagged'}:
            obs.append(bad('ENV-ACCEPT', 'PathFragment/untagged', 'container attributes are serde(%s), expected exactly `untagged`' % ','.join(sorted(keys)), pf['loc'],
                           'path entries are not bare strings / integers'))
        else:
            obs.append(ok('ENV-ACCEPT', 'PathFragment/untagged', 'untagged', pf['loc']))
        kinds = []
        for v in pf['variants']:
            tys = [f['ty'].replace(' ', '') for f in v['fields']]
            if item_attrs(v, 'serde'):
                obs.append(bad('ENV-ROUNDTRIP', 'PathFragment.' + v['name'], 'variant carries a serde attribute', v['loc'], 'round trip broken'))
            if len(tys) != 1:
                kinds.append('?')
            elif tys[0] == 'String':
                kinds.append('string')
            elif re.match(r'^[iu](8|16|32|64|size)$', tys[0]):
                kinds.append('int')
            else:
                kinds.append('?' + tys[0])
        if sorted(kinds) == ['int', 'string']:
            obs.append(ok('ENV-ACCEPT', 'PathFragment/variants', 'one string and one integer variant (disjoint JSON kinds)', pf['loc']))
        else:
            obs.append(bad('ENV-ACCEPT', 'PathFragment/variants', 'variants are %s, expected a string and an integer newtype' % kinds, pf['loc'],
                           'mixed string/integer paths are rejected or confused'))
        ds = derives_of(ctx, 'client', 'graphql_client::PathFragment')
        for need in ('Serialize', 'Deserialize', 'PartialEq'):
            if need not in ds:
                obs.append(bad('ENV-ROUNDTRIP', 'PathFragment/derive-' + need, '%s not derived' % need, pf['loc'], 'round trip / equality'))
    # Location default = 0:0
    if 'Default' in derives_of(ctx, 'client', 'graphql_client::Location'):
        obs.append(ok('DISPLAY-FORMAT', 'Location/default', 'Default derived on two integer members (0:0)'))
    else:
        obs.append(bad('DISPLAY-FORMAT', 'Location/default', 'Location does not derive Default', '', 'absent location does not print as 0:0'))
    # no deny_unknown_fields anywhere in the crate
    for it in c.ast_items:
        if it['kind'] in ('struct', 'enum') and 'deny_unknown_fields' in ' '.join(it.get('attrs', [])):
            obs.append(bad('ENV-ACCEPT', it['name'] + '/deny_unknown_fields', 'deny_unknown_fields', it['loc'], 'unknown members are rejected'))
    # QueryBody keys (C05)
    qb = c.ast_item('QueryBody', 'struct', '')
    if qb is None:
        obs.append(bad('BODY-KEYS', 'floor', 'anchor-missing: QueryBody not found'))
    else:
        keys = []
        for f in qb['fields']:
            fa = item_attrs(f, 'serde')
            extra = {k for k in fa if k not in ('rename', '__present__')}
            if extra:
                obs.append(bad('BODY-KEYS', 'QueryBody.' + f['name'], 'member carries serde(%s)' % ','.join(sorted(extra)), f['loc'],
                               'a member of the request body is conditional / altered'))
            keys.append(fa.get('rename', f['name']))
        ca = item_attrs(qb, 'serde')
        if {k for k in ca if k != '__present__'}:
            obs.append(bad('BODY-KEYS', 'QueryBody/container', 'container carries serde(%s)' % ','.join(sorted(ca)), qb['loc'], 'keys renamed'))
        if sorted(keys) == ['operationName', 'query', 'variables']:
            obs.append(ok('BODY-KEYS', 'QueryBody/keys', 'wire keys are exactly variables, query, operationName', qb['loc']))
        else:
            obs.append(bad('BODY-KEYS', 'QueryBody/keys', 'wire keys are %s' % sorted(keys), qb['loc'], 'the server does not find query/operationName/variables'))
        if 'Serialize' not in derives_of(ctx, 'client', 'graphql_client::QueryBody'):
            obs.append(bad('BODY-KEYS', 'QueryBody/derive', 'Serialize is not derived', qb['loc'], 'keys may differ from the field names'))
        # cross-check with the expansion: string constants passed to serialize_field
        lits = set()
        for fn in c.all_fns():
            if fn.from_macro == 'derive:Serialize' and 'QueryBody' in fn.path:
                for n in fn.walk(lambda n: n['k'] == 'lit' and n['lit']['lk'] == 'str'):
                    lits.add(n['lit']['v'])
        if lits and not {'operationName', 'query', 'variables'} <= lits:
            obs.append(bad('BODY-KEYS', 'QueryBody/expansion', 'attribute model out of sync with the derive expansion (%s)' % sorted(lits), qb['loc'], ''))
        elif lits:
            obs.append(ok('BODY-KEYS', 'QueryBody/expansion', 'derive expansion serializes the same three keys', qb['loc']))
    return obs


def _irrefutable(p):
    if not isinstance(p, tuple) or not p:
        return False
    if p[0] in ('wild', 'bind'):
        return True
    if p[0] == 'slice':
        return p[2] and len(p[1]) == 0
    if p[0] == 'tuple':
        return all(_irrefutable(x) for x in p[1])
    return False


def _covers_some(pats):
    """do these patterns (arms before the fallback) match every `Some(_)`?"""
    subs = [p[2][0] for p in pats if isinstance(p, tuple) and p and p[0] == 'ctor' and p[1].endswith('Some') and len(p[2]) == 1]
    if any(_irrefutable(x) for x in subs):
        return True
    slices = [x for x in subs if x[0] == 'slice']
    # [] together with [_, ..]
    has_empty = any(len(x[1]) == 0 and not x[2] for x in slices)
    has_nonempty = any(len(x[1]) == 1 and x[2] and all(_irrefutable(y) for y in x[1]) for x in slices)
    return has_empty and has_nonempty


def _placeholder_only_when_absent(t):
    """is the "<query>" constant selected exactly when Error.path is None?  ('ok' | 'bad' | 'undecided', reason)"""
    has = lambda x: '<query>' in TM.consts_in(x)
    while t[0] in ('xf', 'ident') and has(t):
        t = t[2] if t[0] == 'xf' else t[1]
    if t[0] == 'orelse' and has(t[2]) and not has(t[1]):
        x = t[1]
        narrowing = [lf for cs_, lf in P.leaves(x) if isinstance(lf, tuple) and lf and (lf[0] == 'none' or (lf[0] == 'op' and lf[1] in ('filter', 'then', 'then_some')))]
        if narrowing:
            return 'bad', 'the mapped path can itself be None (%s) before the fallback applies' % P.show(narrowing[0], 0, 2)[:60]
        return 'ok', 'fallback of the mapped Option'
    if t[0] == 'match':
        arms = t[2]
        for i, (pat, body) in enumerate(arms):
            if not has(body):
                continue
            if pat[0] == 'ctor' and pat[1].endswith('None'):
                return 'ok', 'the None arm'
            if pat[0] in ('wild', 'bind'):
                if _covers_some([p for p, b in arms[:i]]):
                    return 'ok', 'catch-all after arms that cover every Some(_)'
                return 'bad', 'the catch-all arm also takes `Some(..)` values the earlier arms (%s) do not match' % ', '.join(P.show_pat(p) for p, b in arms[:i])[:80]
            return 'undecided', 'placeholder arm pattern %s' % P.show_pat(pat)[:60]
    if t[0] == 'if':
        _, cond, pol = P.canon_if(t[1], True)
        if cond[0] == 'op' and cond[1] in ('is_some', 'is_none') and len(cond[2]) == 1:
            some_branch = t[2] if (cond[1] == 'is_some') == pol else t[3]
            none_branch = t[3] if (cond[1] == 'is_some') == pol else t[2]
            if has(none_branch) and not has(some_branch):
                return 'ok', 'the branch where the path is None'
            return 'bad', 'the placeholder is in the branch where the path is present'
        return 'bad' if any(s_[0] == 'op' and s_[1] in ('is_empty', 'len') for s_ in P.subterms(t[1]) if isinstance(s_, tuple) and s_) else 'undecided', 'condition %s' % P.show(t[1], 0, 3)[:80]
    return 'undecided', P.show(t, 0, 2)[:80]


@rule('DISPLAY-FORMAT', 'DISPLAY-TOTAL')
def rule_display(ctx):
    obs = []
    c = ctx.crate('client')
    fmts = [fn for fn in c.all_fns() if fn.path.endswith('::fmt') and 'Display' in (fn.d.get('impl_trait') or '') and not fn.from_macro]
    err = [fn for fn in fmts if (fn.d.get('impl_self') or '').endswith('graphql_client::Error')]
    pfr = [fn for fn in fmts if (fn.d.get('impl_self') or '').endswith('graphql_client::PathFragment')]
    if not err or not pfr:
        return [bad('DISPLAY-FORMAT', 'floor', 'anchor-missing: Display impls of Error / PathFragment not found')]
    for fn in err + pfr:
        rs = _may_panic(ctx, fn, fn.body)
        idx = [n for n in walk(fn.body) if n['k'] == 'index']
        inst = short(fn.d.get('impl_self', '?')) + '::fmt'
        if rs or idx:
            obs.append(bad('DISPLAY-TOTAL', inst, 'Display can panic: %s' % '; '.join(rs[:3] + ['indexing'] * bool(idx)), fn.loc,
                           'formatting an error aborts the caller'))
        else:
            # `x.len() - 1` (and any other unsigned subtraction from a length): panics in debug builds when the length is 0
            under = [n_ for _f, n_ in H.deep_nodes(ctx, fn, fn.body, 1) if n_.get('k') in ('binary', 'assignop') and str(n_.get('op')) in ('-', 'Sub', 'SubAssign', '-=')
                     and any(y_.get('k') == 'mcall' and y_['method'] in ('len', 'count') for y_ in walk(n_.get('l') or {}))]
            if under:
                obs.append(bad('DISPLAY-TOTAL', inst, 'Display can panic: unchecked subtraction from a length (`len() - n`)', under[0].get('sp', fn.loc),
                               'formatting an error with an empty list aborts the caller (debug) or prints garbage (release)'))
            else:
                obs.append(ok('DISPLAY-TOTAL', inst, 'no unwrap/expect/panic/indexing reachable', fn.loc))
    fn = err[0]
    # the final write!
    ws = [n for n in walk(fn.body) if n['k'] == 'macro' and n['name'].split('::')[-1] == 'write']
    tail = fn.body.get('expr')
    while tail is not None and tail.get('k') in ('wrap', 'try'):
        tail = tail['e']
    final = None
    for w in ws:
        if w is tail:
            final = w
    if final is None:
        obs.append(undecided('DISPLAY-FORMAT', 'Error::fmt/shape', 'Error::fmt does not end in a write! call', fn.loc))
        return obs
    fs = P.fmt_string(final['text'])
    fargs = []
    for a in final['args']:
        n = fn.nodes.get(a['id'])
        if n is not None and a['how'] == 'span' and 'Formatter' not in n.get('ty', ''):
            fargs.append(n)
    # named / captured / indexed placeholders (`{path}:{line}:..`, `path = ..`) are read positionally
    plan = P.fmt_plan(final['text'], len(fargs))
    if plan is not None:
        fs = plan[0]
    if fs != '{}:{}:{}: {}':
        obs.append(bad('DISPLAY-FORMAT', 'Error::fmt/pieces', 'format string is %r, expected "{}:{}:{}: {}"' % fs, final.get('sp', ''),
                       'Display is not `path:line:column: message`'))
    else:
        obs.append(ok('DISPLAY-FORMAT', 'Error::fmt/pieces', 'format string "{}:{}:{}: {}"', final.get('sp', '')))
    args = [fargs[i] for i in plan[1]] if plan is not None else fargs
    if len(args) != 4:
        obs.append(undecided('DISPLAY-FORMAT', 'Error::fmt/args', 'expected 4 format arguments, found %d' % len(args), final.get('sp', '')))
        return obs
    ts = [ctx.pv.eval(fn, a, H.sym_env(fn), 0) for a in args]
    want = [('path', {'Error.path'}), ('line', {'Location.line'}), ('column', {'Location.column'}), ('message', {'Error.message'})]
    for (name, need), t, a in zip(want, ts, args):
        got = TM.fields_in(t)
        last = {f for f in got if f in ('Error.path', 'Error.message', 'Location.line', 'Location.column')}
        if name in ('line', 'column'):
            # the outermost field must be the right member
            top = t
            while top[0] in ('orelse', 'join') and False:
                pass
            tops = {o[1] for o, _ in TM.paths(t) if o[0] == 'field'}
            good = tops == need
        else:
            good = need <= got and not (last - need - {'Error.path'})
        if good:
            obs.append(ok('DISPLAY-FORMAT', 'Error::fmt/arg-' + name, 'argument %s derives from %s' % (name, sorted(need)), a.get('sp', '')))
        else:
            obs.append(bad('DISPLAY-FORMAT', 'Error::fmt/arg-' + name, 'argument in the `%s` position derives from %s' % (name, sorted(got)), a.get('sp', ''),
                           'Display prints members in the wrong position'))
    # path: separator '/', absent -> "<query>"
    consts = TM.consts_in(ts[0])
    fmt_strs = {s[1] for s in P.subterms(ts[0]) if s[0] == 'fmt'}
    if '<query>' in consts:
        verdict, why = _placeholder_only_when_absent(ts[0])
        if verdict == 'ok':
            obs.append(ok('DISPLAY-FORMAT', 'Error::fmt/absent-path', 'absent path prints as <query> (%s)' % why, args[0].get('sp', '')))
        elif verdict == 'bad':
            obs.append(bad('DISPLAY-FORMAT', 'Error::fmt/absent-path', 'the "<query>" placeholder is also printed for a path that is present: ' + why, args[0].get('sp', ''),
                           'a present (e.g. empty) path is indistinguishable from an absent one'))
        else:
            obs.append(undecided('DISPLAY-FORMAT', 'Error::fmt/absent-path', '"<query>" fallback present, its condition is not recognised: ' + why, args[0].get('sp', '')))
    else:
        obs.append(bad('DISPLAY-FORMAT', 'Error::fmt/absent-path', 'no "<query>" fallback for an absent path (constants: %s)' % sorted(map(str, consts))[:5],
                       args[0].get('sp', ''), 'absent path prints differently'))
    sep_ok = any('/' in str(s) for s in fmt_strs) or '/' in consts
    if sep_ok:
        obs.append(ok('DISPLAY-FORMAT', 'Error::fmt/separator', 'path fragments joined with "/"', args[0].get('sp', '')))
    else:
        obs.append(bad('DISPLAY-FORMAT', 'Error::fmt/separator', 'path separator "/" not found (format strings %s)' % sorted(fmt_strs), args[0].get('sp', ''),
                       'path is not /-joined'))
    # location: the FIRST one; fallback default
    loc_methods = set()
    hid = None
    for a in (args[1], args[2]):
        b = a
        while b.get('k') in ('field', 'ref', 'wrap', 'unary'):
            b = b.get('base') or b.get('e')
        if b.get('k') == 'path' and b['res'].get('r') == 'local':
            hid = b['res']['hid']
    if hid:
        for src in fn.binds.get(hid, []):
            if src[0] == 'expr':
                for _f, n in H.deep_nodes(ctx, fn, src[1], 2):
                    if n['k'] == 'mcall':
                        loc_methods.add(n['method'])
                    elif n['k'] == 'path' and (n.get('res') or {}).get('r') == 'def' and n['res'].get('dk') in ('Fn', 'AssocFn'):
                        # a method handed over as a function item: `.and_then(<[Location]>::first)`
                        loc_methods.add(n['res'].get('path', '').rsplit('::', 1)[-1])
    badm = loc_methods & {'last', 'rev', 'next_back', 'max', 'min', 'nth', 'skip', 'max_by_key', 'min_by_key', 'pop'}
    if not loc_methods:
        obs.append(undecided('DISPLAY-FORMAT', 'Error::fmt/first-location', 'location expression not recognised', fn.loc))
    elif badm:
        obs.append(bad('DISPLAY-FORMAT', 'Error::fmt/first-location', 'location is selected with %s' % sorted(badm), fn.loc, 'not the first location'))
    elif loc_methods & {'next', 'first'} and loc_methods & {'unwrap_or_default', 'unwrap_or', 'unwrap_or_else'}:
        obs.append(ok('DISPLAY-FORMAT', 'Error::fmt/first-location', 'first location (%s), default when absent' % sorted(loc_methods & {'next', 'first'}), fn.loc))
        # ... and that default is 0:0
        zero = None
        why = ''
        if 'unwrap_or_default' in loc_methods:
            dflt = [f_ for f_ in c.all_fns() if f_.path.endswith('::default') and (f_.d.get('impl_self') or '').endswith('graphql_client::Location')]
            if not dflt:
                why = 'no Default impl of Location found'
            elif dflt[0].from_macro:
                loc_item = [it for it in c.ast_items if it['kind'] == 'struct' and it['name'] == 'Location']
                tys = {f_['ty'].replace(' ', '') for f_ in loc_item[0]['fields']} if loc_item else set()
                zero = bool(tys) and tys <= {'i32', 'i64', 'u32', 'u64', 'usize', 'isize', 'i16', 'u16', 'u8', 'i8'}
                why = 'derived Default over %s' % sorted(tys)
            else:
                lits = [n_['lit']['v'] for n_ in walk(dflt[0].body) if n_['k'] == 'lit']
                structs = [n_ for n_ in walk(dflt[0].body) if n_['k'] == 'struct']
                zero = bool(structs) and len(lits) >= 2 and all(v == 0 for v in lits)
                why = 'manual Default impl with constants %s' % lits
        else:
            for src in fn.binds.get(hid, []) if hid else []:
                if src[0] == 'expr':
                    for _f, n_ in H.deep_nodes(ctx, fn, src[1], 2):
                        if n_['k'] == 'mcall' and n_['method'] in ('unwrap_or', 'unwrap_or_else') and n_['args']:
                            lits = [x['lit']['v'] for x in walk(n_['args'][0]) if x['k'] == 'lit']
                            zero = len(lits) >= 2 and all(v == 0 for v in lits)
                            why = 'fallback constants %s' % lits
        if zero:
            obs.append(ok('DISPLAY-FORMAT', 'Error::fmt/absent-location', 'an absent location prints as 0:0 (%s)' % why, fn.loc))
        elif zero is None:
            obs.append(undecided('DISPLAY-FORMAT', 'Error::fmt/absent-location', 'fallback location not recognised (%s)' % why, fn.loc))
        else:
            obs.append(bad('DISPLAY-FORMAT', 'Error::fmt/absent-location', 'an absent location does not print as 0:0 (%s)' % why, fn.loc, 'errors without a location print a made-up position'))
    else:
        obs.append(bad('DISPLAY-FORMAT', 'Error::fmt/first-location', 'location expression uses %s: first element / default fallback not established' % sorted(loc_methods), fn.loc,
                       'wrong or missing location'))
    return obs


# ================================================================================================
# C16 — helpers in graphql_client::serde_with
# ================================================================================================

@rule('ID-HELPER')
def rule_id_helper(ctx):
    obs = []
    c = ctx.crate('client')
    ios = [it for it in c.ast_items if it['kind'] == 'enum' and it['module'] == 'serde_with']
    helper_enum = None
    for it in ios:
        if 'untagged' in item_attrs(it, 'serde'):
            helper_enum = it
    if helper_enum is None:
        # the shape may live elsewhere in the crate: take the enum that deserialize_id actually deserializes
        did = ctx.fn('client', 'graphql_client::serde_with::deserialize_id')
        for n in (H.calls_in(did) if did is not None else []):
            if any(pth.endswith(('Deserialize>::deserialize', 'Deserialize::deserialize')) for pth in H.callee_paths(n)):
                txt_ = ((n.get('callee') or {}).get('resolved') or '') + ' ' + ((n.get('callee') or {}).get('gargs') or '')
                for m_ in re.finditer(r'graphql_client::(?:\w+::)*(\w+)', txt_):
                    it_ = c.ast_item(m_.group(1), 'enum')
                    if it_ is not None:
                        helper_enum = it_
    if helper_enum is None:
        return [bad('ID-HELPER', 'floor', 'anchor-missing: no untagged helper enum in graphql_client::serde_with')]
    loc = helper_enum['loc']
    kinds = {}
    for v in helper_enum['variants']:
        tys = [f['ty'].replace(' ', '') for f in v['fields']]
        kinds[v['name']] = tys
        if item_attrs(v, 'serde'):
            obs.append(bad('ID-HELPER', 'enum/variant-attr', 'variant %s carries a serde attribute' % v['name'], v['loc'], 'other JSON kinds accepted'))
    flat = sorted(t for tys in kinds.values() for t in tys)
    if flat == ['String', 'i64'] and all(len(t) == 1 for t in kinds.values()):
        obs.append(ok('ID-HELPER', 'enum/variants', 'untagged over exactly i64 and String', loc))
    else:
        obs.append(bad('ID-HELPER', 'enum/variants', 'helper enum variants are %s, expected exactly (i64) and (String)' % kinds, loc,
                       'floats/bools/other kinds accepted, or 64-bit integers rejected'))
    ca = {k for k in item_attrs(helper_enum, 'serde') if k != '__present__'}
    if ca != {'untagged'}:
        obs.append(bad('ID-HELPER', 'enum/attrs', 'container attributes %s' % sorted(ca), loc, ''))
    ename = 'graphql_client::' + (helper_enum['module'] + '::' if helper_enum.get('module') else '') + helper_enum['name']
    # conversion: Int(n) -> n.to_string(), Str(s) -> s
    conv = [fn for fn in c.all_fns() if 'From<' + ename in (fn.d.get('impl_trait') or '') or ('std::convert::From<%s>' % ename) in norm_path(fn.path)]
    # any function of the crate taking exactly the helper enum and returning String (a From impl, an inherent method, a free fn)
    conv = [fn for fn in c.all_fns() if not fn.from_macro and len(fn.d.get('inputs', [])) == 1 and
            (fn.d['inputs'][0].replace('&', '').strip() == ename or fn.d['inputs'][0].replace('&', '').strip().endswith('::' + helper_enum['name']))
            and fn.d.get('output', '').replace('std::string::String', 'String').replace('alloc::string::String', 'String') == 'String']
    conv_paths = {norm_path(fn.path) for fn in conv}
    if not conv:
        obs.append(bad('ID-HELPER', 'conversion/floor', 'anchor-missing: no function converting the helper enum into String found', loc))
    else:
        fn = conv[0]
        t = ctx.pv.eval(fn, fn.body, H.sym_env(fn), 0)
        arms = t[2] if t[0] == 'match' else ()
        good = len(arms) == 2
        for pat, arm in arms:
            ps = list(TM.paths(arm))
            # each arm returns its own payload, at most through to_string
            if arm[0] not in ('cproj',) and not (arm[0] == 'call' and arm[1].endswith('to_string')):
                good = False
            if arm[0] == 'cproj' and arm[2].split('::')[-1] != pat[1].split('::')[-1]:
                good = False
        if good:
            obs.append(ok('ID-HELPER', 'conversion', 'Int(n) -> n.to_string(), Str(s) -> s', fn.loc))
        else:
            obs.append(bad('ID-HELPER', 'conversion', 'conversion to String is not the identity on strings / decimal on integers: %s' % P.show(t, 0, 5)[:200], fn.loc,
                           'IDs are altered (not canonical)'))
    # the two helpers: signatures and what they deserialize
    for name, ret, needs_option in (('deserialize_id', 'String', False), ('deserialize_option_id', 'std::option::Option<std::string::String>', True)):
        fn = ctx.fn('client', 'graphql_client::serde_with::' + name)
        if fn is None:
            obs.append(bad('ID-HELPER', name + '/floor', 'anchor-missing: %s not found' % name))
            continue
        out = fn.d.get('output', '')
        m = re.match(r'^std::result::Result<(.+), <D as [\w:]*Deserializer<\'de>>::Error>$', out)
        inner = m.group(1) if m else out
        inner_n = inner.replace('std::string::String', 'String')
        want = ret.replace('std::string::String', 'String')
        if inner_n != want or fn.d.get('vis') != 'Public':
            obs.append(bad('ID-HELPER', name + '/signature', 'returns %s (vis %s), expected pub fn -> Result<%s, D::Error>' % (inner, fn.d.get('vis'), want), fn.loc,
                           'generated code does not type-check'))
        else:
            obs.append(ok('ID-HELPER', name + '/signature', 'pub fn -> Result<%s, D::Error>' % want, fn.loc))
        # which type is deserialized
        des = []
        for n in H.calls_in(fn):
            for pth in H.callee_paths(n):
                if pth.endswith('Deserialize>::deserialize') or pth.endswith('Deserialize::deserialize'):
                    des.append((n, (n.get('callee') or {}).get('resolved') or '', (n.get('callee') or {}).get('gargs', '')))
        txt = ' '.join(r + ' ' + g for _, r, g in des)
        if helper_enum['name'] not in txt:
            obs.append(bad('ID-HELPER', name + '/deserializes', 'helper does not deserialize through the Int|Str enum (%s)' % txt[:120], fn.loc,
                           'integers are rejected or other kinds accepted'))
        elif needs_option and 'Option' not in txt:
            obs.append(bad('ID-HELPER', name + '/deserializes', 'nullable helper does not deserialize Option<Int|Str>', fn.loc, 'null is rejected'))
        elif not needs_option and 'Option' in txt:
            obs.append(bad('ID-HELPER', name + '/deserializes', 'non-null helper deserializes an Option', fn.loc, 'null accepted at a non-null position'))
        else:
            obs.append(ok('ID-HELPER', name + '/deserializes', 'deserializes %s%s' % ('Option<' if needs_option else '', helper_enum['name']) + ('>' if needs_option else ''), fn.loc))
        # conversion applied: String::from / Into
        conv_calls = [n for n in walk(fn.body) if (n['k'] == 'path' and (n['res'].get('path', '').endswith(('From::from', 'Into::into')) or norm_path(n['res'].get('path', '')) in conv_paths)) or
                      (n['k'] in ('call', 'mcall') and any(pp.endswith(('From::from', 'Into::into', '::from')) or norm_path(pp) in conv_paths for pp in H.callee_paths(n)))]
        if not conv_calls:
            obs.append(bad('ID-HELPER', name + '/converts', 'no conversion of the helper enum into String', fn.loc, ''))
    return obs


# ================================================================================================
# C18 — derive attribute plumbing
# ================================================================================================

ATTR_TABLE = {
    'set_variables_derives': ('extract_attr', 'variables_derives'),
    'set_response_derives': ('extract_attr', 'response_derives'),
    'set_custom_scalars_module': ('extract_attr', 'custom_scalars_module'),
    'set_extern_enums': ('extract_attr_list', 'extern_enums'),
    'set_fragments_other_variant': ('extract_fragments_other_variant', None),
    'set_skip_serializing_none': ('extract_skip_serializing_none', None),
    'set_deprecation_strategy': ('extract_deprecation_strategy', None),
    'set_normalization': ('extract_normalization', None),
}
WRAPPER_KEYS = {
    'extract_fragments_other_variant': 'fragments_other_variant',
    'extract_skip_serializing_none': 'skip_serializing_none',
    'extract_deprecation_strategy': 'deprecated',
    'extract_normalization': 'normalization',
}


def _calls_in_term(t):
    return [(s[1], s[2]) for s in P.subterms(t) if s[0] == 'call']


@rule('ATTR-PLUMB', 'ATTR-DEFAULTS', 'ATTR-PATHS', 'ATTR-MODE')
def rule_derive_options(ctx):
    obs = []
    fn = ctx.fn('derive', 'graphql_query_derive::build_graphql_client_derive_options')
    if fn is None:
        return [bad('ATTR-PLUMB', 'floor', 'anchor-missing: build_graphql_client_derive_options not found')]
    setters = {}
    owner = {}
    # the options builder and the helper fns of the derive crate it delegates to
    cg_ = callgraph(ctx)
    scope = [fn] + [f_ for f_ in (ctx.fn_by_key(k_) for k_ in sorted(cg_.reachable([fn.key])) if k_ != fn.key)
                    if f_ is not None and not f_.from_macro and f_.key.startswith('derive::') and '::attributes::' not in f_.path]
    for f_ in scope:
        for n in H.calls_in(f_):
            if n['k'] == 'mcall' and n['method'].startswith('set_') and ctx.pv.local_fns(n.get('callee')):
                setters.setdefault(n['method'], []).append(n)
                owner[id(n)] = f_
    env = H.sym_env(fn)
    envs_ = {}

    def env_of(n_):
        f_ = owner.get(id(n_), fn)
        if f_.key not in envs_:
            envs_[f_.key] = H.sym_env(f_)
        return f_, envs_[f_.key]
    for setter, (extractor, key) in ATTR_TABLE.items():
        inst = 'derive/' + setter
        calls = setters.get(setter, [])
        if not calls:
            obs.append(bad('ATTR-PLUMB', inst, 'option setter %s is never called by the derive' % setter, fn.loc,
                           'the attribute is silently ignored'))
            continue
        n = calls[0]
        nf, nenv = env_of(n)
        t = ctx.pv.eval(nf, n['args'][0], nenv, 0)
        cs = _calls_in_term(t)
        if not any('attributes::' in p for p, a in cs):
            # `apply(extract_x(input), |v| options.set_x(v))`: the setter sits in a closure handed to a private helper
            # together with the extraction result — the closure parameter is that result
            for par_, role_, _c in nf.ancestors(n):
                if par_.get('k') == 'closure':
                    pr_ = nf.parent.get(id(par_))
                    while pr_ and pr_[0] is not None and pr_[0].get('k') in ('wrap', 'ref'):
                        pr_ = nf.parent.get(id(pr_[0]))
                    if pr_ and pr_[0] is not None and pr_[0].get('k') in ('call', 'mcall') and ctx.pv.local_fns(pr_[0].get('callee')):
                        for a_ in pr_[0].get('args', []):
                            if a_ is par_ or any(x_ is par_ for x_ in walk(a_)):
                                continue
                            t2_ = ctx.pv.eval(nf, a_, nenv, 0)
                            cs2_ = _calls_in_term(t2_)
                            if any('attributes::' in p for p, a in cs2_):
                                t = t2_
                                cs = cs2_
                    break
        hit = [(p, a) for p, a in cs if p.endswith('attributes::' + extractor)]
        others = [(p, a) for p, a in cs if 'attributes::' in p and not p.endswith('attributes::' + extractor)]
        if not hit and others and key is not None:
            # a new wrapper of the attributes module: accepted when all it reads is this option's key
            still = []
            for p_, a_ in others:
                wf_ = ctx.fn('derive', p_)
                wkeys = set()
                if wf_ is not None:
                    for c_ in H.calls_in(wf_):
                        if ctx.pv.local_fns(c_.get('callee')):
                            for x_ in c_['args']:
                                if x_.get('k') == 'lit' and x_['lit'].get('lk') == 'str':
                                    wkeys.add(x_['lit']['v'])
                if wkeys == {key}:
                    hit.append((p_, (('const', key),)))
                else:
                    still.append((p_, a_))
            others = still
        if not hit or others:
            obs.append(bad('ATTR-PLUMB', inst, '%s receives %s' % (setter, [p.split('::')[-1] + str([x[1] for x in a if x[0] == 'const']) for p, a in cs if 'attributes::' in p]),
                           n.get('sp', ''), 'a value written under one key configures another option'))
            continue
        if key is not None:
            keys = {x[1] for p, a in hit for x in a if x[0] == 'const'}
            if keys != {key}:
                obs.append(bad('ATTR-PLUMB', inst, '%s is fed from key(s) %s, expected "%s"' % (setter, sorted(keys), key), n.get('sp', ''),
                               'a value written under one key configures another option'))
                continue
        # only neutral transforms in between
        xfs = {x for _, x in TM.paths(t) for x in x}
        if xfs - {'parse'}:
            obs.append(bad('ATTR-PLUMB', inst, 'value is transformed on the way to the option: %s' % sorted(xfs), n.get('sp', ''), 'option value differs from what was written'))
        else:
            obs.append(ok('ATTR-PLUMB', inst, '%s <- %s(%s)' % (setter, extractor, key or 'wrapper'), n.get('sp', '')))
        # .. whenever its own key was extracted, whatever the other keys gave: a setter in an arm of a match over several
        # extraction results must be the first-matching arm for every combination in which its own result is Ok
        for par_, role_, _c in nf.ancestors(n):
            if par_.get('k') == 'match' and isinstance(role_, tuple) and role_[0] == 'arms' and par_['scrut'].get('k') == 'tup' and len(par_['scrut']['es']) >= 2:
                comps = par_['scrut']['es']
                own = None
                # the component whose extractor is the one feeding this setter
                for i_, ce in enumerate(comps):
                    names_ = {short(lf_.path).split('::')[-1] for x_ in walk(ce) if x_.get('k') in ('call', 'mcall') for lf_ in ctx.pv.local_fns(x_.get('callee')) or []}
                    if extractor in names_ or (key is not None and any(x_.get('k') == 'lit' and x_['lit'].get('v') == key for x_ in walk(ce))):
                        own = i_
                if own is None:
                    break

                def pat_ok(p_, v_):
                    """does pattern p_ match the outcome v_ ('Ok' / 'Err')?"""
                    if p_[0] in ('wild', 'bind'):
                        return True
                    if p_[0] == 'ctor':
                        nm = p_[1].split('::')[-1]
                        return nm == v_ or (nm == 'Some' and v_ == 'Ok') or (nm == 'None' and v_ == 'Err')
                    if p_[0] == 'or':
                        return any(pat_ok(x_, v_) for x_ in p_[1])
                    return True
                import itertools
                arms_ = [(P.pat_summary(a_['pat']), a_) for a_ in par_['arms']]
                shadowed = None
                for combo in itertools.product(('Ok', 'Err'), repeat=len(comps)):
                    if combo[own] != 'Ok':
                        continue
                    first = None
                    for ps_, a_ in arms_:
                        if ps_[0] == 'tuple' and len(ps_[1]) == len(comps) and all(pat_ok(ps_[1][j_], combo[j_]) for j_ in range(len(comps))):
                            first = a_
                            break
                        if ps_[0] in ('wild', 'bind'):
                            first = a_
                            break
                    if first is not None and not any(x_ is n for x_ in walk(first['body'])):
                        shadowed = combo
                        break
                if shadowed is not None:
                    obs.append(bad('ATTR-PLUMB', inst + '/independent', '%s is skipped when the other attributes are %s: an earlier arm of the joint match takes that case' % (setter, list(shadowed)), n.get('sp', ''),
                                   'an option written in #[graphql(..)] is ignored depending on which other options are written'))
                break
        # optional setters only when extraction succeeded
        pcs = P.path_conds(nf, n)
        if setter in ('set_variables_derives', 'set_response_derives', 'set_custom_scalars_module', 'set_extern_enums', 'set_deprecation_strategy', 'set_normalization'):
            if not pcs:
                # the condition may live in the private helper the closure is handed to (`fn apply(r, f) { if let Ok(v) = r { f(v) } }`)
                for par_, role_, _c in nf.ancestors(n):
                    if par_.get('k') == 'closure':
                        pr_ = nf.parent.get(id(par_))
                        while pr_ and pr_[0] is not None and pr_[0].get('k') in ('wrap', 'ref'):
                            pr_ = nf.parent.get(id(pr_[0]))
                        if pr_ and pr_[0] is not None and pr_[0].get('k') in ('call', 'mcall'):
                            for hf_ in ctx.pv.local_fns(pr_[0].get('callee')) or []:
                                phids = set()
                                for p_ in hf_.params:
                                    if p_.get('k') == 'bind':
                                        phids.add(p_['hid'])
                                for c_ in hf_.walk(lambda x: x['k'] == 'call'):
                                    f_ = c_.get('f') or {}
                                    if f_.get('k') == 'path' and (f_.get('res') or {}).get('hid') in phids:
                                        if [pc for pc in P.path_conds(hf_, c_) if pc[0] in ('if', 'match', 'letelse', 'nomatch')]:
                                            pcs = [('helper',)]
                        break
            if pcs:
                obs.append(ok('ATTR-DEFAULTS', inst, 'setter runs only when the key was found/valid; otherwise the default stays', n.get('sp', '')))
            else:
                obs.append(bad('ATTR-DEFAULTS', inst, 'setter runs unconditionally', n.get('sp', ''), 'an absent key overrides the documented default'))
    # wrappers: which key each reads, and the default on failure
    for w, key in WRAPPER_KEYS.items():
        wf = ctx.fn('derive', 'graphql_query_derive::attributes::' + w)
        inst = 'attributes/' + w
        if wf is None:
            obs.append(bad('ATTR-PLUMB', inst, 'anchor-missing: %s not found' % w))
            continue
        consts = set()
        for n in H.calls_in(wf):
            if ctx.pv.local_fns(n.get('callee')):
                for a in n['args']:
                    if a.get('k') == 'lit' and a['lit']['lk'] == 'str':
                        consts.add(a['lit']['v'])
        if consts == {key}:
            obs.append(ok('ATTR-PLUMB', inst, 'reads key "%s"' % key, wf.loc))
        else:
            obs.append(bad('ATTR-PLUMB', inst, 'reads key(s) %s, expected "%s"' % (sorted(consts), key), wf.loc, 'wrong key configures the option'))
        t = ctx.pv.eval(wf, wf.body, H.sym_env(wf), 0)
        if w in ('extract_fragments_other_variant',):
            cs = TM.consts_in(t)
            if False in cs and True not in cs:
                obs.append(ok('ATTR-DEFAULTS', inst, 'absent/invalid -> false', wf.loc))
            else:
                obs.append(bad('ATTR-DEFAULTS', inst, 'fallback constants are %s, expected false' % sorted(map(str, cs)), wf.loc, 'other-variant on by default'))
        if w in ('extract_deprecation_strategy', 'extract_normalization'):
            xf = {x for _, xs in TM.paths(t) for x in xs}
            if xf - {'lower', 'parse', 'trim'}:
                obs.append(bad('ATTR-PLUMB', inst + '/transform', 'value transformed by %s before parsing' % sorted(xf), wf.loc, 'documented values not recognised'))
    # remaining setters
    for setter, want in (('set_struct_ident', 'DeriveInput.ident'), ('set_operation_name', 'DeriveInput.ident'), ('set_module_visibility', 'DeriveInput.vis')):
        calls = setters.get(setter, [])
        inst = 'derive/' + setter
        if not calls:
            obs.append(bad('ATTR-PLUMB', inst, '%s is never called' % setter, fn.loc, 'struct name / visibility not applied'))
            continue
        nf, nenv = env_of(calls[0])
        t = ctx.pv.eval(nf, calls[0]['args'][0], nenv, 0)
        conds_ = [pc for pc in P.path_conds(nf, calls[0]) if pc[0] in ('if', 'match', 'nomatch')]
        if conds_:
            obs.append(bad('ATTR-PLUMB', inst, '%s is applied only under a condition' % setter, calls[0].get('sp', ''),
                           'for some structs the derive does not pass what the library would be given (e.g. a restricted visibility is dropped)'))
            continue
        if TM.fields_in(t) == {want}:
            obs.append(ok('ATTR-PLUMB', inst, '%s <- %s' % (setter, want), calls[0].get('sp', '')))
        else:
            obs.append(bad('ATTR-PLUMB', inst, '%s <- %s' % (setter, sorted(TM.fields_in(t)) or P.show(t, 0, 3)), calls[0].get('sp', ''), 'wrong source for the option'))
    # serde path
    calls = setters.get('set_serde_path', [])
    if not calls:
        obs.append(bad('ATTR-PLUMB', 'derive/set_serde_path', 'serde path is not set by the derive', fn.loc, 'consumers need a direct serde dependency'))
    else:
        a = calls[0]['args'][0]
        txt = a.get('text', '') if a.get('k') == 'macro' else ''
        m = re.search(r'parse_quote!\s*\(\s*(.+?)\s*\)\s*$', txt, re.S)
        path_txt = m.group(1).replace(' ', '') if m else ''
        client = ctx.crate('client')
        # graphql_client::_private::serde must be a pub re-export of serde
        segs = path_txt.split('::')
        good = False
        if len(segs) >= 3 and segs[0] == 'graphql_client':
            modp = '::'.join(segs[1:-1])
            for it in client.ast_items:
                if it['kind'] == 'use' and it['module'] == modp and it['vis'] == 'pub' and re.search(r'\b%s\b' % segs[-1], it['text']):
                    good = True
            mod_pub = all(any(m_['kind'] == 'mod' and m_['name'] == s_ and m_['vis'] == 'pub' for m_ in client.ast_items) for s_ in segs[1:-1])
            good = good and mod_pub
        if good:
            obs.append(ok('ATTR-PLUMB', 'derive/set_serde_path', 'serde path %s names a pub re-export in graphql_client' % path_txt, calls[0].get('sp', '')))
        else:
            obs.append(bad('ATTR-PLUMB', 'derive/set_serde_path', 'serde path `%s` does not name a pub re-export of serde in graphql_client' % path_txt, calls[0].get('sp', ''),
                           'generated derives do not resolve in a crate whose only dependency is graphql_client'))
    # query file
    calls = setters.get('set_query_file', [])
    if calls:
        t = ctx.pv.eval(fn, calls[0]['args'][0], env, 0)
        # either the builder's own `query_path` parameter, or (when the paths travel in a record) the value computed from
        # the `query_path` attribute — never the schema path
        nf_, nenv_ = env_of(calls[0])
        t2 = ctx.pv.eval(nf_, calls[0]['args'][0], {}, 0)
        keys2 = {c_ for c_ in TM.consts_in(t2) if c_ in ('query_path', 'schema_path')}
        # when the value is the builder's own parameter: what do the callers hand in for it?  (the pair returned by the
        # path builder is (query, schema): the first component, and only it, may arrive here)
        crossed = None
        if t[0] == 'param' and keys2 != {'query_path'}:
            pidx = t[2]
            for cfn_, cnode_ in ctx.pv.call_sites(nf_):
                cargs_ = ([cnode_['recv']] if cnode_['k'] == 'mcall' else []) + cnode_['args']
                if pidx < len(cargs_):
                    ct_ = ctx.pv.eval(cfn_, cargs_[pidx], {}, 0)
                    ckeys_ = {c_ for c_ in TM.consts_in(ct_) if c_ in ('query_path', 'schema_path')}
                    names_ = {cfn_.bind_names.get(x_['res']['hid'], '') for x_ in walk(cargs_[pidx]) if x_['k'] == 'path' and (x_.get('res') or {}).get('r') == 'local'}
                    tix_ = {s_[2] for s_ in P.subterms(ct_) if isinstance(s_, tuple) and s_ and s_[0] == 'tproj'}
                    if ckeys_ == {'schema_path'} or (not ckeys_ and (tix_ == {1} or (names_ and all('schema' in n_ for n_ in names_)))):
                        crossed = (cfn_, cnode_)
        if crossed is not None:
            obs.append(bad('ATTR-PATHS', 'derive/set_query_file', 'the caller hands the *schema* path to the parameter that becomes the query file', crossed[1].get('sp', ''),
                           'include_str! tracks the schema file: editing the query does not rebuild, QUERY is stale'))
        elif (t[0] == 'param' and t[3] == 'query_path') or keys2 == {'query_path'}:
            obs.append(ok('ATTR-PATHS', 'derive/set_query_file', 'include_str! path = the query path the generator reads', calls[0].get('sp', '')))
        else:
            obs.append(bad('ATTR-PATHS', 'derive/set_query_file', 'query_file <- %s' % P.show(t, 0, 3), calls[0].get('sp', ''), 'cargo tracks another file'))
    else:
        obs.append(bad('ATTR-PATHS', 'derive/set_query_file', 'set_query_file is never called', fn.loc, 'cargo does not rebuild when the query changes'))
    # mode
    news = [n for n in H.calls_in(fn) if any(p.endswith('GraphQLClientCodegenOptions::new') for p in H.callee_paths(n))]
    if news and news[0]['args'] and news[0]['args'][0].get('k') == 'path' and news[0]['args'][0]['res'].get('path', '').endswith('CodegenMode::Derive'):
        obs.append(ok('ATTR-MODE', 'derive/mode', 'options built with CodegenMode::Derive', news[0].get('sp', '')))
    else:
        obs.append(bad('ATTR-MODE', 'derive/mode', 'options are not built with CodegenMode::Derive', fn.loc, 'derive falls back to all operations / emits the struct again'))
    # paths
    pf = ctx.fn('derive', 'graphql_query_derive::build_query_and_schema_path')
    if pf is None:
        obs.append(bad('ATTR-PATHS', 'floor', 'anchor-missing: build_query_and_schema_path not found'))
    else:
        t = ctx.pv.eval(pf, pf.body, H.sym_env(pf), 0)
        tup = None
        for conds, leaf in P.leaves(t):
            if leaf[0] == 'tuple' and len(leaf[1]) == 2:
                tup = leaf
        if tup is None:
            obs.append(undecided('ATTR-PATHS', 'derive/paths', 'result is not a pair of paths', pf.loc))
        else:
            for name, key, tt in (('query_path', 'query_path', tup[1][0]), ('schema_path', 'schema_path', tup[1][1])):
                fm = [s for s in P.subterms(tt) if s[0] == 'fmt' or (s[0] == 'call' and s[1].endswith('Path::join'))]
                order_ok = False
                keys = set()
                for s in P.subterms(tt):
                    if s[0] == 'call' and s[1].endswith('attributes::extract_attr'):
                        keys |= {x[1] for x in s[2] if x[0] == 'const'}
                for s in fm:
                    parts = s[2]
                    flat = [repr(x) for x in parts]
                    idx_env = [i for i, x in enumerate(flat) if 'CARGO_MANIFEST_DIR' in x]
                    idx_attr = [i for i, x in enumerate(flat) if 'extract_attr' in x and 'CARGO_MANIFEST_DIR' not in x]
                    if idx_env and idx_attr and min(idx_env) < min(idx_attr):
                        order_ok = True
                # .. on every path: no alternative of the value may bypass the manifest directory
                bypass = [lf for cs_, lf in P.leaves(tt) if lf[0] not in ('diverge', 'err', 'rec', 'early') and 'CARGO_MANIFEST_DIR' not in repr(lf)]
                if keys == {key} and order_ok and bypass:
                    obs.append(bad('ATTR-PATHS', 'derive/' + name, '%s has an alternative that is not joined to CARGO_MANIFEST_DIR: %s' % (name, P.show(bypass[0], 0, 3)[:100]), pf.loc,
                                   'the path is resolved against the directory rustc happens to run in, not the consumer crate\'s manifest directory'))
                elif keys == {key} and order_ok:
                    obs.append(ok('ATTR-PATHS', 'derive/' + name, '%s = CARGO_MANIFEST_DIR joined with the `%s` attribute' % (name, key), pf.loc))
                else:
                    obs.append(bad('ATTR-PATHS', 'derive/' + name, '%s is built from keys %s (manifest dir first: %s)' % (name, sorted(keys), order_ok), pf.loc,
                                   'paths are not resolved against the consumer crate\'s manifest directory'))
    # defaults in GraphQLClientCodegenOptions::new
    new = ctx.fn('codegen', 'GraphQLClientCodegenOptions::new')
    if new is None:
        obs.append(bad('ATTR-DEFAULTS', 'floor', 'anchor-missing: GraphQLClientCodegenOptions::new not found'))
    else:
        aggs = [n for n in walk(new.body) if n['k'] == 'struct']
        if not aggs:
            obs.append(undecided('ATTR-DEFAULTS', 'options/new', 'constructor is not a struct literal', new.loc))
        else:
            fields = {f['name']: f['e'] for f in aggs[0]['fields']}
            def is_default(e):
                return e.get('k') == 'call' and e.get('callee') and e['callee']['path'].endswith('Default::default')
            n_e = fields.get('normalization')
            if n_e is not None and n_e.get('k') == 'path' and n_e['res'].get('path', '').endswith('Normalization::None'):
                obs.append(ok('ATTR-DEFAULTS', 'options/normalization', 'default normalization = None', new.loc))
            else:
                obs.append(bad('ATTR-DEFAULTS', 'options/normalization', 'default normalization is not Normalization::None', new.loc, 'names are normalized without being asked'))
            for b in ('fragments_other_variant', 'skip_serializing_none'):
                e = fields.get(b)
                if e is not None and (is_default(e) or (e.get('k') == 'lit' and e['lit']['v'] is False)):
                    obs.append(ok('ATTR-DEFAULTS', 'options/' + b, 'default false', new.loc))
                else:
                    obs.append(bad('ATTR-DEFAULTS', 'options/' + b, 'default of %s is not false' % b, new.loc, 'option on by default'))
            e = fields.get('deprecation_strategy')
            if e is not None and (is_default(e) or (e.get('k') == 'path' and e['res'].get('path', '').endswith('None'))):
                obs.append(ok('ATTR-DEFAULTS', 'options/deprecation_strategy', 'unset by default (falls back to the enum default)', new.loc))
            else:
                obs.append(bad('ATTR-DEFAULTS', 'options/deprecation_strategy', 'deprecation strategy is preset', new.loc, 'default is not warn'))
    return obs


@rule('DEPR-DEFAULT')
def rule_depr_default(ctx):
    obs = []
    cg = ctx.crate('codegen')
    it = cg.ast_item('DeprecationStrategy', 'enum')
    if it is None:
        return [bad('DEPR-DEFAULT', 'floor', 'anchor-missing: DeprecationStrategy not found')]
    dflt = [v['name'] for v in it['variants'] if any(a.strip() == '#[default]' for a in v['attrs'])]
    if dflt == ['Warn'] and 'Default' in derives_of(ctx, 'codegen', 'graphql_client_codegen::deprecation::DeprecationStrategy'):
        obs.append(ok('DEPR-DEFAULT', 'enum-default', '#[default] is Warn', it['loc']))
    else:
        obs.append(bad('DEPR-DEFAULT', 'enum-default', 'default variant is %s' % dflt, it['loc'], 'the default strategy is not warn'))
    g = ctx.fn('codegen', 'GraphQLClientCodegenOptions::deprecation_strategy')
    if g is not None:
        ms = {n['method'] for n in walk(g.body) if n['k'] == 'mcall'}
        if 'unwrap_or_default' in ms or 'unwrap_or' in ms:
            obs.append(ok('DEPR-DEFAULT', 'getter', 'unset strategy falls back to the default', g.loc))
        else:
            obs.append(bad('DEPR-DEFAULT', 'getter', 'getter does not fall back to the default', g.loc, ''))
    fs = [fn for fn in cg.all_fns() if fn.path.endswith('from_str') and 'DeprecationStrategy' in fn.path]
    if fs:
        table = {}

        def _variants(e_):
            glob = [n['res'].get('path', '') for n in walk(e_) if n['k'] == 'path' and n['res'].get('r') in ('def', 'ctor')]
            return [g.split('::')[-1] for g in glob if 'DeprecationStrategy::' in g]
        for m in walk(fs[0].body):
            if m['k'] == 'match':
                for a in m['arms']:
                    ps = P.pat_summary(a['pat'])
                    if ps[0] == 'lit':
                        table[ps[1]] = _variants(a['body'])
            elif m['k'] == 'if' and isinstance(m.get('cond'), dict):
                cnd = m['cond']
                while isinstance(cnd, dict) and cnd.get('k') in ('wrap', 'paren', 'droptemps', 'use') and isinstance(cnd.get('e'), dict):
                    cnd = cnd['e']
                if not (cnd.get('k') == 'binary' and cnd.get('op') in ('==', 'Eq', 'eq')):
                    continue
                # `if keyword == "allow" { Ok(Self::Allow) } else if ..`
                lits = [x['lit']['v'] for side in ('l', 'r') for x in walk(cnd.get(side) or {}) if x.get('k') == 'lit' and (x.get('lit') or {}).get('lk') == 'str']
                if len(lits) == 1:
                    table[lits[0]] = _variants(m.get('then'))
        want = {'allow': ['Allow'], 'deny': ['Deny'], 'warn': ['Warn']}
        if table == want:
            obs.append(ok('DEPR-DEFAULT', 'from_str', 'allow/deny/warn parse to their strategies', fs[0].loc))
        elif not table:
            obs.append(undecided('DEPR-DEFAULT', 'from_str', 'the name table of FromStr for DeprecationStrategy is not a match / if chain on string literals', fs[0].loc))
        else:
            obs.append(bad('DEPR-DEFAULT', 'from_str', 'strategy names parse as %s' % table, fs[0].loc, 'a documented name selects another strategy'))
    else:
        obs.append(bad('DEPR-DEFAULT', 'from_str/floor', 'anchor-missing: FromStr for DeprecationStrategy'))
    return obs
