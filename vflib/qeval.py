"""Evaluation of *extracted guard predicates* over the finite domain of GraphQL type-qualifier lists.

A guard is a provenance term (built from the generator's own condition expressions).  The only
free variable we bind is the qualifier list (a `field` term `*.qualifiers`, or a literal list); all
other atoms (option flags, `field_type == "ID"` ...) are given by an assignment.  Unknown
constructs raise Undecided — the caller reports the clause as undecided, never as a violation.
"""
from . import prov as P

REQ = 'R'
LIST = 'L'


class Undecided(Exception):
    pass


def wellformed_lists(maxlen):
    """all qualifier lists (outer to inner) of length <= maxlen without two consecutive Required"""
    out = [[]]
    frontier = [[]]
    for _ in range(maxlen):
        nxt = []
        for l in frontier:
            for q in (REQ, LIST):
                if q == REQ and l and l[-1] == REQ:
                    continue
                nxt.append(l + [q])
        out.extend(nxt)
        frontier = nxt
    return out


class NoneV:
    def __repr__(self):
        return 'None'


NONE = NoneV()


class QEval:
    def __init__(self, pv, qlist, atoms=None, is_qualifiers=None):
        self.pv = pv
        self.q = qlist
        self.atoms = atoms or (lambda t: None)
        self.is_qualifiers = is_qualifiers or default_is_qualifiers

    def ev(self, t):
        tag = t[0]
        a = self.atoms(t)
        if a is not None:
            return a
        if self.is_qualifiers(t):
            return list(self.q)
        if tag == 'const':
            return t[1]
        if tag == 'global':
            if t[1].endswith('GraphqlTypeQualifier::Required'):
                return REQ
            if t[1].endswith('GraphqlTypeQualifier::List'):
                return LIST
            raise Undecided('global ' + t[1])
        if tag == 'none':
            return NONE
        if tag == 'list':
            return [self.ev(x) for x in t[1]]
        if tag == 'tuple':
            return tuple(self.ev(x) for x in t[1])
        if tag == 'sel':
            v = self.ev(t[2])
            if not isinstance(v, list):
                raise Undecided('sel on non-list')
            if t[1] == 'first':
                return v[0] if v else NONE
            if t[1] == 'last':
                return v[-1] if v else NONE
            raise Undecided('sel ' + t[1])
        if tag == 'if':
            try:
                c = self.ev(t[1])
            except Undecided:
                # a guard we cannot evaluate (e.g. which call site supplied the value): both branches must agree
                a = self.ev(t[2])
                b = self.ev(t[3])
                if a is NONE:
                    return b
                if b is NONE or a == b:
                    return a
                raise
            if c is True:
                return self.ev(t[2])
            if c is False:
                return self.ev(t[3])
            raise Undecided('non-bool condition')
        if tag == 'join':
            vals = []
            for m in t[1]:
                try:
                    v = self.ev(m)
                except Undecided:
                    raise
                vals.append(v)
            some = [v for v in vals if v is not NONE]
            # Option plumbing: `x.map(f).unwrap_or(d)` is join{f(x), d}: d applies only when x is None
            if len(vals) == 2 and len(some) == 1:
                return some[0]
            if len(some) >= 1 and all(v == some[0] for v in some) and len(some) == len(vals):
                return some[0]
            if len(vals) == 2 and len(some) == 2:
                # one of the two is the default of an unwrap_or; the mapped value is not None so it wins.
                # we cannot tell which is which from a join: only decidable when equal
                if some[0] == some[1]:
                    return some[0]
                # heuristics-free: undecided
                raise Undecided('ambiguous join')
            if not some:
                return NONE
            raise Undecided('join')
        if tag == 'op':
            return self.op(t[1], t[2])
        if tag == 'match':
            try:
                s = self.ev(t[1])
            except Undecided:
                vals = [self.ev(arm) for _, arm in t[2]]
                some = [v for v in vals if v is not NONE]
                if not some:
                    return NONE
                if all(v == some[0] for v in some):
                    return some[0]
                raise
            for pat, arm in t[2]:
                if self.pat_matches(pat, s):
                    return self.ev(arm)
            return NONE
        if tag == 'absent':
            return NONE
        if tag == 'orelse':
            v = self.ev(t[1])
            return self.ev(t[2]) if v is NONE else v
        raise Undecided('term ' + tag)

    def pat_matches(self, pat, v):
        k = pat[0]
        if k == 'not':
            return not self.pat_matches(pat[1], v)
        if k == 'guarded':
            # `pat if guard`: the guard term was evaluated with the pattern's bindings in scope
            if not self.pat_matches(pat[1], v):
                return False
            g = self.ev(pat[2])
            if isinstance(g, bool):
                return g
            raise Undecided('non-bool guard')
        if k in ('wild', 'bind'):
            return True
        if k == 'lit':
            return v == pat[1]
        if k == 'ctor':
            name = pat[1].split('::')[-1]
            if name == 'Required':
                return v == REQ
            if name == 'List':
                return v == LIST
            if name == 'None':
                return v is NONE
            if name == 'Some':
                if v is NONE:
                    return False
                return self.pat_matches(pat[2][0], v) if pat[2] else True
            raise Undecided('pattern ' + pat[1])
        if k == 'tuple':
            if not isinstance(v, tuple) or len(v) != len(pat[1]):
                raise Undecided('tuple pattern')
            return all(self.pat_matches(p, x) for p, x in zip(pat[1], v))
        if k == 'or':
            return any(self.pat_matches(p, v) for p in pat[1])
        raise Undecided('pattern kind ' + k)

    def op(self, name, args):
        if name == '!':
            v = self.ev(args[0])
            if v is NONE:
                return NONE
            if isinstance(v, bool):
                return not v
            raise Undecided('! on non-bool')
        if name in ('&&', '||'):
            a = self.ev(args[0])
            if name == '&&' and a is False:
                return False
            if name == '||' and a is True:
                return True
            b = self.ev(args[1])
            if isinstance(a, bool) and isinstance(b, bool):
                return (a and b) if name == '&&' else (a or b)
            raise Undecided('bool op')
        if name in ('==', '!=', 'eq', 'ne'):
            a = self.ev(args[0])
            b = self.ev(args[1])
            eq = (a is b) if (a is NONE or b is NONE) else (a == b)
            return eq if name in ('==', 'eq') else not eq
        if name == 'contains':
            a = self.ev(args[0])
            b = self.ev(args[1])
            if isinstance(a, list):
                return b in a
            raise Undecided('contains on non-list')
        if name == 'is_empty':
            a = self.ev(args[0])
            if isinstance(a, list):
                return len(a) == 0
            raise Undecided('is_empty')
        if name == 'len':
            a = self.ev(args[0])
            if isinstance(a, list):
                return len(a)
            raise Undecided('len')
        if name in ('is_some', 'is_none'):
            a = self.ev(args[0])
            return (a is not NONE) if name == 'is_some' else (a is NONE)
        if name in ('any', 'all'):
            a = self.ev(args[0])
            if not isinstance(a, list):
                raise Undecided('any/all on non-list')
            res = []
            for el in a:
                elt = ('global', 'GraphqlTypeQualifier::Required' if el == REQ else 'GraphqlTypeQualifier::List')
                r = self.pv.apply_closure(args[1], [elt], 0)
                res.append(self.ev(r))
            return any(res) if name == 'any' else all(res)
        if name == 'matches':
            a = self.ev(args[0])
            if args[1][0] == 'pat' and isinstance(args[1][1], tuple):
                return self.pat_matches(args[1][1], a)
            raise Undecided('matches!')
        if name in ('<', '>', '<=', '>='):
            a = self.ev(args[0])
            b = self.ev(args[1])
            if isinstance(a, int) and isinstance(b, int):
                return {'<': a < b, '>': a > b, '<=': a <= b, '>=': a >= b}[name]
            raise Undecided('cmp')
        raise Undecided('op ' + name)


def default_is_qualifiers(t):
    return t[0] == 'field' and t[3] in ('qualifiers',)


def select_leaf(qe, t):
    """the alternative of term t that is taken under the assignment of qe (conditions and scrutinees are evaluated,
    values are not); raises Undecided when the choice cannot be made"""
    while True:
        tag = t[0]
        if tag == 'if':
            c = qe.ev(t[1])
            if c is True:
                t = t[2]
            elif c is False:
                t = t[3]
            else:
                raise Undecided('non-bool condition')
        elif tag == 'match':
            s = qe.ev(t[1])
            for pat, arm in t[2]:
                if qe.pat_matches(pat, s):
                    t = arm
                    break
            else:
                raise Undecided('no arm matches')
        elif tag == 'join':
            vals = {select_leaf(qe, m) for m in t[1]}
            if len(vals) != 1:
                raise Undecided('join of different values')
            return next(iter(vals))
        elif tag == 'early':
            t = t[1]
        else:
            return t
