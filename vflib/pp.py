"""Pretty printer for gqlfacts expression trees (debug aid)."""
import json, sys

def pp_pat(p):
    k = p.get('k')
    if k == 'bind':
        s = p['name'] + '#' + p['hid']
        if 'sub' in p: s += '@' + pp_pat(p['sub'])
        return s
    if k == 'wild': return '_'
    if k == 'struct': return p['res'].get('path', '?') + '{' + ','.join(f['name'] + ':' + pp_pat(f['pat']) for f in p['fields']) + '}'
    if k == 'tstruct': return p['res'].get('path', '?') + '(' + ','.join(pp_pat(x) for x in p['pats']) + ')'
    if k in ('or',): return '|'.join(pp_pat(x) for x in p['pats'])
    if k == 'tuple': return '(' + ','.join(pp_pat(x) for x in p['pats']) + ')'
    if k == 'ref': return '&' + pp_pat(p['pat'])
    if k == 'expr':
        if 'lit' in p: return repr(p['lit']['v'])
        return p['res'].get('path', '?')
    return '<' + str(k) + '>'

def pp(e, ind=0):
    I = '  ' * ind
    if e is None: return I + 'None'
    k = e.get('k')
    t = e.get('ty', '')
    if k == 'lit': return I + 'lit ' + repr(e['lit']['v'])
    if k == 'path':
        r = e['res']
        if r['r'] == 'local': return I + 'local ' + r['name'] + '#' + r['hid'] + ' : ' + t
        return I + 'path ' + r.get('path', r.get('dbg', '?')) + (' => ' + e['resolved'] if 'resolved' in e else '')
    if k == 'call':
        c = e['callee'] or {}
        s = I + 'call ' + str(c.get('path')) + (' => ' + c['resolved'] if c.get('resolved') else '') + ' : ' + t
        if not e['callee']: s += '\n' + pp(e['f'], ind + 1)
        return s + ''.join('\n' + pp(a, ind + 1) for a in e['args'])
    if k == 'mcall':
        c = e['callee'] or {}
        return I + 'mcall .' + e['method'] + ' ' + str(c.get('path')) + (' => ' + c['resolved'] if c.get('resolved') else '') + ' : ' + t + '\n' + pp(e['recv'], ind + 1) + ''.join('\n' + pp(a, ind + 1) for a in e['args'])
    if k == 'field': return I + 'field .' + e['name'] + ' of ' + e.get('adt', '?') + '\n' + pp(e['base'], ind + 1)
    if k == 'struct': return I + 'struct ' + e.get('adt', '?') + ' ' + e['res'].get('path', '') + ''.join('\n' + I + '  .' + f['name'] + ' =\n' + pp(f['e'], ind + 2) for f in e['fields'])
    if k == 'macro': return I + 'macro ' + e['name'] + '! ' + repr(e['text'][:70]) + ' args=' + str(e['args']) + '\n' + pp(e['exp'], ind + 1)
    if k == 'block':
        out = I + 'block' + (' unsafe' if e.get('unsafe') else '')
        for s in e['stmts']:
            if s['k'] == 'let': out += '\n' + I + '  let ' + pp_pat(s['pat']) + ' =\n' + pp(s['init'], ind + 2) + ('\n' + I + '  else\n' + pp(s['els'], ind + 2) if s.get('els') else '')
            else: out += '\n' + pp(s['e'], ind + 1)
        if e.get('expr'): out += '\n' + I + '  =>\n' + pp(e['expr'], ind + 2)
        return out
    if k == 'match': return I + 'match(' + e['src'] + ')\n' + pp(e['scrut'], ind + 1) + ''.join('\n' + I + '  arm ' + pp_pat(a['pat']) + (' if\n' + pp(a['guard'], ind + 2) if a.get('guard') else '') + ' =>\n' + pp(a['body'], ind + 2) for a in e['arms'])
    if k == 'if': return I + 'if\n' + pp(e['cond'], ind + 1) + '\n' + I + 'then\n' + pp(e['then'], ind + 1) + ('\n' + I + 'else\n' + pp(e['else'], ind + 1) if e.get('else') else '')
    if k == 'letx': return I + 'letx ' + pp_pat(e['pat']) + ' =\n' + pp(e['init'], ind + 1)
    if k == 'closure': return I + 'closure |' + ','.join(pp_pat(p) for p in e['params']) + '|\n' + pp(e['body'], ind + 1)
    if k == 'for': return I + 'for ' + pp_pat(e['pat']) + ' in\n' + pp(e['iter'], ind + 1) + '\n' + I + 'do\n' + pp(e['body'], ind + 1)
    if k == 'loop': return I + 'loop(' + e['src'] + ')\n' + pp(e['body'], ind + 1)
    if k in ('try', 'ref', 'unary', 'cast', 'wrap', 'ret', 'break', 'repeat', 'yield'): return I + k + (' ' + e.get('op', '') if k == 'unary' else '') + '\n' + pp(e.get('e'), ind + 1)
    if k in ('assign', 'assignop', 'binary'): return I + k + ' ' + e.get('op', '') + '\n' + pp(e['l'], ind + 1) + '\n' + pp(e['r'], ind + 1)
    if k == 'index': return I + 'index\n' + pp(e['base'], ind + 1) + '\n' + pp(e['idx'], ind + 1)
    if k in ('tup', 'array'): return I + k + ''.join('\n' + pp(x, ind + 1) for x in e['es'])
    return I + '<' + str(k) + '>'

if __name__ == '__main__':
    d = json.load(open(sys.argv[1]))
    for f in d['fns']:
        if sys.argv[2] in f['path']:
            print('==', f['path'], f.get('loc'), f.get('from_macro'))
            print('params', [pp_pat(p) for p in f['params']])
            print(pp(f['body']))
