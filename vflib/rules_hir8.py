"""Round-5 rules ("small semantic drift"): SWAPPED-ARGS, SEL-OWNER, SPREAD-BOXED, SPREAD-LOOKUP, RENDER-ALL, DERIVE-SPLIT,
ONEOF-VALUE, OP-NOT-FOUND-MSG."""
import re

from . import prov as P
from . import terms as TM
from . import hirx as H
from .core import Ob, ok, bad, undecided, short
from .facts import norm_path

REGISTRY = []


def rule(*ids):
    def deco(fn):
        REGISTRY.append((fn, ids))
        return fn
    return deco


def _pos(n):
    m = re.search(r':(\d+):(\d+)', n.get('sp', ''))
    return (int(m.group(1)), int(m.group(2))) if m else (0, 0)


def _strip(n):
    while isinstance(n, dict) and n.get('k') in ('ref', 'wrap', 'unary', 'cast') and 'e' in n:
        n = n['e']
    while isinstance(n, dict) and n.get('k') == 'mcall' and n.get('method') in ('clone', 'as_ref', 'as_str', 'as_deref', 'to_owned', 'to_string', 'into', 'as_path', 'to_path_buf', 'borrow') and not n.get('args'):
        n = _strip(n['recv'])
    return n


def _arg_name(fn, a):
    """the name under which an argument value is known at the call site: a local / parameter name or the last field name"""
    a = _strip(a)
    if not isinstance(a, dict):
        return None
    if a.get('k') == 'path' and (a.get('res') or {}).get('r') == 'local':
        return fn.bind_names.get(a['res']['hid'])
    if a.get('k') == 'field':
        return a.get('name')
    return None


# ------------------------------------------------------------------------------------------------------------------
@rule('SWAPPED-ARGS')
def rule_swapped_args(ctx):
    """A call of a workspace function hands two same-typed values to each other's parameter: the argument in position i
    is named like parameter j and the argument in position j like parameter i (i != j, same parameter type).  With
    same-typed neighbours (`is_one_of: bool, specify_by_url: bool`) the compiler cannot see the cross-over."""
    obs = []
    ncalls = 0
    for cn, cr in sorted(ctx.prog.crates.items()):
        for fn in cr.all_fns():
            if fn.from_macro:
                continue
            for c in fn.walk(lambda x: x['k'] in ('call', 'mcall')):
                lfs = [f_ for f_ in (ctx.pv.local_fns(c.get('callee')) or []) if not f_.from_macro]
                if len(lfs) != 1:
                    continue
                callee = lfs[0]
                args = ([c['recv']] if c['k'] == 'mcall' else []) + c.get('args', [])
                params = callee.params
                if len(args) != len(params) or len(args) < 2:
                    continue
                pnames = [p.get('name') if p.get('k') == 'bind' else None for p in params]
                ptys = [p.get('ty', '') for p in params]
                anames = [_arg_name(fn, a) for a in args]
                ncalls += 1
                for i in range(len(args)):
                    for j in range(i + 1, len(args)):
                        if not (pnames[i] and pnames[j] and anames[i] and anames[j]):
                            continue
                        if ptys[i] != ptys[j] or pnames[i] == pnames[j]:
                            continue
                        if anames[i] == pnames[j] and anames[j] == pnames[i]:
                            obs.append(bad('SWAPPED-ARGS', '%s->%s/%s<->%s' % (short(fn.path), short(callee.path), pnames[i], pnames[j]),
                                           '`%s` is passed for the parameter `%s` and `%s` for `%s` (both %s)' % (anames[i], pnames[i], anames[j], pnames[j], ptys[i].split('::')[-1]),
                                           c.get('sp', fn.loc), 'the two values act in each other\'s place'))
    if ncalls < 100:
        obs.append(bad('SWAPPED-ARGS', 'floor', 'anchor-missing: only %d workspace calls with >= 2 arguments examined' % ncalls, '', 'checker lost its anchor'))
    elif not obs:
        obs.append(ok('SWAPPED-ARGS', 'scan', '%d workspace calls with >= 2 arguments: no pair of same-typed arguments is named like each other\'s parameter' % ncalls, ''))
    return obs


# ------------------------------------------------------------------------------------------------------------------
def _expander_family(ctx):
    entry = ctx.fn('codegen', 'codegen::selection::calculate_selection')
    if entry is None:
        return None, []
    fam = [entry]
    for owner, _n, _p in H.Flat(ctx, entry, 2).entries:
        if owner not in fam and not owner.from_macro and norm_path(owner.path).startswith('graphql_client_codegen::codegen::selection'):
            fam.append(owner)
    return entry, fam


@rule('SEL-OWNER')
def rule_sel_owner(ctx):
    """Once the expander has pushed the struct of a variant / nested object (`let id = context.push_type(..)`), everything
    it builds for that struct afterwards in the same scope — flattened spread fields, type aliases, the recursive
    expansion of the sub-selection — is attached to *that* id, not to the id of the enclosing struct."""
    from .rules_hir5 import free_locals, pat_hids
    obs = []
    entry, fam = _expander_family(ctx)
    if entry is None:
        return [bad('SEL-OWNER', 'floor', 'anchor-missing: the selection expander was not found', '', 'checker lost its anchor')]
    n = 0
    for fn in fam:
        for st in fn.walk(lambda x: x['k'] == 'let' and x.get('init') is not None):
            init = _strip(st['init'])
            if not (isinstance(init, dict) and init.get('k') in ('call', 'mcall')):
                continue
            if not any(short(f_.path).endswith('push_type') for f_ in ctx.pv.local_fns(init.get('callee')) or []):
                continue
            hids = pat_hids(st['pat'])
            if not hids:
                continue
            # the block the `let` sits in: what follows it there belongs to the new struct
            chain = H.stmt_chain(fn, st)
            if not chain:
                continue
            blk, idx = chain[-1]
            rest = blk['stmts'][idx + 1:] + ([blk['expr']] if blk.get('expr') is not None else [])
            ordn = 0
            for later in rest:
                for x in H.walk(later):
                    owner_expr = None
                    what = None
                    if x.get('k') == 'struct' and x.get('adt', '').split('::')[-1] in ('ExpandedField', 'TypeAlias') and all('e' in y for y in x.get('fields', [])):
                        f = {y['name']: y['e'] for y in x['fields']}
                        if x['adt'].split('::')[-1] == 'ExpandedField':
                            # only flattened spread fields are members of the struct just pushed; a named field whose
                            # *type* is the pushed struct belongs to the enclosing struct wherever it is built
                            fl_ = _strip(f.get('flatten') or {})
                            if not (isinstance(fl_, dict) and fl_.get('k') == 'lit' and fl_['lit'].get('v') is True):
                                continue
                        owner_expr = f.get('struct_id')
                        what = x['adt'].split('::')[-1]
                    elif x.get('k') in ('call', 'mcall') and any(f_ in fam for f_ in ctx.pv.local_fns(x.get('callee')) or []):
                        for a in x.get('args', []):
                            if 'ResponseTypeId' in a.get('ty', ''):
                                owner_expr = a
                                what = 'recursive expansion'
                    if owner_expr is None:
                        continue
                    n += 1
                    ordn += 1
                    inst = '%s/after-push_type@%d/%s#%d' % (short(fn.path), 0, what, ordn)
                    inst = '%s/%s/%s#%d' % (short(fn.path), fn.bind_names.get(sorted(hids)[0], 'id'), what, ordn)
                    if free_locals(fn, owner_expr) & hids:
                        obs.append(ok('SEL-OWNER', inst, 'attached to the struct pushed just before', x.get('sp', '')))
                    else:
                        obs.append(bad('SEL-OWNER', inst, '%s built after `push_type` is attached to another struct id (the enclosing one), not to the struct just pushed' % what, x.get('sp', ''),
                                       'the members land on the wrong struct: the variant struct is empty and the parent gets fields the payload does not have'))
    if n < 3:
        obs.append(bad('SEL-OWNER', 'floor', 'anchor-missing: expected >= 3 records / expansions attached to a freshly pushed struct, found %d' % n, entry.loc, 'checker lost its anchor'))
    return obs


@rule('SPREAD-BOXED')
def rule_spread_boxed(ctx):
    """Every flattened fragment-spread field and every fragment type alias the expander builds is boxed exactly when the
    fragment is recursive: its `boxed` member is the result of the fragment-recursion predicate applied to the spread's
    own fragment id — never a constant."""
    obs = []
    entry, fam = _expander_family(ctx)
    if entry is None:
        return [bad('SPREAD-BOXED', 'floor', 'anchor-missing: the selection expander was not found', '', 'checker lost its anchor')]
    n = 0
    for fn in fam:
        ordn = 0
        for x in fn.walk(lambda x: x['k'] == 'struct' and all('e' in y for y in x.get('fields', []))):
            adt = x.get('adt', '').split('::')[-1]
            f = {y['name']: y['e'] for y in x['fields']}
            spread = False
            if adt == 'ExpandedField' and 'flatten' in f:
                fl_ = _strip(f['flatten'])
                spread = fl_.get('k') == 'lit' and fl_['lit'].get('v') is True
            elif adt == 'TypeAlias':
                spread = True
            if not spread or 'boxed' not in f:
                continue
            n += 1
            ordn += 1
            inst = '%s/%s#%d' % (short(fn.path), adt, ordn)
            b = _strip(f['boxed'])
            calls = [c for c in H.walk(f['boxed']) if c.get('k') in ('call', 'mcall') and any(lf_.d.get('output', '') == 'bool' for lf_ in ctx.pv.local_fns(c.get('callee')) or [])]
            if b.get('k') == 'lit':
                obs.append(bad('SPREAD-BOXED', inst, 'a fragment spread is emitted with the constant `boxed: %s`' % b['lit'].get('v'), x.get('sp', ''),
                               'a recursive fragment spread at this position gives an infinitely sized type (E0072)'))
            elif calls:
                obs.append(ok('SPREAD-BOXED', inst, 'boxed = fragment-recursion predicate of the spread fragment', x.get('sp', '')))
            else:
                obs.append(undecided('SPREAD-BOXED', inst, '`boxed` is neither a constant nor a predicate call', x.get('sp', '')))
    if n < 3:
        obs.append(bad('SPREAD-BOXED', 'floor', 'anchor-missing: expected >= 3 spread productions (direct spread, spread on a variant, alias), found %d' % n, entry.loc, 'checker lost its anchor'))
    return obs


@rule('SPREAD-LOOKUP')
def rule_spread_lookup(ctx):
    """Inside a match arm (or `if let`) that binds the fragment id of a `FragmentSpread`, the fragment looked up in the
    pool is the one that id names: `get_fragment(..)` is applied to the bound id, not to another id in scope (the search
    target, an outer fragment)."""
    from .rules_hir5 import free_locals, pat_hids
    obs = []
    n = 0
    for fn in ctx.crate('codegen').all_fns():
        if fn.from_macro:
            continue
        ordn = 0
        for m in fn.walk(lambda x: x['k'] == 'match'):
            for a in m.get('arms', []):
                ps = repr(P.pat_summary(a['pat']))
                if 'FragmentSpread' not in ps:
                    continue
                bound = pat_hids(a['pat'])
                if not bound:
                    continue
                for c in H.walk(a['body']):
                    if c.get('k') in ('call', 'mcall') and any(short(f_.path).endswith('get_fragment') for f_ in ctx.pv.local_fns(c.get('callee')) or []):
                        n += 1
                        ordn += 1
                        inst = '%s/get_fragment#%d' % (short(fn.path), ordn)
                        deps = set()
                        for arg in c.get('args', []):
                            deps |= free_locals(fn, arg)
                        if deps & bound:
                            obs.append(ok('SPREAD-LOOKUP', inst, 'looks up the fragment the spread names', c.get('sp', '')))
                        else:
                            obs.append(bad('SPREAD-LOOKUP', inst, 'inside the FragmentSpread arm the pool lookup does not use the spread\'s own fragment id', c.get('sp', ''),
                                           'the traversal follows another fragment than the one spread here (recursion through other fragments is missed)'))
    if n < 3:
        obs.append(bad('SPREAD-LOOKUP', 'floor', 'anchor-missing: expected >= 3 fragment lookups inside FragmentSpread arms, found %d' % n, '', 'checker lost its anchor'))
    return obs


@rule('RENDER-ALL')
def rule_render_all(ctx):
    """The renderer emits every expanded field / variant / type it was given: the streams over `ExpandedField`,
    `ExpandedVariant`, `ExpandedType` in the rendering functions are not cut by a truncating adaptor (`map_while`,
    `take_while`, `take`, `skip`, `step_by`, `scan`); an element that renders to nothing (`deny`) is skipped alone."""
    obs = []
    n = 0
    CUT = ('map_while', 'take_while', 'take', 'skip', 'skip_while', 'step_by', 'scan', 'nth', 'last')
    for fn in ctx.crate('codegen').all_fns():
        if fn.from_macro or not norm_path(fn.path).startswith('graphql_client_codegen::codegen::selection'):
            continue
        for c in fn.walk(lambda x: x['k'] == 'mcall'):
            rty = c['recv'].get('ty', '') + c['recv'].get('aty', '')
            if not any(t in rty for t in ('ExpandedField', 'ExpandedVariant', 'ExpandedType')):
                continue
            if 'Iter' not in rty and 'iter' not in rty and 'Map<' not in rty and 'Filter' not in rty and 'Peekable' not in rty:
                continue
            n += 1
            if c['method'] in CUT:
                obs.append(bad('RENDER-ALL', '%s/%s' % (short(fn.path), c['method']), 'the stream of expanded items is cut by `%s`' % c['method'], c.get('sp', ''),
                               'items after the first one that renders to nothing (a denied deprecated field) are dropped too'))
    if n < 1:
        obs.append(bad('RENDER-ALL', 'floor', 'anchor-missing: no iterator adaptor over expanded items found in the renderer', '', 'checker lost its anchor'))
    elif not obs:
        obs.append(ok('RENDER-ALL', 'scan', '%d adaptors over expanded fields / variants / types: none truncates the stream' % n, ''))
    return obs


@rule('DERIVE-SPLIT')
def rule_derive_split(ctx):
    """The two derive lists (`variables_derives`, `response_derives`) are read by one rule: both accessors split their
    option at the same separator and trim each entry (sibling agreement; the documented format is a comma-separated list)."""
    obs = []
    seps = {}
    trims = {}
    for fn in ctx.crate('codegen').all_fns():
        np_ = norm_path(fn.path)
        if fn.from_macro or 'GraphQLClientCodegenOptions::' not in np_ or 'derives' not in np_.split('::')[-1]:
            continue
        # the accessor and the private helpers it delegates the splitting to
        nodes_ = [n_ for _f, n_ in H.deep_nodes(ctx, fn, fn.body, 2)]
        for c in nodes_:
            if c.get('k') == 'mcall' and c['method'] in ('split', 'splitn', 'split_terminator', 'rsplit'):
                lits = [a['lit']['v'] for a in c.get('args', []) if a.get('k') == 'lit']
                if lits:
                    seps.setdefault(short(fn.path), set()).add(repr(lits[-1]))
            if c.get('k') == 'mcall' and c['method'] in ('trim', 'trim_start', 'trim_end'):
                trims.setdefault(short(fn.path), set()).add(c['method'])
            if c.get('k') == 'path' and (c.get('res') or {}).get('path', '').split('::')[-1] in ('trim', 'trim_start', 'trim_end') and 'str' in (c.get('res') or {}).get('path', ''):
                trims.setdefault(short(fn.path), set()).add(c['res']['path'].split('::')[-1])
    if len(seps) < 2:
        return [bad('DERIVE-SPLIT', 'floor', 'anchor-missing: expected the two derive-list accessors to split their option, found %s' % sorted(seps), '', 'checker lost its anchor')]
    allseps = set()
    for v in seps.values():
        allseps |= v
    if len(allseps) == 1 and allseps == {repr(',')}:
        obs.append(ok('DERIVE-SPLIT', 'separator', 'both derive lists are split at "," (%s)' % sorted(seps), ''))
    else:
        obs.append(bad('DERIVE-SPLIT', 'separator', 'the derive-list accessors split at different / unexpected separators: %s' % {k: sorted(v) for k, v in seps.items()}, '',
                       '`variables_derives = "Clone,Debug"` is read as one entry (or the two lists follow different rules)'))
    tset = {k: sorted(v) for k, v in trims.items() if k in seps}
    if len(tset) == len(seps) and all(v == ['trim'] for v in tset.values()):
        obs.append(ok('DERIVE-SPLIT', 'trim', 'every entry of both lists is trimmed on both sides', ''))
    else:
        obs.append(bad('DERIVE-SPLIT', 'trim', 'entries are not trimmed alike in both accessors: %s' % tset, '', 'blanks around a derive name reach the generated `derive(..)`'))
    return obs


@rule('ONEOF-VALUE')
def rule_oneof_value(ctx):
    """The `is_one_of` flag stored for an input type is the *value* the schema gives (`@oneOf` present / `isOneOf: true`),
    not the mere presence of the member: an introspection result that says `"isOneOf": false` describes an ordinary input."""
    obs = []
    n = 0
    for adt, sites in sorted(ctx.prog.aggregates_norm.items()):
        if not adt.endswith('schema::StoredInputType'):
            continue
        for fn, node in sites:
            if fn.from_macro:
                continue
            for fld in node.get('fields', []):
                if fld.get('name') != 'is_one_of' or 'e' not in fld:
                    continue
                n += 1
                inst = '%s/is_one_of' % short(fn.path)
                e = _strip(fld['e'])
                t = ctx.pv.eval(fn, fld['e'], H.sym_env(fn), 0)
                presence = [s_ for s_ in P.subterms(t) if isinstance(s_, tuple) and s_ and s_[0] == 'op' and s_[1] in ('is_some', 'is_none')]
                src = TM.fields_in(t)
                if presence and any(x.endswith('.is_one_of') for x in src):
                    obs.append(bad('ONEOF-VALUE', inst, 'the flag is `%s` of the schema member, not its value' % presence[0][1], fld['e'].get('sp', fn.loc),
                                   '`"isOneOf": false` turns an ordinary input object into a @oneOf enum'))
                else:
                    obs.append(ok('ONEOF-VALUE', inst, 'the stored flag is the schema\'s value (absent = false)', fld['e'].get('sp', fn.loc)))
    if n < 2:
        obs.append(bad('ONEOF-VALUE', 'floor', 'anchor-missing: expected both front ends to store is_one_of, found %d sites' % n, '', 'checker lost its anchor'))
    return obs


@rule('OP-NOT-FOUND-MSG')
def rule_op_not_found_msg(ctx):
    """When the derive finds no operation named like the struct, the error names the struct and lists the defined
    operations — each under its own label: the value printed after `Struct name:` derives from the struct identifier, the
    one after `Defined operations:` from the operations of the document."""
    obs = []
    found = 0
    for fn in ctx.crate('codegen').all_fns():
        if fn.from_macro:
            continue
        for mac in fn.walk(lambda x: x['k'] == 'macro' and x['name'].split('::')[-1] in ('format', 'write', 'writeln')):
            txt = mac.get('text', '')
            m = re.search(r'"((?:[^"\\]|\\.)*)"', txt, re.S)
            if not m or 'Struct name' not in m.group(1) or 'Defined operations' not in m.group(1):
                continue
            found += 1
            s_ = m.group(1)
            order = sorted([(s_.index('Struct name'), 'struct'), (s_.index('Defined operations'), 'ops')])
            args = [fn.nodes.get(a['id']) for a in mac.get('args', []) if a.get('how') == 'span']
            if mac['name'].split('::')[-1] != 'format':
                args = args[1:]
            if len(args) != 2 or any(a is None for a in args):
                obs.append(undecided('OP-NOT-FOUND-MSG', short(fn.path), 'expected two format arguments', mac.get('sp', fn.loc)))
                continue
            env = H.sym_env(fn)
            kinds = []
            for a in args:
                t = ctx.pv.eval(fn, a, env, 0)
                r = repr(t)
                is_ops = 'operations' in r or 'ResolvedOperation' in r or 'Query' in ''.join(TM.fields_in(t))
                names = {fn.bind_names.get(x['res']['hid'], '') for x in H.walk_through_locals(fn, a) if x['k'] == 'path' and (x.get('res') or {}).get('r') == 'local'}
                is_struct = any('struct' in nm or 'ident' in nm for nm in names) and not is_ops
                kinds.append('ops' if is_ops else ('struct' if is_struct else '?'))
            want = [k for _, k in order]
            if kinds == want:
                obs.append(ok('OP-NOT-FOUND-MSG', short(fn.path), 'the struct name and the list of defined operations are printed under their own labels', mac.get('sp', fn.loc)))
            elif '?' in kinds:
                obs.append(undecided('OP-NOT-FOUND-MSG', short(fn.path), 'argument origins not recognised: %s' % kinds, mac.get('sp', fn.loc)))
            else:
                obs.append(bad('OP-NOT-FOUND-MSG', short(fn.path), 'the labels and the values are crossed: %s printed in the order %s' % (want, kinds), mac.get('sp', fn.loc),
                               'the error does not name the available operations as such'))
    if not found:
        obs.append(bad('OP-NOT-FOUND-MSG', 'floor', 'anchor-missing: the operation-not-found message was not found', '', 'checker lost its anchor'))
    return obs


@rule('EXTERN-FILTER')
def rule_extern_filter(ctx):
    """`extern_enums` names enums by their *schema* name: wherever the generator decides by that list whether an enum
    definition is emitted (a `filter` over the used enums), the list is compared with the raw `StoredEnum.name` — not
    with a name that went through the normalization or another option, which would make the set of emitted definitions
    (and so the accepted payloads) depend on a Rust-side option."""
    obs = []
    n = 0
    OPTS = 'GraphQLClientCodegenOptions.'
    for fn in ctx.crate('codegen').all_fns():
        if fn.from_macro or not norm_path(fn.path).startswith('graphql_client_codegen::codegen'):
            continue
        for c in fn.walk(lambda x: x['k'] == 'mcall' and x['method'] in ('filter', 'filter_map', 'skip_while', 'take_while', 'retain', 'find', 'any', 'all', 'position')):
            clo = None
            for a in c.get('args', []):
                a_ = a
                while a_.get('k') in ('wrap', 'ref'):
                    a_ = a_['e']
                if a_.get('k') == 'closure':
                    clo = a_
            if clo is None:
                continue
            try:
                t = ctx.pv.eval(fn, clo['body'], H.sym_env(fn), 0)
            except Exception:
                continue
            fs = TM.fields_in(t)
            if OPTS + 'extern_enums' not in fs:
                continue
            # only the outermost adaptor that reads the list is judged (an inner `.any(..)` is part of it)
            if any(p_.get('k') == 'closure' and any(OPTS + 'extern_enums' in TM.fields_in(ctx.pv.eval(fn, p_['body'], H.sym_env(fn), 0)) for _ in [0]) for p_, r_, c_ in fn.ancestors(c) if p_.get('k') == 'closure'):
                continue
            n += 1
            inst = '%s/%s' % (short(fn.path), c['method'])
            others = sorted(f for f in fs if f.startswith(OPTS) and f != OPTS + 'extern_enums')
            xfs = sorted({x for o, xs in TM.paths(t) if o[0] == 'field' and o[1].endswith('StoredEnum.name') for x in xs})
            if others or xfs:
                obs.append(bad('EXTERN-FILTER', inst, 'the extern_enums test also depends on %s' % (others or xfs), c.get('sp', ''),
                               'whether the enum definition is emitted (and which payload values are accepted) changes with a Rust-side option'))
            else:
                obs.append(ok('EXTERN-FILTER', inst, 'extern_enums is compared with the schema name of the enum only', c.get('sp', '')))
    if n < 1:
        obs.append(bad('EXTERN-FILTER', 'floor', 'anchor-missing: no adaptor in the generator decides by extern_enums', '', 'checker lost its anchor'))
    return obs


@rule('ENUM-ORDER')
def rule_enum_order(ctx):
    """The generated enum pairs identifiers and wire strings *by position* (`#(#constructors => #variant_str,)*`): every
    collection interpolated there is the schema's value list in schema order — mapped, never sorted, de-duplicated,
    reversed or passed through an ordered / hashed set, because two lists ordered by different keys zip the wrong pairs."""
    obs = []
    fn = ctx.fn('codegen', 'codegen::enums::generate_enum_definitions')
    if fn is None:
        return [bad('ENUM-ORDER', 'floor', 'anchor-missing: the enum generator was not found', '', 'checker lost its anchor')]
    REORDER = ('sort', 'sort_unstable', 'sort_by', 'sort_by_key', 'sort_unstable_by', 'sort_unstable_by_key', 'sort_by_cached_key', 'reverse', 'rev', 'dedup', 'dedup_by', 'dedup_by_key',
               'retain', 'swap', 'rotate_left', 'rotate_right')
    nsrc = 0
    hits = []
    senv = H.sym_env(fn)
    for f_, n in H.deep_nodes(ctx, fn, fn.body, 1):
        if n.get('k') == 'mcall':
            try:
                rt = ctx.pv.eval(f_, n['recv'], H.sym_env(f_), 0)
            except Exception:
                continue
            if 'StoredEnum.variants' not in TM.fields_in(rt):
                continue
            nsrc += 1
            if n['method'] in REORDER:
                hits.append((n, '`%s`' % n['method']))
            if n['method'] in ('collect', 'from_iter', 'into_iter', 'iter', 'extend'):
                ty = n.get('ty', '') + n['recv'].get('ty', '')
                if any(x in ty for x in ('BTreeSet', 'HashSet', 'BTreeMap', 'HashMap', 'BinaryHeap')):
                    hits.append((n, 'a %s' % [x for x in ('BTreeSet', 'HashSet', 'BTreeMap', 'HashMap', 'BinaryHeap') if x in ty][0]))
        if n.get('k') == 'let' and n.get('init') is not None:
            ty = (n.get('pat') or {}).get('ty', '')
            if any(x in ty for x in ('BTreeSet', 'HashSet', 'BTreeMap', 'HashMap')):
                try:
                    it_ = ctx.pv.eval(f_, n['init'], H.sym_env(f_), 0)
                except Exception:
                    continue
                if 'StoredEnum.variants' in TM.fields_in(it_):
                    hits.append((n, 'a %s' % ty.split('<')[0].split('::')[-1]))
    if nsrc < 2:
        obs.append(bad('ENUM-ORDER', 'floor/uses', 'anchor-missing: expected the value list to be mapped at least twice (identifiers, strings), found %d uses' % nsrc, fn.loc, 'checker lost its anchor'))
    if hits:
        n, what = hits[0]
        obs.append(bad('ENUM-ORDER', 'generate_enum_definitions/order', 'a collection derived from the enum\'s values goes through %s before it is paired by position' % what, n.get('sp', fn.loc),
                       'identifiers and wire strings are ordered by different keys: a variant serializes as another value\'s name'))
    elif nsrc >= 2:
        obs.append(ok('ENUM-ORDER', 'generate_enum_definitions/order', 'every collection derived from the value list keeps schema order (%d uses, no sort / set / dedup / reverse)' % nsrc, fn.loc))
    return obs


@rule('QUALIFIERS-FIXED')
def rule_qualifiers_fixed(ctx):
    """A type's qualifier list (`[Required, List, ..]`) is written once, by the extractor that reads the type expression;
    afterwards it is only read: nowhere in the generator is a stored `qualifiers` member edited in place (`retain`,
    `remove`, `insert`, `push`, `pop`, `truncate`, `clear`, `dedup`, `reverse`, assignment) — the one rule that maps
    modifiers to Option / Vec then sees exactly the declared type."""
    obs = []
    MUT = ('retain', 'remove', 'insert', 'push', 'pop', 'truncate', 'clear', 'dedup', 'dedup_by', 'reverse', 'drain', 'swap_remove', 'extend', 'append', 'sort', 'split_off', 'resize')
    n = 0
    for fn in ctx.crate('codegen').all_fns():
        if fn.from_macro:
            continue
        for c in fn.walk(lambda x: x['k'] in ('mcall', 'assign')):
            if c['k'] == 'mcall':
                if c['method'] not in MUT:
                    continue
                r = _strip(c['recv'])
            else:
                r = _strip(c['l'])
            if not (isinstance(r, dict) and r.get('k') == 'field' and r.get('name') == 'qualifiers'):
                continue
            n += 1
            obs.append(bad('QUALIFIERS-FIXED', '%s/%s' % (short(fn.path), c.get('method', 'assign')), 'a stored qualifier list is edited in place (`%s`)' % c.get('method', '='), c.get('sp', fn.loc),
                           'the Rust type no longer follows the declared GraphQL type (non-null dropped / list level lost at some nesting depth)'))
    if not obs:
        obs.append(ok('QUALIFIERS-FIXED', 'scan', 'no `qualifiers` member is edited after extraction anywhere in the generator', ''))
    return obs


@rule('ATTR-SCAN')
def rule_attr_scan(ctx):
    """The derive's attribute helpers look at *tokens*: a flag identifier is recognised by comparing `Ident` tokens, never
    by a substring test on the printed token stream (which also contains every string literal: paths, module names)."""
    obs = []
    n = 0
    for fn in ctx.crate('derive').all_fns():
        if fn.from_macro or '::attributes::' not in norm_path(fn.path) or '::test' in norm_path(fn.path):
            continue
        n += 1
        for c in fn.walk(lambda x: x['k'] == 'mcall' and x['method'] in ('contains', 'starts_with', 'ends_with', 'find', 'matches', 'split')):
            # receiver chain: .. tokens.to_string() ..
            cur = c['recv']
            via = False
            while isinstance(cur, dict) and cur.get('k') in ('mcall', 'ref', 'wrap'):
                if cur['k'] == 'mcall':
                    if cur['method'] == 'to_string' and 'TokenStream' in (cur['recv'].get('ty', '') + cur['recv'].get('aty', '')):
                        via = True
                    cur = cur['recv']
                else:
                    cur = cur['e']
            if not via and isinstance(cur, dict) and cur.get('k') == 'path' and (cur.get('res') or {}).get('r') == 'local':
                for s_ in fn.binds.get(cur['res']['hid'], []):
                    if s_[0] == 'expr':
                        for x in H.walk(s_[1]):
                            if x.get('k') == 'mcall' and x['method'] == 'to_string' and 'TokenStream' in (x['recv'].get('ty', '') + x['recv'].get('aty', '')):
                                via = True
            if via:
                obs.append(bad('ATTR-SCAN', '%s/%s' % (short(fn.path), c['method']), 'the attribute is searched as printed text (`tokens.to_string().%s(..)`)' % c['method'], c.get('sp', fn.loc),
                               'a string literal that merely contains the flag\'s name (a path, a module) switches the option on'))
    if n < 3:
        obs.append(bad('ATTR-SCAN', 'floor', 'anchor-missing: only %d attribute helpers found' % n, '', 'checker lost its anchor'))
    elif not obs:
        obs.append(ok('ATTR-SCAN', 'scan', '%d attribute helpers: none tests the printed token stream for substrings' % n, ''))
    return obs
