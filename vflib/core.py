"""Rule runner core: context (facts + engines), obligations, HIR path conditions, MIR dominance."""
import json
import os
import re
import time

from . import facts as F
from . import prov as P
from . import tmpl as T

VERIF = F.VERIF


class Ob:
    """One rule instance (obligation) and its verdict."""

    def __init__(self, rule, instance, status, detail='', site='', breaks='', props=None):
        self.rule = rule
        self.instance = instance
        self.status = status          # ok | violated | undecided
        self.detail = detail
        self.site = site
        self.breaks = breaks
        self.props = props

    @property
    def key(self):
        return '%s/%s' % (self.rule, self.instance)

    def to_json(self):
        return {'rule': self.rule, 'instance': self.instance, 'status': self.status, 'detail': self.detail,
                'site': self.site, 'breaks': self.breaks}


def ok(rule, instance, detail='', site=''):
    return Ob(rule, instance, 'ok', detail, site)


def bad(rule, instance, detail, site='', breaks=''):
    return Ob(rule, instance, 'violated', detail, site, breaks)


def undecided(rule, instance, detail, site=''):
    return Ob(rule, instance, 'undecided', detail, site)


def short(path):
    """short, line-free fn identity: last two path segments without generics"""
    p = F.norm_path(path)
    p = re.sub(r'^<(.+) as (.+)>::', lambda m: m.group(1).split('::')[-1] + '::', p)
    parts = p.split('::')
    return '::'.join(parts[-2:]) if len(parts) >= 2 else p


class Ctx:
    def __init__(self, tier='quick', log=None):
        self.tier = tier
        self.t0 = time.time()
        self.prog = F.load_program(log) if log else F.load_program()
        self.pv = P.Prov(self.prog)
        self.ex = T.Expander(self.pv)
        self._grammar = None
        self._fn_cache = {}
        self.notes = []

    # ---- lookup ------------------------------------------------------------------------------
    def crate(self, key):
        return self.prog.crates[key]

    def fns(self, crate, suffix):
        """all fns of a crate whose normalised path ends with `suffix`"""
        out = []
        for fn in self.prog.crates[crate].all_fns():
            if F.norm_path(fn.path).endswith(suffix):
                out.append(fn)
        return out

    def fn(self, crate, suffix):
        l = self.fns(crate, suffix)
        if l:
            return l[0]
        # the name is only a hint: fall back to what the function *does* (renamed / re-signed private functions)
        role = ROLE_FALLBACK.get(suffix) or ROLE_FALLBACK.get(suffix.split('::')[-1])
        if role is not None:
            try:
                f = role(self, crate)
            except Exception:
                f = None
            if f is not None:
                self.notes.append('anchor `%s` found by role as %s' % (suffix, f.path))
                return f
        return None

    def fn_by_key(self, key):
        return self.pv.fn_by_key.get(key)

    def site_fn(self, sitekey):
        return self.pv.sites[sitekey][0]

    def site_loc(self, sitekey):
        fn, node = self.pv.sites[sitekey]
        return node.get('sp', fn.loc)

    # ---- grammar -----------------------------------------------------------------------------
    def grammar(self):
        """(items, parser) of the whole generated-module grammar, expanded from the library entry"""
        if self._grammar is None:
            # templates of call-graph-recursive functions are unfolded once per function, not once per template
            from . import hirx as _H
            if not hasattr(self, '_cg'):
                self._cg = _H.CallGraph(self.prog, self.pv)
            rec = set()
            for comp in self._cg.sccs():
                rec |= set(comp)
            self.ex.recursive_fns = rec
            entry = self.fn('codegen', 'graphql_client_codegen::generate_module_token_stream_inner')
            roots = []
            if entry is not None:
                args = [('param', entry.key, i, '') for i in range(len(entry.params))]
                res = self.pv.inline([entry], args, 0)
                roots = [l for c, l in P.leaves(res) if l[0] == 'tmpl']
            ip = T.ItemParser()
            trees = []
            for r in roots:
                tree = self.ex.expand(r[1], r[2])
                trees.append(tree)
                ip.parse_items(tree)
            self._grammar = (ip.items, ip, trees, roots)
        return self._grammar

    def all_items(self):
        items, ip, trees, roots = self.grammar()
        return list(T.walk_items(items))

    # ---- HIR path conditions -----------------------------------------------------------------
    def path_conds(self, fn, node):
        """conditions that must hold for control to reach `node` (inside fn), innermost last.
        Each entry: (kind, cond_node, label) with kind in if/match/letelse/guard-return."""
        out = []
        chain = list(fn.ancestors(node))   # (parent, role, child) from inner to outer
        for parent, role, child in chain:
            k = parent.get('k')
            if k == 'if':
                if role == 'then':
                    out.append(('if', parent['cond'], True))
                elif role == 'else':
                    out.append(('if', parent['cond'], False))
            elif k == 'match' and isinstance(role, tuple) and role[0] == 'arms':
                arm = parent['arms'][role[1]]
                # which part of the arm are we in?
                out.append(('match', parent['scrut'], P.pat_summary(arm['pat']), role[1]))
            elif k == 'block' and isinstance(role, tuple) and role[0] == 'stmts':
                # earlier statements of the block that diverge conditionally
                for st in parent['stmts'][:role[1]]:
                    out.extend(self._guards_of_stmt(st))
            elif k == 'block' and role == 'expr':
                for st in parent['stmts']:
                    out.extend(self._guards_of_stmt(st))
        out.reverse()
        return out

    def _guards_of_stmt(self, st):
        """`if c { diverge }` contributes (c, False); let-else contributes the pattern"""
        out = []
        e = st.get('e') if st['k'] == 'stmt' else None
        if e is not None and e.get('k') == 'if' and e.get('else') is None and diverges(e['then']):
            out.append(('if', e['cond'], False))
        if e is not None and e.get('k') == 'if' and e.get('else') is not None and diverges(e['else']) and not diverges(e['then']):
            out.append(('if', e['cond'], True))
        if st['k'] == 'let' and st.get('els') is not None:
            out.append(('letelse', st['init'], P.pat_summary(st['pat'])))
        return out

    # ---- MIR ---------------------------------------------------------------------------------
    def mir(self, crate, path):
        l = self.prog.crates[crate].mir.get(path)
        return l[0] if l else None

    def mir_norm(self, crate, suffix):
        out = []
        for p, l in self.prog.crates[crate].mir.items():
            if F.norm_path(p).endswith(suffix):
                out.extend(l)
        return out


def _most_literals(ctx, crate, adt_suffix, pred=None):
    cnt = {}
    for adt, sites in ctx.prog.aggregates_norm.items():
        if adt.endswith(adt_suffix):
            for fn, node in sites:
                if fn.key.startswith(crate + '::') and not fn.from_macro and (pred is None or pred(fn, node)):
                    cnt[fn.key] = cnt.get(fn.key, 0) + 1
    if not cnt:
        return None
    return ctx.pv.fn_by_key.get(max(sorted(cnt), key=lambda k: cnt[k]))


def _qualifier_extractor(ctx, crate, module, exclude=None):
    """the function of `module` that appends GraphqlTypeQualifier values inside a loop (directly)"""
    for fn in ctx.prog.crates[crate].all_fns():
        if fn.from_macro or not F.norm_path(fn.path).startswith(module) or (exclude and exclude in F.norm_path(fn.path)):
            continue
        for n in fn.walk(lambda x: x['k'] == 'mcall' and x['method'] == 'push'):
            if 'GraphqlTypeQualifier' in (n['recv'].get('ty', '') + n['recv'].get('aty', '')) and any(p.get('k') in ('loop', 'for') for p, r, c in fn.ancestors(n)):
                return fn
    return None


ROLE_FALLBACK = {
    # the response-type expander: builds the named ExpandedField records
    'calculate_selection': lambda ctx, crate: _most_literals(ctx, crate, 'codegen::selection::ExpandedField',
                                                            lambda fn, node: any(x['name'] == 'graphql_name' and x['e'].get('k') != 'path' or
                                                                                 (x['name'] == 'graphql_name' and 'None' not in x['e'].get('res', {}).get('path', '')) for x in node['fields'])),
    'from_json_type_inner': lambda ctx, crate: _qualifier_extractor(ctx, crate, 'graphql_client_codegen::schema::json_conversion'),
    'resolve_field_type': lambda ctx, crate: _qualifier_extractor(ctx, crate, 'graphql_client_codegen::schema::resolve') or
    _qualifier_extractor(ctx, crate, 'graphql_client_codegen::schema::', exclude='json_conversion'),
    # the function of a schema front end that sets the root operation types
    'graphql_client_codegen::schema::json_conversion::convert': lambda ctx, crate: _first_fn(ctx, crate, 'graphql_client_codegen::schema::json_conversion', _assigns_root),
    'graphql_client_codegen::schema::graphql_parser_conversion::convert': lambda ctx, crate: _first_fn(ctx, crate, 'graphql_client_codegen::schema::graphql_parser_conversion', _assigns_root),
    # .. and the one that fills the names map
    'graphql_client_codegen::schema::json_conversion::build_names_map': lambda ctx, crate: _first_fn(ctx, crate, 'graphql_client_codegen::schema::json_conversion', _fills_names),
    'graphql_client_codegen::schema::graphql_parser_conversion::populate_names_map': lambda ctx, crate: _first_fn(ctx, crate, 'graphql_client_codegen::schema::graphql_parser_conversion', _fills_names),
    # the derive's path builder: the function that reads CARGO_MANIFEST_DIR
    'build_query_and_schema_path': lambda ctx, crate: _first_fn(ctx, crate, 'graphql_query_derive', lambda fn: any(
        isinstance(n.get('lit'), dict) and n['lit'].get('v') == 'CARGO_MANIFEST_DIR' for n in fn.walk())),
}


def _first_fn(ctx, crate, module, pred):
    for fn in ctx.prog.crates[crate].all_fns():
        if not fn.from_macro and F.norm_path(fn.path).startswith(module) and pred(fn):
            return fn
    return None


def _assigns_root(fn):
    return any(True for _ in fn.walk(lambda x: x.get('k') == 'assign' and isinstance(x.get('l'), dict) and x['l'].get('k') == 'field' and x['l'].get('name') == 'query_type'))


def _fills_names(fn):
    def names_insert(x):
        if not (x.get('k') == 'mcall' and x.get('method') == 'insert'):
            return False
        r = x.get('recv')
        while isinstance(r, dict) and r.get('k') in ('ref', 'wrap', 'unary') and 'e' in r:
            r = r['e']
        return isinstance(r, dict) and r.get('k') == 'field' and r.get('name') == 'names'
    return any(True for _ in fn.walk(names_insert))


def diverges(e):
    """does evaluating this expression never complete normally? (syntactic, conservative)"""
    if e is None:
        return False
    k = e.get('k')
    if k in ('ret', 'break', 'continue'):
        return True
    if k == 'macro':
        return e['name'].split('::')[-1] in P.DIVERGING_MACROS
    if k == 'block':
        if e.get('expr') is not None:
            return diverges(e['expr'])
        if e['stmts']:
            last = e['stmts'][-1]
            if last['k'] == 'stmt':
                return diverges(last['e'])
        return False
    if k == 'wrap':
        return diverges(e['e'])
    if k == 'call' and e.get('callee') and e['callee']['path'] in ('std::process::exit', 'std::process::abort'):
        return True
    if k == 'match':
        return all(diverges(a['body']) for a in e['arms']) and bool(e['arms'])
    if k == 'if':
        return e.get('else') is not None and diverges(e['then']) and diverges(e['else'])
    return False


# ------------------------------------------------------------------------------------------------
# MIR CFG helpers
# ------------------------------------------------------------------------------------------------

class Cfg:
    def __init__(self, m):
        self.m = m
        self.blocks = m['blocks']
        n = len(self.blocks)
        self.succ = [[] for _ in range(n)]
        self.succ_normal = [[] for _ in range(n)]
        for i, b in enumerate(self.blocks):
            t = b['term']
            k = t.get('k')
            s = []
            if k in ('call', 'drop', 'assert', 'goto'):
                if t.get('target') is not None:
                    s.append(t['target'])
            elif k == 'switch':
                s.extend(x[1] for x in t['targets'])
                s.append(t['otherwise'])
            self.succ_normal[i] = list(dict.fromkeys(s))
            if t.get('unwind') is not None:
                s = s + [t['unwind']]
            self.succ[i] = list(dict.fromkeys(s))
        self.pred = [[] for _ in range(n)]
        for i, ss in enumerate(self.succ):
            for j in ss:
                self.pred[j].append(i)
        self._dom = None

    def dominators(self):
        """dom[b] = set of blocks dominating b (over normal+unwind edges), entry = 0"""
        if self._dom is not None:
            return self._dom
        n = len(self.blocks)
        allb = set(range(n))
        reach = self.reachable(0)
        dom = [set(allb) for _ in range(n)]
        dom[0] = {0}
        changed = True
        order = [b for b in range(n) if b in reach]
        while changed:
            changed = False
            for b in order:
                if b == 0:
                    continue
                ps = [p for p in self.pred[b] if p in reach]
                if not ps:
                    continue
                new = set.intersection(*(dom[p] for p in ps)) | {b}
                if new != dom[b]:
                    dom[b] = new
                    changed = True
        self._dom = dom
        return dom

    def reachable(self, start, avoid=(), normal_only=False):
        seen = set()
        stack = [start]
        succ = self.succ_normal if normal_only else self.succ
        while stack:
            b = stack.pop()
            if b in seen or b in avoid:
                continue
            seen.add(b)
            stack.extend(succ[b])
        return seen

    def calls(self, pred=None):
        for i, b in enumerate(self.blocks):
            t = b['term']
            if t.get('k') == 'call' and (pred is None or pred(t)):
                yield i, t

    def returns(self):
        return [i for i, b in enumerate(self.blocks) if b['term'].get('k') == 'return']


def callee_name(t):
    return F.norm_path(t.get('resolved') or t.get('fn') or '')


def callee_names(t):
    return {F.norm_path(t.get('resolved') or ''), F.norm_path(t.get('fn') or '')} - {''}
