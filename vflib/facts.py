"""Fact acquisition (runs the gqlfacts driver over /repo's working tree) and indexing."""
import fcntl
import hashlib
import json
import os
import shutil
import subprocess
import sys
import time

VERIF = os.path.dirname(os.path.dirname(os.path.abspath(__file__)))
REPO = os.environ.get('VF_REPO', '/repo')
CACHE = os.environ.get('VF_CACHE') or os.path.join(VERIF, '.cache')
DRIVER_DIR = os.path.join(VERIF, 'engines', 'gqlfacts')
DRIVER = os.path.join(DRIVER_DIR, 'target', 'release', 'gqlfacts')

PACKAGES = ['graphql_client_codegen', 'graphql_query_derive', 'graphql-introspection-query',
            'graphql_client', 'graphql_client_cli']
# fact file name -> logical crate key
EXPECTED = {
    'graphql_client_codegen.rlib.json': 'codegen',
    'graphql_query_derive.procmacro.json': 'derive',
    'graphql_introspection_query.rlib.json': 'introspection',
    'graphql_client.rlib.json': 'client',
    'graphql_client.executable.json': 'cli',
}


def sysroot():
    return subprocess.check_output(['rustc', '+nightly', '--print', 'sysroot'], text=True).strip()


def tree_hash():
    """Hash of every source input of the five crates in /repo's *working tree*."""
    h = hashlib.sha256()
    roots = ['graphql_client_codegen', 'graphql_query_derive', 'graphql-introspection-query',
             'graphql_client', 'graphql_client_cli']
    files = [os.path.join(REPO, 'Cargo.toml'), os.path.join(REPO, 'Cargo.lock')]
    for r in roots:
        for dp, dn, fn in os.walk(os.path.join(REPO, r)):
            dn[:] = sorted(d for d in dn if d not in ('target', '.git'))
            for f in sorted(fn):
                if f.endswith(('.rs', '.toml', '.graphql', '.json', '.lock', '.gql', '.graphqls')):
                    files.append(os.path.join(dp, f))
    for f in sorted(files):
        try:
            data = open(f, 'rb').read()
        except OSError:
            continue
        h.update(f.encode())
        h.update(b'\0')
        h.update(data)
        h.update(b'\0')
    # the driver itself is part of the key
    for f in sorted(os.listdir(os.path.join(DRIVER_DIR, 'src'))):
        h.update(open(os.path.join(DRIVER_DIR, 'src', f), 'rb').read())
    return h.hexdigest()[:20]


def build_driver(log=sys.stderr):
    srcs = [os.path.join(DRIVER_DIR, 'src', f) for f in os.listdir(os.path.join(DRIVER_DIR, 'src'))]
    if os.path.exists(DRIVER) and all(os.path.getmtime(DRIVER) >= os.path.getmtime(s) for s in srcs):
        return
    print('[vf] building gqlfacts driver', file=log)
    env = dict(os.environ, CARGO_NET_OFFLINE='true')
    env.pop('RUSTC_WORKSPACE_WRAPPER', None)
    env.pop('RUSTFLAGS', None)
    r = subprocess.run(['cargo', '+nightly', 'build', '--release', '--offline'], cwd=DRIVER_DIR,
                       env=env, stdout=subprocess.PIPE, stderr=subprocess.STDOUT, text=True)
    if r.returncode != 0:
        print(r.stdout, file=log)
        raise RuntimeError('cannot build gqlfacts driver')


class FactsError(Exception):
    pass


def ensure_facts(log=sys.stderr, extra_tag='', cargo_extra=None):
    """Returns the directory holding one fact file per crate for the CURRENT working tree."""
    os.makedirs(CACHE, exist_ok=True)
    lock = open(os.path.join(CACHE, 'lock'), 'w')
    fcntl.flock(lock, fcntl.LOCK_EX)
    try:
        build_driver(log)
        th = tree_hash() + extra_tag
        out = os.path.join(CACHE, 'facts', th)
        ok_marker = os.path.join(out, 'OK')
        if os.path.exists(ok_marker):
            return out
        # prune older fact sets (disk)
        fdir = os.path.join(CACHE, 'facts')
        if os.path.isdir(fdir):
            for d in os.listdir(fdir):
                shutil.rmtree(os.path.join(fdir, d), ignore_errors=True)
        os.makedirs(out, exist_ok=True)
        target = os.path.join(CACHE, 'target' + extra_tag)
        # cargo's freshness cache would skip the wrapper: remove the members' fingerprints
        fp = os.path.join(target, 'debug', '.fingerprint')
        if os.path.isdir(fp):
            for d in os.listdir(fp):
                if d.startswith(('graphql_client', 'graphql_query_derive', 'graphql-introspection-query',
                                 'graphql_client_cli', 'graphql_client_codegen')):
                    shutil.rmtree(os.path.join(fp, d), ignore_errors=True)
        env = dict(os.environ)
        env.update({
            'LD_LIBRARY_PATH': sysroot() + '/lib',
            'RUSTFLAGS': '-Zmir-opt-level=0 -Awarnings',
            'RUSTC_WORKSPACE_WRAPPER': DRIVER,
            'GQLFACTS_OUT': out,
            'CARGO_TARGET_DIR': target,
            'CARGO_NET_OFFLINE': 'true',
        })
        cmd = ['cargo', '+nightly', 'check', '--offline']
        for p in PACKAGES:
            cmd += ['-p', p]
        if cargo_extra:
            cmd += cargo_extra
        t0 = time.time()
        r = subprocess.run(cmd, cwd=REPO, env=env, stdout=subprocess.PIPE, stderr=subprocess.STDOUT, text=True)
        if r.returncode != 0:
            shutil.rmtree(out, ignore_errors=True)
            raise FactsError('tree does not compile under cargo +nightly check:\n' + r.stdout[-4000:])
        missing = [f for f in EXPECTED if not os.path.exists(os.path.join(out, f))]
        if missing:
            shutil.rmtree(out, ignore_errors=True)
            raise FactsError('fact files missing (driver skipped?): %s' % missing)
        open(ok_marker, 'w').write('%.1f' % (time.time() - t0))
        print('[vf] facts extracted in %.1fs -> %s' % (time.time() - t0, out), file=log)
        return out
    finally:
        fcntl.flock(lock, fcntl.LOCK_UN)
        lock.close()


# ------------------------------------------------------------------------------------------------
# indexing
# ------------------------------------------------------------------------------------------------

import re as _re
_GEN = _re.compile(r'::<[^<>]*>')


def norm_path(p):
    if not p:
        return p
    prev = None
    while prev != p:
        prev = p
        p = _GEN.sub('', p)
    return p


CHILD_KEYS = ('f', 'args', 'recv', 'base', 'e', 'fields', 'scrut', 'arms', 'cond', 'then', 'else', 'init',
              'body', 'stmts', 'expr', 'l', 'r', 'idx', 'es', 'exp', 'iter', 'els', 'guard')


class Fn:
    def __init__(self, crate, d):
        self.crate = crate
        self.path = d['path']
        self.key = crate.key + '::' + d['path']
        self.d = d
        self.dk = d['dk']
        self.loc = d.get('loc', '')
        self.file = self.loc.rsplit(':', 2)[0]
        self.params = d.get('params', [])
        self.body = d['body']
        self.from_macro = d.get('from_macro')
        self.nodes = {}        # id -> node
        self.parent = {}       # id(node obj) -> (parent node, role)
        self.binds = {}        # hid -> list of binding sources
        self.closures = []
        self._index()

    # ---- tree indexing ----------------------------------------------------------------------
    def _index(self):
        def reg_pat(pat, src):
            """src: tuple describing where the matched value comes from"""
            k = pat.get('k')
            if k == 'bind':
                self.binds.setdefault(pat['hid'], []).append(src)
                self.bind_names[pat['hid']] = pat['name']
                self.bind_types[pat['hid']] = pat.get('ty', '')
                if 'sub' in pat:
                    reg_pat(pat['sub'], src)
            elif k == 'struct':
                adt = pat['res'].get('path', '?')
                for f in pat['fields']:
                    if f['name'].isdigit():
                        # `Some { 0: x }` — positional field of a tuple variant (used by desugarings)
                        reg_pat(f['pat'], ('proj', src, ('ctor', adt, int(f['name']), len(pat['fields']))))
                    else:
                        reg_pat(f['pat'], ('proj', src, ('field', adt, f['name'])))
            elif k == 'tstruct':
                ctor = pat['res'].get('path', '?')
                n = len(pat['pats'])
                for i, p in enumerate(pat['pats']):
                    reg_pat(p, ('proj', src, ('ctor', ctor, i, n)))
            elif k == 'tuple':
                for i, p in enumerate(pat['pats']):
                    reg_pat(p, ('proj', src, ('tuple', i)))
            elif k == 'or':
                for p in pat['pats']:
                    reg_pat(p, src)
            elif k in ('ref', 'guard'):
                reg_pat(pat['pat'], src)
            elif k == 'slice':
                for p in pat.get('before', []) + pat.get('after', []):
                    reg_pat(p, ('proj', src, ('elem',)))
                if pat.get('mid'):
                    reg_pat(pat['mid'], src)

        self.bind_names = {}
        self.bind_types = {}
        self.reg_pat = reg_pat
        for i, p in enumerate(self.params):
            reg_pat(p, ('param', self.key, i))

        def walk(node, parent, role):
            if not isinstance(node, dict):
                return
            if 'k' in node:
                self.parent[id(node)] = (parent, role)
                if 'id' in node:
                    self.nodes[node['id']] = node
                k = node['k']
                if k == 'let':
                    if node.get('init') is not None:
                        reg_pat(node['pat'], ('expr', node['init']))
                    else:
                        reg_pat(node['pat'], ('uninit',))
                elif k == 'letx':
                    reg_pat(node['pat'], ('expr', node['init']))
                elif k == 'match':
                    for a in node['arms']:
                        reg_pat(a['pat'], ('expr', node['scrut']))
                elif k == 'for':
                    reg_pat(node['pat'], ('proj', ('expr', node['iter']), ('elem',)))
                elif k == 'closure':
                    self.closures.append(node)
                    for i, p in enumerate(node['params']):
                        reg_pat(p, ('cparam', node, i))
                elif k == 'assign':
                    tgt = root_local(node['l'])
                    if tgt and node['l'].get('k') == 'path':
                        self.binds.setdefault(tgt, []).append(('assign', node['r'], node))
                elif k == 'macro' and node['name'].split('::')[-1] in ('write', 'writeln') and node['args']:
                    self._pending_writes.append(node)
                elif k == 'mcall' and node['method'] in MUTATORS:
                    tgt = root_local(node['recv'])
                    r = node['recv']
                    while r.get('k') in ('ref', 'wrap'):
                        r = r['e']
                    if tgt and r.get('k') == 'path' and node['args']:
                        self.binds.setdefault(tgt, []).append(('mut', node['method'], node['args'][-1], node))
            has_k = 'k' in node
            for key, v in node.items():
                if key.startswith('_'):
                    continue
                if isinstance(v, dict):
                    # containers without a kind (match arms, struct-literal fields) pass the position they occupy
                    # in their parent down to their children
                    walk(v, node if has_k else parent, key if has_k else role)
                elif isinstance(v, list):
                    for i, x in enumerate(v):
                        if isinstance(x, dict):
                            walk(x, node if has_k else parent, (key, i) if has_k else role)
        self._pending_writes = []
        walk(self.body, None, 'body')
        # write!(target, fmt, args..) appends to `target` when it is a local String
        for node in self._pending_writes:
            first = node['args'][0]
            tn = self.nodes.get(first.get('id')) if first.get('how') == 'span' else None
            if tn is not None:
                tgt = root_local(tn)
                if tgt and 'String' in (tn.get('ty', '') + self.bind_types.get(tgt, '')):
                    self.binds.setdefault(tgt, []).append(('mutfmt', node))

    def walk(self, pred=None):
        """yield every expression-like node (dict with 'k')"""
        stack = [self.body]
        while stack:
            n = stack.pop()
            if isinstance(n, dict):
                if 'k' in n and (pred is None or pred(n)):
                    yield n
                for key, v in n.items():
                    if key.startswith('_'):
                        continue
                    if isinstance(v, (dict, list)):
                        stack.append(v)
            elif isinstance(n, list):
                stack.extend(n)

    def ancestors(self, node):
        cur = node
        while True:
            pr = self.parent.get(id(cur))
            if not pr or pr[0] is None:
                return
            yield pr[0], pr[1], cur
            cur = pr[0]

    def line_of(self, node):
        sp = node.get('sp') or ''
        return sp


MUTATORS = {'push', 'push_str', 'extend', 'insert', 'push_back', 'extend_from_slice', 'append', 'push_front'}


def root_local(e):
    while isinstance(e, dict):
        k = e.get('k')
        if k == 'path':
            r = e['res']
            return r['hid'] if r.get('r') == 'local' else None
        if k in ('ref', 'wrap', 'cast', 'unary'):
            e = e['e']
        elif k == 'field' or k == 'index':
            e = e['base']
        elif k == 'macro':
            e = e['exp']
        else:
            return None
    return None


class Crate:
    def __init__(self, key, d):
        self.key = key
        self.d = d
        self.name = d['crate']
        self.fns = {}
        for f in d['fns']:
            fn = Fn(self, f)
            # several impls may share a def path string (generic impls): keep all
            self.fns.setdefault(fn.path, []).append(fn)
        self.adts = {a['path']: a for a in d['adts']}
        self.statics = d['statics']
        self.impls = d['impls']
        self.ast_items = d['ast']['items'] if d.get('ast') else []
        self.mir = {}
        for m in d['mir']:
            self.mir.setdefault(m['path'], []).append(m)
        self.kw = d['kw']

    def fn(self, path):
        l = self.fns.get(path)
        return l[0] if l else None

    def all_fns(self):
        for l in self.fns.values():
            for f in l:
                yield f

    def ast_item(self, name, kind=None, module=None):
        for it in self.ast_items:
            if it.get('name') == name and (kind is None or it['kind'] == kind) and (module is None or it['module'] == module):
                return it
        return None


BASELINE_FILE = os.path.join(os.path.dirname(os.path.abspath(__file__)), 'baseline_items.json')


def fn_sig(f):
    return json.dumps([f.get('dk'), f.get('inputs'), f.get('output'), bool(f.get('impl_self')), f.get('impl_trait')], sort_keys=True)


def adt_sig(a):
    vs = []
    for v in a.get('variants', []):
        # a struct's single variant carries the struct's own name: not part of its shape
        vs.append([v.get('name') if a.get('kind') != 'struct' else '', [[x.get('name'), x.get('ty')] for x in v.get('fields', [])]])
    return json.dumps([a.get('kind'), vs], sort_keys=True)


def rename_aliases(raw, kinds=('fns', 'adts')):
    """Renamed / moved private items: an item of the reference inventory (baseline_items.json, taken from the tree the
    rules were written against) that is missing here, and exactly one *new* item with the same signature (fns: kind,
    parameter and return types; types: kind, variant and field names and types) -> treat the new one as the old one.
    Returns {new path: reference path}.  Rules keep naming things by their reference names; a rename is not a change."""
    try:
        base = json.load(open(BASELINE_FILE))
    except (OSError, ValueError):
        return {}
    alias = {}
    for key, d in raw.items():
        b = base.get(key)
        if not b:
            continue
        for kind, items, sigf in (('fns', d['fns'], fn_sig), ('adts', d['adts'], adt_sig)):
            if kind not in kinds:
                continue
            cur_paths = {x['path'] for x in items}
            ref = b.get(kind, {})
            missing = {p: sg for p, sg in ref.items() if p not in cur_paths and '{closure' not in p}
            fresh = {}
            for x in items:
                if x['path'] not in ref and '{closure' not in x['path'] and not x.get('from_macro'):
                    fresh.setdefault(sigf(x), []).append(x['path'])
            by_sig = {}
            for p, sg in missing.items():
                by_sig.setdefault(sg, []).append(p)
            for sg, olds in by_sig.items():
                news = fresh.get(sg, [])
                if len(olds) == 1 and len(set(news)) == 1:
                    alias[news[0]] = olds[0]
    return alias


def apply_aliases(obj, alias, _keys=('path', 'resolved', 'fn', 'adt', 'impl_self', 'impl_trait', 'ty', 'aty', 'output', 'kind', 'gargs')):
    """rewrite every path-like string of the facts (definitions, callees, types, MIR names) through the alias map"""
    pairs = sorted(alias.items(), key=lambda kv: -len(kv[0]))

    def fix(s):
        for new, old in pairs:
            if new in s:
                # whole-path occurrences only (followed by end, `::`, `<`, `>`, `,`, space, `)` ...)
                out = []
                i = 0
                while True:
                    j = s.find(new, i)
                    if j < 0:
                        out.append(s[i:])
                        break
                    e = j + len(new)
                    before_ok = j == 0 or not (s[j - 1].isalnum() or s[j - 1] == '_')
                    after_ok = e == len(s) or not (s[e].isalnum() or s[e] == '_')
                    out.append(s[i:j])
                    out.append(old if (before_ok and after_ok) else new)
                    i = e
                s = ''.join(out)
        return s
    stack = [obj]
    while stack:
        o = stack.pop()
        if isinstance(o, dict):
            for k, v in o.items():
                if isinstance(v, str):
                    if len(v) > 8 and '::' in v:
                        o[k] = fix(v)
                elif isinstance(v, (dict, list)):
                    stack.append(v)
        elif isinstance(o, list):
            for i, v in enumerate(o):
                if isinstance(v, str):
                    if len(v) > 8 and '::' in v:
                        o[i] = fix(v)
                elif isinstance(v, (dict, list)):
                    stack.append(v)


class Program:
    def __init__(self, facts_dir):
        self.dir = facts_dir
        self.crates = {}
        raw = {}
        for fname, key in EXPECTED.items():
            with open(os.path.join(facts_dir, fname)) as fh:
                raw[key] = json.load(fh)
        # types first (function signatures mention them), then functions
        self.aliases = {}
        for kinds in (('adts',), ('fns',)):
            al = rename_aliases(raw, kinds)
            if al:
                self.aliases.update(al)
                for d in raw.values():
                    apply_aliases(d, al)
        for key, d in raw.items():
            self.crates[key] = Crate(key, d)
        # call index: callee path -> [(fn, call node)]
        self.calls = {}
        self.calls_norm = {}
        self.aggregates = {}     # adt path -> [(fn, struct node)]
        self.aggregates_norm = {}
        self.field_writes = {}   # (adt, field) -> [(fn, mcall node)]
        self.field_writes_norm = {}
        for c in self.crates.values():
            for fn in c.all_fns():
                derived = bool(fn.from_macro and fn.from_macro.startswith('derive:'))
                for n in fn.walk():
                    k = n['k']
                    if derived and k == 'struct':
                        continue  # values built by derive expansions (visitors) are not program data flow
                    if k in ('call', 'mcall'):
                        cal = n.get('callee')
                        if cal:
                            self.calls.setdefault(cal['path'], []).append((fn, n))
                            self.calls_norm.setdefault(norm_path(cal['path']), []).append((fn, n))
                            if cal.get('resolved'):
                                self.calls.setdefault(cal['resolved'], []).append((fn, n))
                                self.calls_norm.setdefault(norm_path(cal['resolved']), []).append((fn, n))
                        if k == 'mcall' and n['method'] in MUTATORS:
                            r = n['recv']
                            while r.get('k') in ('ref', 'wrap'):
                                r = r['e']
                            if r.get('k') == 'field' and r.get('adt'):
                                self.field_writes.setdefault((r['adt'], r['name']), []).append((fn, n))
                                self.field_writes_norm.setdefault((norm_path(r['adt']), r['name']), []).append((fn, n))
                    elif k == 'struct' and all('e' in x for x in n.get('fields', [])):
                        self.aggregates.setdefault(n.get('adt', '?'), []).append((fn, n))
                        self.aggregates_norm.setdefault(norm_path(n.get('adt', '?')), []).append((fn, n))

    def crate(self, key):
        return self.crates[key]

    def find_fn(self, crate_key, path):
        return self.crates[crate_key].fn(path)

    def callers(self, path):
        return self.calls.get(path, [])


def load_program(log=sys.stderr, **kw):
    return Program(ensure_facts(log, **kw))
