"""Structural rules over resolved HIR / MIR / ADT facts for C07, C08, C12, C13, C14, C15, C16, C17, C18, C19, C20
(and the HIR-side rules of C01, C02, C04, C05, C10, C11)."""
import os
import re

from . import prov as P
from . import terms as TM
from . import hirx as H
from . import core
from .core import Ob, ok, bad, undecided, short
from .facts import norm_path

REGISTRY = []


def rule(*ids):
    def deco(fn):
        REGISTRY.append((fn, ids))
        return fn
    return deco


def callgraph(ctx):
    if not hasattr(ctx, '_cg'):
        ctx._cg = H.CallGraph(ctx.prog, ctx.pv)
    return ctx._cg


def walk(e):
    stack = [e]
    while stack:
        n = stack.pop()
        if isinstance(n, list):
            stack.extend(n)
        elif isinstance(n, dict):
            if 'k' in n:
                yield n
            for key, v in n.items():
                if isinstance(v, (dict, list)) and not key.startswith('_'):
                    stack.append(v)


ENTRY_SUFFIXES = ['graphql_client_codegen::generate_module_token_stream',
                  'graphql_client_codegen::generate_module_token_stream_from_string',
                  'graphql_client_codegen::generate_module_token_stream_inner']


def entry_keys(ctx):
    keys = []
    for s in ENTRY_SUFFIXES:
        for fn in ctx.fns('codegen', s):
            if norm_path(fn.path) == s:
                keys.append(fn.key)
    for fn in ctx.fns('derive', 'graphql_query_derive::derive_graphql_query'):
        keys.append(fn.key)
    return keys


# ================================================================================================
# C08 — purity
# ================================================================================================

AUDITED_STATE = ('SCHEMA_CACHE', 'QUERY_CACHE')


@rule('STATE-INVENTORY')
def rule_state_inventory(ctx):
    obs = []
    n = 0
    for ck in ('codegen', 'derive', 'introspection'):
        for st in ctx.crate(ck).statics:
            n += 1
            p = norm_path(st['path'])
            inst = '%s/%s' % (ck, re.sub(r'^<(.+) as .+>::deref::__stability::', r'\1::', p).split('::', 1)[-1])
            stateful = st['mutable'] or not st['freeze']
            if not stateful:
                obs.append(ok('STATE-INVENTORY', inst, 'immutable Freeze static (%s): not state' % st['ty'][:60], st['loc']))
                continue
            audited = any(a in p for a in AUDITED_STATE) and 'Mutex' in st['ty'] or any(a in p for a in AUDITED_STATE) and 'lazy' in st['ty'].lower()
            if audited:
                obs.append(ok('STATE-INVENTORY', inst, 'audited process-wide cache (%s)' % st['ty'][:80], st['loc']))
            else:
                obs.append(bad('STATE-INVENTORY', inst, 'unaudited mutable / interior-mutable static of type %s' % st['ty'][:100], st['loc'],
                               'a later call can observe state left by an earlier one'))
    # thread_local / OnceLock / atomics reached through std APIs
    cg = callgraph(ctx)
    reach = cg.reachable(entry_keys(ctx))
    for k in reach:
        for ext in cg.ext.get(k, ()):
            if ext.startswith(('std::thread::LocalKey', 'std::sync::atomic', 'std::sync::OnceLock', 'std::cell::OnceCell', 'std::sync::Once::')) \
                    and 'lazy_static' not in k:
                fn = ctx.fn_by_key(k)
                if fn is not None and fn.from_macro and 'lazy_static' in fn.from_macro:
                    continue
                obs.append(bad('STATE-INVENTORY', '%s/uses-%s' % (short(fn.path) if fn else k, ext.split('::')[-2]),
                               'code reachable from the generator entry points uses %s' % ext, fn.loc if fn else '',
                               'hidden state across calls'))
    if n < 2:
        obs.append(bad('STATE-INVENTORY', 'floor', 'anchor-missing: the two audited caches were not found among the statics'))
    return obs


def _cache_fn(ctx):
    """the fn that takes the cache mutex: a workspace fn that calls Mutex::lock on a parameter"""
    out = []
    for fn in ctx.crate('codegen').all_fns():
        if fn.from_macro:
            continue
        for n in H.calls_in(fn):
            if any(p.endswith('Mutex::lock') or p.endswith('Mutex<T>::lock') for p in H.callee_paths(n)) or (n['k'] == 'mcall' and n['method'] == 'lock' and 'Mutex' in n['recv'].get('ty', '') + n['recv'].get('aty', '')):
                out.append((fn, n))
    return out


@rule('CACHE-ACCESS', 'CACHE-KEY')
def rule_cache_access(ctx):
    obs = []
    cg = ctx.crate('codegen')
    locks = _cache_fn(ctx)
    if not locks:
        return [bad('CACHE-ACCESS', 'floor', 'anchor-missing: no fn takes a cache mutex')]
    lockfns = {fn.key for fn, _ in locks}
    # who dereferences the audited statics?
    for fn in cg.all_fns():
        if fn.from_macro:
            continue
        for n in fn.walk(lambda n: n['k'] == 'path' and n['res'].get('r') == 'def' and any(a in n['res'].get('path', '') for a in AUDITED_STATE)
                         and n['res'].get('dk', '').startswith('Static')):
            name = n['res']['path'].split('::')[-1]
            kind, detail = H.consumption(fn, n)
            inst = '%s/%s' % (short(fn.path), name)
            if kind == 'arg' and ctx.pv.local_fns(detail.get('callee')) and all(f.key in lockfns for f in ctx.pv.local_fns(detail.get('callee'))):
                obs.append(ok('CACHE-ACCESS', inst, '%s is only handed to the locked get-or-insert helper' % name, n.get('sp', '')))
            else:
                obs.append(bad('CACHE-ACCESS', inst, '%s is used outside the locked get-or-insert helper (%s)' % (name, kind), n.get('sp', ''),
                               'cache content can be changed/observed without the discipline the helper enforces'))
    # inside the helper: only entry(..).or_insert_with(..) and clone
    for fn, lock in locks:
        allowed = {'lock', 'expect', 'unwrap', 'unwrap_or_else', 'into_inner', 'entry', 'or_insert_with', 'clone', 'into', 'to_path_buf',
                   'to_owned', 'as_ref', 'deref', 'deref_mut', 'get', 'contains_key', 'map', 'cloned', 'or_insert'}
        badm = []
        for n in H.calls_in(fn):
            if n['k'] == 'mcall':
                rt = n['recv'].get('ty', '') + n['recv'].get('aty', '')
                if ('BTreeMap' in rt or 'HashMap' in rt or 'MutexGuard' in rt or 'Entry' in rt) and n['method'] not in allowed:
                    if n['method'] == 'insert':
                        # get-or-insert written out: `if let Some(v) = map.get(k) { return v.clone() } .. map.insert(k, v)` —
                        # the insert is reachable only after a lookup of the map missed, under the same guard
                        missed = False
                        for pc in P.path_conds(fn, n):
                            if pc[0] in ('if', 'match', 'nomatch', 'letelse') and pc[1] is not None:
                                took_miss = (pc[0] == 'if' and pc[2] is False) or pc[0] in ('nomatch',) or \
                                            (pc[0] == 'match' and 'None' in repr(pc[2])) or (pc[0] == 'if' and pc[2] is True and any(x.get('k') == 'unary' and x.get('op') == '!' for x in walk(pc[1])))
                                if took_miss and any(x['k'] == 'mcall' and x['method'] in ('get', 'contains_key') and
                                                     any(t_ in (x['recv'].get('ty', '') + x['recv'].get('aty', '')) for t_ in ('BTreeMap', 'HashMap', 'MutexGuard')) for x in walk(pc[1])):
                                    missed = True
                        if missed:
                            continue
                    badm.append(n['method'])
        inst = '%s/map-ops' % short(fn.path)
        if badm:
            obs.append(bad('CACHE-ACCESS', inst, 'cache map is modified/iterated with %s' % sorted(set(badm)), fn.loc,
                           'an entry can be overwritten/removed: repeated calls may see different values'))
        else:
            obs.append(ok('CACHE-ACCESS', inst, 'only get-or-insert (entry().or_insert_with()) and clone on the cache map', fn.loc))
        # the map key is the caller's key, untransformed
        senv = H.sym_env(fn)
        for n in H.calls_in(fn):
            if n['k'] == 'mcall' and n['method'] in ('entry', 'get', 'insert', 'contains_key') and n['args'] and \
                    any(x in (n['recv'].get('ty', '') + n['recv'].get('aty', '')) for x in ('BTreeMap', 'HashMap', 'MutexGuard')):
                kt = ctx.pv.eval(fn, n['args'][0], senv, 0)
                kinst = '%s/map-key' % short(fn.path)
                # conversions the term language treats as the identity but that are not injective on paths
                chain_ = []
                cur_ = n['args'][0]
                while isinstance(cur_, dict) and cur_.get('k') in ('mcall', 'ref', 'wrap', 'call'):
                    if cur_['k'] == 'mcall':
                        chain_.append(cur_['method'])
                        cur_ = cur_['recv']
                    elif cur_['k'] == 'call':
                        chain_.append((cur_.get('callee') or {}).get('path', '').split('::')[-1])
                        cur_ = cur_['args'][0] if cur_.get('args') else None
                    else:
                        cur_ = cur_['e']
                lossy_ = [m_ for m_ in chain_ if m_ in ('display', 'to_string_lossy', 'to_str', 'to_string', 'file_name', 'file_stem', 'canonicalize', 'to_lowercase', 'to_ascii_lowercase', 'format')]
                if lossy_:
                    obs.append(bad('CACHE-KEY', kinst, 'the cache map key goes through %s: distinct paths can collide (or the key depends on the file system)' % lossy_, n.get('sp', ''),
                                   'two different files can share one cache entry: the output depends on call order'))
                    continue
                if kt[0] == 'param' and 'Path' in (fn.d.get('inputs') or [''] * 9)[kt[2]]:
                    obs.append(ok('CACHE-KEY', kinst, 'the cache map is keyed by the caller\'s path itself', n.get('sp', '')))
                else:
                    obs.append(bad('CACHE-KEY', kinst, 'the cache map key is derived from the path (%s), not the path itself' % P.show(kt, 0, 3)[:80], n.get('sp', ''),
                                   'two different files can share one cache entry: the output depends on call order'))
        out = fn.d.get('output', '')
        if out.startswith('&') or 'MutexGuard' in out:
            obs.append(bad('CACHE-ACCESS', '%s/returns-owned' % short(fn.path), 'helper returns %s (a reference into the cache)' % out, fn.loc,
                           'references into shared state escape the lock'))
        else:
            obs.append(ok('CACHE-ACCESS', '%s/returns-owned' % short(fn.path), 'helper returns an owned clone (%s)' % out, fn.loc))
    return obs


@rule('CACHE-KEY')
def rule_cache_key(ctx):
    """the key given to the cache helper and the path read inside the value closure have the same origin"""
    obs = []
    locks = _cache_fn(ctx)
    helpers = {fn.key: fn for fn, _ in locks}
    n = 0
    for hk, helper in helpers.items():
        for cfn, cnode in ctx.pv.call_sites(helper):
            n += 1
            inst = '%s/key' % short(cfn.path)
            if len(cnode['args']) < 3:
                obs.append(undecided('CACHE-KEY', inst, 'unexpected helper signature', cnode.get('sp', '')))
                continue
            env = {}
            for i, pp in enumerate(cfn.params):
                if pp.get('k') == 'bind':
                    env[pp['hid']] = ('param', cfn.key, i, pp['name'])
            key_t = ctx.pv.eval(cfn, cnode['args'][1], env, 0)
            clo = cnode['args'][2]
            # paths read inside the closure: arguments of read_file / File::open / fs::read*
            reads = []

            def is_read(m):
                ps = H.callee_paths(m)
                lf = ctx.pv.local_fns(m.get('callee'))
                return any(p.endswith(('fs::read_to_string', 'File::open', 'fs::read', 'read_file')) for p in ps) or \
                    any(short(f.path).endswith('read_file') for f in lf)

            def reads_in(f_, body, argterm, depth):
                """terms of the paths read in `body`; argterm maps a parameter hid of f_ to the caller's term"""
                for m in walk(body):
                    if m['k'] not in ('call', 'mcall'):
                        continue
                    if is_read(m):
                        if m['args']:
                            a0 = m['args'][0]
                            while a0.get('k') in ('ref', 'wrap'):
                                a0 = a0['e']
                            if argterm is not None and a0.get('k') == 'path' and a0['res'].get('hid') in argterm:
                                reads.append(argterm[a0['res']['hid']])
                            elif argterm is None:
                                reads.append(ctx.pv.eval(f_, m['args'][0], env, 0))
                            else:
                                reads.append(('unknown', 'path computed inside a helper'))
                    elif depth > 0:
                        # a helper that does the reading: follow the path argument into it
                        for lf in ctx.pv.local_fns(m.get('callee')):
                            if lf.from_macro:
                                continue
                            amap = {}
                            args_ = ([m['recv']] if m['k'] == 'mcall' else []) + m['args']
                            for i_, prm in enumerate(lf.params):
                                if prm.get('k') == 'bind' and i_ < len(args_):
                                    if argterm is None:
                                        amap[prm['hid']] = ctx.pv.eval(f_, args_[i_], env, 0)
                                    else:
                                        x_ = args_[i_]
                                        while x_.get('k') in ('ref', 'wrap'):
                                            x_ = x_['e']
                                        if x_.get('k') == 'path' and x_['res'].get('hid') in argterm:
                                            amap[prm['hid']] = argterm[x_['res']['hid']]
                            reads_in(lf, lf.body, amap, depth - 1)
            reads_in(cfn, clo, None, 2)
            key_o = {o for o, _ in TM.paths(key_t)}
            key_x = {x for _, x in TM.paths(key_t)}
            if any(x for x in key_x):
                obs.append(bad('CACHE-KEY', inst, 'cache key is a transformed path: %s' % P.show(key_t, 1, 4)[:140], cnode.get('sp', ''),
                               'two different files share a cache entry (e.g. same file name in different directories)'))
                continue
            if not reads:
                obs.append(bad('CACHE-KEY', inst, 'value closure reads no file (cannot relate key and content)', cnode.get('sp', ''), ''))
                continue
            mism = [r for r in reads if {o for o, _ in TM.paths(r)} != key_o or any(x for _, x in TM.paths(r))]
            if mism:
                obs.append(bad('CACHE-KEY', inst, 'file read inside the cached computation (%s) is not the cache key (%s)' %
                               (P.show(mism[0], 1, 4)[:100], P.show(key_t, 1, 4)[:100]), cnode.get('sp', ''),
                               'an entry is filled from a different file than the one it is keyed by'))
            else:
                obs.append(ok('CACHE-KEY', inst, 'key and the file read have the same origin (%s)' % sorted(o[1] for o in key_o), cnode.get('sp', '')))
    if n < 2:
        obs.append(bad('CACHE-KEY', 'floor', 'anchor-missing: expected the schema and query cache call sites, found %d' % n))
    return obs


PANICKY_METHODS = {'unwrap', 'expect'}


def _may_panic(ctx, fn, e, depth=0):
    """does evaluating e possibly panic through unwrap/expect/panic!/indexing (following workspace callees)?"""
    reasons = []
    for n in walk(e):
        k = n['k']
        if k == 'mcall' and n['method'] in PANICKY_METHODS:
            reasons.append('%s() at %s' % (n['method'], n.get('sp', '').split('/')[-1]))
        elif k == 'macro' and n['name'].split('::')[-1] in P.DIVERGING_MACROS | {'assert', 'assert_eq'}:
            reasons.append('%s! at %s' % (n['name'], n.get('sp', '').split('/')[-1]))
        elif k in ('call', 'mcall') and depth < 3:
            for lf in ctx.pv.local_fns(n.get('callee')):
                if lf.from_macro:
                    continue
                r = _may_panic(ctx, lf, lf.body, depth + 1)
                if r:
                    reasons.append('%s -> %s' % (short(lf.path), r[0]))
    return reasons


@rule('LOCK-DISCIPLINE')
def rule_lock_discipline(ctx):
    obs = []
    locks = _cache_fn(ctx)
    if not locks:
        return [bad('LOCK-DISCIPLINE', 'floor', 'anchor-missing: no cache lock site')]
    for fn, lock in locks:
        inst = short(fn.path)
        kind, detail = H.consumption(fn, lock)
        # (b) failure isolation
        tolerant = False
        cur = lock
        pr = fn.parent.get(id(lock))
        if pr and pr[0] is not None and pr[0].get('k') == 'mcall' and pr[1] == 'recv':
            m = pr[0]['method']
            if m in ('unwrap_or_else', 'map_err', 'or_else'):
                # must call PoisonError::into_inner
                txt = repr(pr[0]['args'])
                tolerant = 'into_inner' in txt
            elif m in ('unwrap', 'expect'):
                tolerant = False
        elif kind == 'match':
            tolerant = 'into_inner' in repr(detail)
        # what runs while the guard is live: everything after the lock statement in the fn body + closures passed to it
        panics_under_lock = []
        chain = H.stmt_chain(fn, lock)
        if chain:
            blk, idx = chain[-1]
            rest = blk['stmts'][idx + 1:] + ([blk['expr']] if blk.get('expr') is not None else [])
            for st in rest:
                e = st.get('e') if isinstance(st, dict) and st.get('k') == 'stmt' else (st.get('init') if isinstance(st, dict) and st.get('k') == 'let' else st)
                if e is None:
                    continue
                panics_under_lock += _may_panic(ctx, fn, e)
                # closures supplied by callers and invoked here (value_func)
                for n in walk(e):
                    if n['k'] == 'path' and n['res'].get('r') == 'local' and 'FnOnce' in n.get('ty', '') + fn.bind_types.get(n['res']['hid'], ''):
                        for cfn, cnode in ctx.pv.call_sites(fn):
                            for a in cnode['args']:
                                if a.get('k') == 'closure':
                                    for r in _may_panic(ctx, cfn, a['body']):
                                        panics_under_lock.append('%s closure: %s' % (short(cfn.path), r))
        if tolerant:
            obs.append(ok('LOCK-DISCIPLINE', inst + '/failure-isolation', 'a poisoned cache lock is recovered (into_inner): a panic for one input cannot fail later calls', lock.get('sp', '')))
        elif not panics_under_lock:
            obs.append(ok('LOCK-DISCIPLINE', inst + '/failure-isolation', 'nothing that can panic runs while the cache lock is held', lock.get('sp', '')))
        else:
            obs.append(bad('LOCK-DISCIPLINE', inst + '/failure-isolation',
                           'lock() result is %s and code that can panic runs while the guard is live: %s' % (
                               detail if isinstance(detail, str) else kind, '; '.join(sorted(set(panics_under_lock))[:4])),
                           lock.get('sp', ''),
                           'one failing input (missing/unparsable file) poisons the cache: every later, valid call in the process panics'))
        # (a) no nested locking: while the guard is live no call can reach a lock again
        cg = callgraph(ctx)
        lockers = {f.key for f, _ in locks}
        nested = []
        if chain:
            blk, idx = chain[-1]
            rest = blk['stmts'][idx + 1:] + ([blk['expr']] if blk.get('expr') is not None else [])
            for st in rest:
                for n in walk(st):
                    if n['k'] in ('call', 'mcall'):
                        for lf in ctx.pv.local_fns(n.get('callee')):
                            if cg.reachable([lf.key]) & lockers:
                                nested.append(short(lf.path))
            # closures passed by callers
            for cfn, cnode in ctx.pv.call_sites(fn):
                for a in cnode['args']:
                    if a.get('k') == 'closure':
                        for n in walk(a['body']):
                            if n['k'] in ('call', 'mcall'):
                                for lf in ctx.pv.local_fns(n.get('callee')):
                                    if cg.reachable([lf.key]) & lockers:
                                        nested.append('%s closure -> %s' % (short(cfn.path), short(lf.path)))
        if nested:
            obs.append(bad('LOCK-DISCIPLINE', inst + '/no-nesting', 'a cache lock can be taken while one is held: %s' % sorted(set(nested)), lock.get('sp', ''),
                           'lock-order deadlock between threads'))
        else:
            obs.append(ok('LOCK-DISCIPLINE', inst + '/no-nesting', 'no cache lock is acquired while one is held', lock.get('sp', '')))
    return obs


AMBIENT = ('std::env::var', 'std::env::var_os', 'std::env::vars', 'std::env::args', 'std::env::current_dir', 'std::env::temp_dir',
           'std::time::', 'std::thread::current', 'std::process::id', 'std::fs::read_dir', 'std::time::SystemTime::now',
           'std::time::Instant::now', 'rand::', 'std::collections::hash_map::RandomState', 'std::hash::RandomState',
           'std::thread::sleep', 'std::env::current_exe', 'std::fs::metadata', 'std::net::', 'std::thread::spawn')
HASH_ITER = {'iter', 'into_iter', 'keys', 'values', 'drain', 'iter_mut', 'values_mut', 'into_keys', 'into_values', 'retain'}


@rule('NO-AMBIENT')
def rule_no_ambient(ctx):
    obs = []
    cg = callgraph(ctx)
    reach = cg.reachable(entry_keys(ctx))
    n_fns = 0
    for k in sorted(reach):
        fn = ctx.fn_by_key(k)
        if fn is None or fn.from_macro and 'derive' in fn.from_macro:
            continue
        if not k.startswith(('codegen::', 'derive::', 'introspection::')):
            continue
        n_fns += 1
        for n in H.calls_in(fn):
            ps = H.callee_paths(n)
            hit = [p for p in ps if p.startswith(AMBIENT)]
            if hit:
                # audited: the derive reads CARGO_MANIFEST_DIR
                if any(p.startswith('std::env::var') for p in hit) and n['args'] and n['args'][0].get('k') == 'lit' and \
                        n['args'][0]['lit']['v'] == 'CARGO_MANIFEST_DIR' and k.startswith('derive::'):
                    obs.append(ok('NO-AMBIENT', '%s/env-CARGO_MANIFEST_DIR' % short(fn.path), 'audited: manifest dir is an input of the derive (path resolution)', n.get('sp', '')))
                    continue
                obs.append(bad('NO-AMBIENT', '%s/%s' % (short(fn.path), hit[0].split('::')[-1]), 'generator code calls %s' % hit[0], n.get('sp', ''),
                               'output depends on something other than schema, query and options'))
            # iteration of hash collections
            if n['k'] == 'mcall' and n['method'] in HASH_ITER:
                rt = n['recv'].get('ty', '') + ' ' + n['recv'].get('aty', '')
                if 'HashMap' in rt or 'HashSet' in rt:
                    obs.append(bad('NO-AMBIENT', '%s/hash-iteration' % short(fn.path), 'iteration over %s' % rt.strip()[:80], n.get('sp', ''),
                                   'item order in the generated code varies between processes (RandomState)'))
        for n in fn.walk(lambda n: n['k'] == 'for'):
            rt = n['iter'].get('ty', '') + ' ' + n['iter'].get('aty', '')
            if 'HashMap' in rt or 'HashSet' in rt or 'hash_map' in rt or 'hash_set' in rt:
                obs.append(bad('NO-AMBIENT', '%s/hash-iteration' % short(fn.path), '`for` over %s' % rt.strip()[:80], n.get('sp', ''),
                               'item order in the generated code varies between processes'))
        # pointer formatting / address use
        for n in fn.walk(lambda n: n['k'] == 'macro' and n['name'].split('::')[-1] in ('format', 'write', 'format_args', 'println')):
            if '{:p}' in n['text']:
                obs.append(bad('NO-AMBIENT', '%s/pointer-format' % short(fn.path), 'address formatted into a string', n.get('sp', ''), 'output differs per process'))
    if n_fns < 60:
        obs.append(bad('NO-AMBIENT', 'floor', 'anchor-missing: only %d fns reachable from the generator entry points (call graph incomplete?)' % n_fns))
    else:
        obs.append(ok('NO-AMBIENT', 'reachable', '%d workspace fns reachable from the generator entry points contain no ambient input' % n_fns))
    return obs


@rule('ORDERED')
def rule_ordered(ctx):
    """collections whose iteration order reaches the output are ordered (BTree*/Vec), in the model ADTs and in locals"""
    obs = []
    n = 0
    for path, adt in ctx.crate('codegen').adts.items():
        for v in adt['variants']:
            for f in v['fields']:
                t = f['ty']
                if 'HashMap' in t or 'HashSet' in t:
                    n += 1
                    obs.append(bad('ORDERED', '%s.%s' % (path.split('::')[-1], f['name']), 'field type %s is an unordered hash collection' % t[:80], adt['loc'],
                                   'iteration order (hence item order in the output) varies between processes'))
                elif 'BTree' in t or 'Vec<' in t:
                    n += 1
    for fn in ctx.crate('codegen').all_fns():
        if fn.from_macro:
            continue
        for hid, ty in fn.bind_types.items():
            if ('HashMap' in ty or 'HashSet' in ty) and 'std::collections' in ty:
                obs.append(bad('ORDERED', '%s/%s' % (short(fn.path), fn.bind_names.get(hid, '?')), 'local of type %s in generator code' % ty[:80], fn.loc,
                               'if iterated, output order varies between processes'))
    if n < 10:
        obs.append(bad('ORDERED', 'floor', 'anchor-missing: expected >= 10 collection-typed model fields, found %d' % n))
    else:
        obs.append(ok('ORDERED', 'model', '%d collection-typed fields of the schema/query model are Vec/BTree*; no hash collection in generator code' % n))
    return obs


# ================================================================================================
# C17 / C12 — recursion and termination
# ================================================================================================

GRAPH_LOOKUPS = ('Query::get_fragment', 'Schema::get_input', 'Schema::get_object', 'Schema::get_interface', 'Schema::get_union')
NODE_TYPES = ('SelectionId', 'selection::Selection', 'ResolvedFragment', 'StoredInputType', 'InputId', 'FragmentId', 'StoredObject',
              'StoredInterface', 'StoredUnion')
VISITED_METHODS = {'contains', 'insert', 'contains_key'}


def _negations_to(fn, root, target, neg=False, depth=0):
    """number of `!` (as a parity) between the condition `root` and the test `target` inside it; None if the test is not
    reached through `!`, `&&`, `||`, parentheses and named sub-expressions only"""
    if root is target:
        return neg
    if not isinstance(root, dict) or depth > 8:
        return None
    k = root.get('k')
    if k in ('wrap', 'ref', 'cast'):
        return _negations_to(fn, root['e'], target, neg, depth + 1)
    if k == 'unary':
        return _negations_to(fn, root['e'], target, (not neg) if root.get('op') == '!' else neg, depth + 1)
    if k == 'binary' and root.get('op') in ('&&', '||'):
        for side in ('l', 'r'):
            r = _negations_to(fn, root[side], target, neg, depth + 1)
            if r is not None:
                return r
        return None
    if k == 'path' and (root.get('res') or {}).get('r') == 'local':
        srcs = fn.binds.get(root['res']['hid'], [])
        if len(srcs) == 1 and srcs[0][0] == 'expr':
            return _negations_to(fn, srcs[0][1], target, neg, depth + 1)
    return None


def _visited_guard(ctx, fn, call):
    """is the recursive `call` control-dependent on a visited-set membership test (or does such a test with an
    early return precede it)?  The call has to sit on the *fresh* side of the test (`insert` gave true / `contains`
    gave false); on the other side the guard is inverted: ('inverted', ..)."""
    for pc in P.path_conds(fn, call):
        if pc[0] in ('if',):
            # the set may live in a small private wrapper (`seen.record(name)` / `seen.has_recorded(name)`): a workspace
            # method whose body performs the membership test on a set is the test
            for n in H.walk_through_locals(fn, pc[1]):
                if n['k'] in ('call', 'mcall'):
                    for lf_ in ctx.pv.local_fns(n.get('callee')) or []:
                        if lf_.d.get('output', '') == 'bool' and any(x_['k'] == 'mcall' and x_['method'] in VISITED_METHODS and
                                                                     any(t_ in (x_['recv'].get('ty', '') + x_['recv'].get('aty', '')) for t_ in ('BTreeSet', 'HashSet'))
                                                                     for x_ in walk(lf_.body)):
                            return True, 'guarded by %s() (a set wrapper)' % short(lf_.path)
            # `a && visited.insert(x) && rec(..)`: the left operand is itself a conjunction
            for n in H.walk_through_locals(fn, pc[1]):
                if n['k'] == 'mcall' and n['method'] in VISITED_METHODS:
                    rt = n['recv'].get('ty', '') + n['recv'].get('aty', '')
                    if 'BTreeSet' in rt or 'HashSet' in rt or 'Vec<' in rt or 'BTreeMap' in rt:
                        neg = _negations_to(fn, pc[1], n)
                        if neg is not None and isinstance(pc[2], bool):
                            value = pc[2] != neg        # what the test returned on the path to the call
                            fresh = value if n['method'] == 'insert' else (not value)
                            if not fresh:
                                return 'inverted', 'the call runs only when %s.%s() reported the node as ALREADY visited' % (rt.split('<')[0].split('::')[-1], n['method'])
                        if n['method'] != 'insert' and call.get('k') in ('call', 'mcall'):
                            # a pure membership test marks nothing: the node has to be recorded BEFORE the descent (in this function:
                            # when the function records into that set at all, some recording must come earlier than the call)
                            root = _root_hid(n['recv'])
                            marks = [x_ for x_ in walk(fn.body) if x_['k'] == 'mcall' and x_['method'] in ('insert', 'push', 'extend') and _root_hid(x_['recv']) == root and root is not None]
                            if marks and not any(_earlier(fn, x_, call) for x_ in marks):
                                return 'late', 'the node is recorded in the %s only after the descent returns' % rt.split('<')[0].split('::')[-1]
                        return True, 'guarded by %s.%s()' % (rt.split('<')[0].split('::')[-1], n['method'])
    return False, ''


def _root_hid(e):
    while isinstance(e, dict):
        if e.get('k') == 'path':
            return (e.get('res') or {}).get('hid') if (e.get('res') or {}).get('r') == 'local' else None
        if e.get('k') == 'mcall':
            e = e.get('recv')
        elif 'e' in e:
            e = e['e']
        elif e.get('k') == 'field':
            e = e.get('base') or e.get('e')
        else:
            return None
    return None


def _earlier(fn, a, b):
    okp, why = H.precedes(fn, a, b)
    return okp or why.startswith('earlier but conditional')


def _structural_arg(ctx, fn, call):
    """is some argument of the recursive call a strict sub-term of a parameter (Box inner, of_type, sub-selection ids)?"""
    for a in call.get('args', []) + ([call['recv']] if call['k'] == 'mcall' else []):
        ty = a.get('ty', '')
        # graphql_parser AST / introspection TypeRef / Value
        if any(x in ty for x in ('graphql_parser::', 'TypeRef', 'introspection_response')):
            # .. and it is a part of what the function received, not a value built on the spot (`&BTreeMap::new()`)
            params = set()
            for p_ in fn.params:
                params |= _pat_hids(p_)
            if _locals_behind(fn, a) & params:
                return True, 'descends into a sub-node of the parsed input (%s)' % ty.split('<')[0].split('::')[-1]
    return False, ''


def _locals_behind(fn, e):
    """locals an expression is computed from, transitively through every binding source (let initialisers, assignments,
    match / for / or-pattern bindings, closure parameters -> the collection the closure is applied to)"""
    seen = set()
    todo = [e]
    while todo:
        x = todo.pop()
        for n_ in H.walk(x):
            if n_['k'] == 'path' and n_['res'].get('r') == 'local':
                h = n_['res']['hid']
                if h in seen:
                    continue
                seen.add(h)
                for s_ in fn.binds.get(h, []):
                    while s_[0] == 'proj':
                        s_ = s_[1]
                    if s_[0] in ('expr', 'assign') and isinstance(s_[1], dict):
                        todo.append(s_[1])
                    elif s_[0] == 'cparam':
                        pr = fn.parent.get(id(s_[1]))
                        while pr and pr[0] is not None and pr[0].get('k') in ('wrap', 'ref'):
                            pr = fn.parent.get(id(pr[0]))
                        if pr and pr[0] is not None and pr[0].get('k') == 'mcall':
                            todo.append(pr[0]['recv'])
    return seen


def _pat_hids(p):
    out = set()
    if not isinstance(p, dict):
        return out
    if p.get('k') == 'bind':
        out.add(p['hid'])
    for v in p.values():
        if isinstance(v, dict):
            out |= _pat_hids(v)
        elif isinstance(v, list):
            for x in v:
                out |= _pat_hids(x.get('pat', x) if isinstance(x, dict) else {})
    return out


def _callee_guards(ctx, cg, members, callee, caller):
    """the callee is another function of the cycle and every call it makes back into the cycle is on the fresh side of a
    visited-set test that records the node before descending"""
    if callee is None or callee.key == caller.key or callee.from_macro:
        return False
    sites = [c_ for t_ in members for c_ in cg.sites.get((callee.key, t_), [])]
    return bool(sites) and all(_visited_guard(ctx, callee, c_)[0] is True for c_ in sites)


@rule('REC-GUARD', 'REACH-FRAGMENT')
def rule_rec_guard(ctx):
    obs = []
    cg = callgraph(ctx)
    comps = [c for c in cg.sccs() if any(k.startswith('codegen::') for k in c)]
    n = 0
    for comp in comps:
        members = sorted(comp)
        fns = [ctx.fn_by_key(k) for k in members]
        if any(f is None for f in fns) or all(f.from_macro for f in fns):
            continue
        for fn in fns:
            if fn.from_macro:
                continue
            ordn = {}
            for tgt in members:
                for call in cg.sites.get((fn.key, tgt), []):
                    n += 1
                    callee = ctx.fn_by_key(tgt)
                    base = '%s->%s' % (short(fn.path), short(callee.path))
                    ordn[base] = ordn.get(base, 0) + 1
                    inst = '%s#%d' % (base, ordn[base])
                    loc = call.get('sp', '')
                    sg, swhy = _structural_arg(ctx, fn, call)
                    if sg:
                        obs.append(ok('REC-GUARD', inst, 'structural recursion: %s' % swhy, loc))
                        continue
                    fields = set()
                    senv = H.sym_env(fn)
                    node_terms = []
                    for a in call.get('args', []) + ([call['recv']] if call.get('k') == 'mcall' else []):
                        aty = a.get('ty', '') + a.get('aty', '')
                        # only arguments that denote a node (set) of the traversed structure, not contexts/counters
                        if not any(x in aty for x in NODE_TYPES):
                            continue
                        t_ = ctx.pv.eval(fn, a, senv, 0)
                        node_terms.append(t_)
                        # what the node *is* made from (the conditions under which it is chosen are not a descent)
                        fields |= TM.value_fields(t_)
                    if node_terms and all(t_[0] == 'param' for t_ in node_terms):
                        obs.append(ok('REC-GUARD', inst, 'delegates its own node argument unchanged to a helper of the same traversal (no descent on this edge)', loc))
                        continue
                    DESCENT = ('selection_set', 'StoredInputType.fields', 'Schema.stored_inputs', 'StoredInputFieldType.id', 'StoredInputType.')
                    own_params = all(o[0] == 'param' for t_ in node_terms for o, _ in TM.paths(t_) if o[0] in ('param', 'field') and not (o[0] == 'field' and o[1] in (
                        'Query.selections', 'BoundQuery.query', 'BoundQuery.schema', 'Query.fragments', 'SelectionId.0', 'Schema.stored_inputs_by_id')))
                    has_param = any(s_[0] == 'param' and s_[1] == fn.key for t_ in node_terms for s_ in P.subterms(t_))
                    if node_terms and has_param and not any(any(d_ in f_ for d_ in DESCENT) for f_ in fields):
                        # e.g. `for id in ids_param { query.get_selection(id).recurse() }`: resolves ids it was given, no descent
                        obs.append(ok('REC-GUARD', inst, 'forwards the nodes it was handed (ids resolved to nodes, no descent on this edge): the callers\' edges carry the obligation', loc))
                        continue
                    if 'ResolvedFragment.selection_set' in fields:
                        kind = 'follows a fragment spread (fragment pool, can be cyclic)'
                    elif 'Schema.stored_inputs' in fields or any(f.startswith('StoredInputType.') for f in fields):
                        kind = 'follows an input-type reference (input pool, can be cyclic)'
                    elif fields & {'SelectedField.selection_set', 'InlineFragment.selection_set'}:
                        obs.append(ok('REC-GUARD', inst, 'descends into the sub-selection of a selection (a tree: each selection has one parent)', loc))
                        continue
                    else:
                        if _callee_guards(ctx, cg, members, callee, fn):
                            obs.append(ok('REC-GUARD', inst, 'hands an id to %s, whose own recursive calls are all behind its visited-set test' % short(callee.path), loc))
                            continue
                        obs.append(bad('REC-GUARD', inst, 'cannot classify the recursion (arguments derive from %s)' % sorted(fields)[:6], loc,
                                       'possibly unbounded recursion'))
                        continue
                    vg, vwhy = _visited_guard(ctx, fn, call)
                    if vg == 'late':
                        obs.append(bad('REC-GUARD', inst, 'recursion %s: %s' % (kind, vwhy), loc,
                                       'a reference cycle that does not pass through the entry node is followed without bound: stack overflow aborts the compiler process'))
                        continue
                    if vg == 'inverted':
                        obs.append(bad('REC-GUARD', inst, 'recursion %s sits on the wrong side of its visited-set test: %s' % (kind, vwhy), loc,
                                       'fresh nodes are skipped and visited ones are followed again: a reference cycle recurses without bound'))
                        continue
                    if not vg:
                        # the guard may sit where the pool reference is *taken* (`let next = match n { Spread(id) => { if
                        # !visited.insert(id) { return }; &pool[id].children } .. }`) rather than around the call
                        pool_nodes = []
                        for a in call.get('args', []) + ([call['recv']] if call.get('k') == 'mcall' else []):
                            for x in H.walk_through_locals(fn, a):
                                if x['k'] == 'field' and ((x['name'] == 'selection_set' and x.get('adt', '').endswith('ResolvedFragment')) or
                                                          (x['name'] in ('fields',) and x.get('adt', '').endswith('StoredInputType'))):
                                    pool_nodes.append(x)
                                if x['k'] in ('call', 'mcall') and any(p_.endswith(('Query::get_fragment', 'Schema::get_input')) for p_ in H.callee_paths(x)):
                                    pool_nodes.append(x)
                        if pool_nodes and any(_visited_guard(ctx, fn, pn)[0] == 'inverted' for pn in pool_nodes):
                            obs.append(bad('REC-GUARD', inst, 'recursion %s: the pool reference is taken on the wrong side of its visited-set test' % kind, loc,
                                           'fresh nodes are skipped and visited ones are followed again: a reference cycle recurses without bound'))
                            continue
                        if pool_nodes and all(_visited_guard(ctx, fn, pn)[0] is True for pn in pool_nodes):
                            vg, vwhy = True, _visited_guard(ctx, fn, pool_nodes[0])[1] + ' where the reference is taken'
                    if vg:
                        obs.append(ok('REC-GUARD', inst, '%s; %s' % (kind, vwhy), loc))
                    elif _callee_guards(ctx, cg, members, callee, fn):
                        obs.append(ok('REC-GUARD', inst, '%s; the visited-set test sits in %s, in front of every recursive call it makes' % (kind, short(callee.path)), loc))
                    else:
                        obs.append(bad('REC-GUARD', inst, 'recursion %s without a visited-set guard' % kind, loc,
                                       'a reference cycle in the input recurses without bound: stack overflow aborts the compiler process'))
    if n < 6:
        obs.append(bad('REC-GUARD', 'floor', 'anchor-missing: expected >= 6 recursive call sites in the generator, found %d' % n))
    # REACH-FRAGMENT: the fragment recursion predicate must traverse spread fragments
    pred = ctx.fn('codegen', 'query::fragments::fragment_is_recursive')
    if pred is None:
        obs.append(bad('REACH-FRAGMENT', 'floor', 'anchor-missing: fragment recursion predicate not found'))
    else:
        reach = cg.reachable([pred.key])
        # inside the recursion (an SCC reachable from the predicate) a get_fragment lookup must occur
        derefs = False
        for comp in comps:
            if comp & reach:
                for m in comp:
                    mf = ctx.fn_by_key(m)
                    for c2 in H.calls_in(mf):
                        if any(pth.endswith('Query::get_fragment') for pth in H.callee_paths(c2)):
                            derefs = True
        if derefs:
            obs.append(ok('REACH-FRAGMENT', 'fragment_is_recursive', 'the recursion predicate looks inside spread fragments', pred.loc))
        else:
            obs.append(bad('REACH-FRAGMENT', 'fragment_is_recursive', 'the fragment-recursion predicate compares ids but never looks inside a spread fragment', pred.loc,
                           'fragment cycles of length >= 2 (A spreads B, B spreads A) are not boxed: E0072 infinite size'))
    return obs


def _follows_fragment(ctx, fn, call):
    """does an argument of the call derive from the result of get_fragment?"""
    for a in call.get('args', []):
        t = ctx.pv.eval(fn, a, {}, 0)
        if 'ResolvedFragment.selection_set' in TM.fields_in(t) or 'ResolvedFragment.on' in TM.fields_in(t):
            return True
    return False


def _cycle_follows_fragments(ctx, cg, members):
    for m in members:
        mf = ctx.fn_by_key(m)
        for t2 in members:
            for c2 in cg.sites.get((mf.key, t2), []):
                if _follows_fragment(ctx, mf, c2):
                    return True
    return False


@rule('LOOP-PROGRESS')
def rule_loop_progress(ctx):
    obs = []
    n = 0
    for ck in ('codegen', 'derive'):
        for fn in ctx.crate(ck).all_fns():
            if fn.from_macro:
                continue
            for lp in fn.walk(lambda x: x['k'] == 'loop'):
                if lp.get('x'):
                    continue
                n += 1
                inst = '%s/%s' % (short(fn.path), lp['src'])
                body = lp['body']
                # (1) iterator-driven while-let: `while let Some(x) = it.next()`
                txt_calls = [m for m in walk(body) if m['k'] == 'mcall']
                iter_next = any(m['method'] == 'next' for m in txt_calls)
                # (2) scrutinee reassigned from a strict sub-term: assignments `v = <proj of v>` in all non-exiting arms
                assigns = [m for m in walk(body) if m['k'] == 'assign']
                exits = [m for m in walk(body) if m['k'] in ('ret', 'break')]
                progress = False
                for a in assigns:
                    l = a['l']
                    if l.get('k') == 'path' and l['res'].get('r') == 'local':
                        hid = l['res']['hid']
                        # rhs must be a pattern-bound sub-node of the matched value (a binding introduced by a match on `hid`)
                        r = a['r']
                        while r.get('k') in ('ref', 'wrap', 'unary', 'mcall') and (r.get('k') != 'mcall' or r['method'] in ('as_mut', 'as_ref', 'deref')):
                            r = r['e'] if r.get('k') != 'mcall' else r['recv']
                        if r.get('k') == 'path' and r['res'].get('r') == 'local':
                            srcs = fn.binds.get(r['res']['hid'], [])
                            for s_ in srcs:
                                if s_[0] != 'proj':
                                    continue
                                # the value destructured must be the cursor itself (a strict sub-node of it), not something
                                # looked up elsewhere (a pool of definitions can be cyclic)
                                root = s_
                                while root[0] == 'proj':
                                    root = root[1]
                                if root[0] == 'expr' and any(x['k'] == 'path' and x['res'].get('hid') == hid for x in walk(root[1])) and \
                                        not any(x['k'] in ('call', 'mcall') and ctx.pv.local_fns(x.get('callee')) for x in walk(root[1])):
                                    progress = True
                        # map lookup walk (full_path_prefix): item = *id where id bound from parent map value
                counter = _counter_loop(fn, lp)
                if exits and counter:
                    obs.append(ok('LOOP-PROGRESS', inst, 'bounded counter loop: `%s` is compared with a bound and incremented on every path that stays in the loop' % counter, lp.get('sp', '')))
                    continue
                if exits and (progress or iter_next):
                    obs.append(ok('LOOP-PROGRESS', inst, 'loop advances (%s) and has an exit' % ('sub-term reassignment' if progress else 'iterator next()'), lp.get('sp', '')))
                elif exits and _parent_walk(ctx, fn, lp):
                    obs.append(ok('LOOP-PROGRESS', inst, 'walks the selection parent index towards the root (acyclic: ids are assigned after their parent)', lp.get('sp', '')))
                elif not exits:
                    obs.append(bad('LOOP-PROGRESS', inst, 'loop without break/return', lp.get('sp', ''), 'generation never terminates'))
                else:
                    obs.append(bad('LOOP-PROGRESS', inst, 'cannot establish that the loop makes progress', lp.get('sp', ''), 'generation may not terminate'))
    if n < 3:
        obs.append(bad('LOOP-PROGRESS', 'floor', 'anchor-missing: expected >= 3 loop/while constructs in generator code, found %d' % n))
    return obs


def _counter_loop(fn, lp):
    """`while i < bound { .. }` where every path through the body that does not leave the loop adds a positive literal to
    the local `i` (also before each `continue`) and nothing else assigns `i`: returns the counter's name, else None"""
    body = lp.get('body') or {}
    top = None
    for st in body.get('stmts', []):
        top = st.get('e') if st.get('k') == 'stmt' else top
    top = top or body.get('expr')
    if not isinstance(top, dict) or top.get('k') != 'if' or top.get('else') is None:
        return None
    cond = top['cond']
    while cond.get('k') == 'wrap':
        cond = cond['e']
    if cond.get('k') != 'binary' or cond.get('op') not in ('<', '<=', '!='):
        return None
    l = cond['l']
    if not (l.get('k') == 'path' and (l.get('res') or {}).get('r') == 'local'):
        return None
    hid = l['res']['hid']
    # the else branch leaves the loop
    if not any(x['k'] == 'break' for x in walk(top['else'])):
        return None

    def is_incr(e):
        if e.get('k') != 'assignop' or e.get('op') not in ('AddAssign', '+='):
            return False
        tl = e.get('l') or {}
        r = e.get('r') or {}
        return tl.get('k') == 'path' and (tl.get('res') or {}).get('hid') == hid and r.get('k') == 'lit' and isinstance(r['lit'].get('v'), int) and r['lit']['v'] > 0

    def touches(e):
        return any(x['k'] in ('assign', 'assignop') and (x.get('l') or {}).get('k') == 'path' and ((x.get('l') or {}).get('res') or {}).get('hid') == hid and not is_incr(x)
                   for x in walk(e))
    if touches(top['then']):
        return None

    def run(e, inc):
        """-> set of outcomes {'exit', 'cont-ok', 'cont-bad', ('fall', inc)}"""
        k = e.get('k')
        if k in ('wrap',):
            return run(e['e'], inc)
        if k == 'block':
            outs = set()
            cur = {inc}
            for st in e.get('stmts', []):
                x = st.get('e') if st.get('k') == 'stmt' else st.get('init')
                if x is None:
                    continue
                nxt = set()
                for i_ in cur:
                    for o in run(x, i_):
                        if isinstance(o, tuple):
                            nxt.add(o[1])
                        else:
                            outs.add(o)
                cur = nxt
                if not cur:
                    break
            if e.get('expr') is not None and cur:
                nxt = set()
                for i_ in cur:
                    for o in run(e['expr'], i_):
                        if isinstance(o, tuple):
                            nxt.add(o[1])
                        else:
                            outs.add(o)
                cur = nxt
            return outs | {('fall', i_) for i_ in cur}
        if is_incr(e):
            return {('fall', True)}
        if k == 'continue':
            return {'cont-ok' if inc else 'cont-bad'}
        if k in ('ret', 'break'):
            return {'exit'}
        if k == 'if':
            outs = run(e['then'], inc)
            outs |= run(e['else'], inc) if e.get('else') is not None else {('fall', inc)}
            return outs
        if k == 'match':
            outs = set()
            for a in e.get('arms', []):
                outs |= run(a['body'], inc)
            return outs or {('fall', inc)}
        if k in ('loop', 'for', 'closure'):
            return {('fall', inc)}
        return {('fall', inc)}
    outs = run(top['then'], False)
    if 'cont-bad' in outs or ('fall', False) in outs:
        return None
    return fn.bind_names.get(hid, 'counter')


def _parent_walk(ctx, fn, lp):
    """`while let Some(parent) = parent_idx.get(&item) { ... item = *id ...}` where the map is written only by push_selection"""
    uses_map = any(m['k'] == 'field' and m['name'] == 'selection_parent_idx' for m in walk(lp))
    if not uses_map:
        return False
    writers = ctx.prog.field_writes_norm.get(('graphql_client_codegen::query::Query', 'selection_parent_idx'), [])
    return all(short(w[0].path).endswith('push_selection') for w in writers) and len(writers) >= 1


@rule('NO-ABORT')
def rule_no_abort(ctx):
    obs = []
    nf = 0
    for ck in ('codegen', 'derive', 'introspection'):
        c = ctx.crate(ck)
        for it in c.ast_items:
            if it['kind'] == 'foreign_mod':
                obs.append(bad('NO-ABORT', '%s/extern-block' % ck, 'extern block in a crate that runs inside rustc', it.get('loc', ''), 'foreign code can abort the process'))
        for fn in c.all_fns():
            if fn.from_macro:
                continue
            nf += 1
            for n in fn.walk(lambda x: x['k'] == 'block' and x.get('unsafe') and not x.get('x')):
                obs.append(bad('NO-ABORT', '%s/unsafe' % short(fn.path), 'unsafe block', n.get('sp', fn.loc), 'undefined behaviour / aborts are possible'))
            for n in H.calls_in(fn):
                ps = H.callee_paths(n)
                if any(p in ('std::process::abort', 'std::process::exit', 'std::mem::forget', 'core::intrinsics::abort') for p in ps):
                    obs.append(bad('NO-ABORT', '%s/%s' % (short(fn.path), sorted(ps)[0].split('::')[-1]), 'calls %s' % sorted(ps)[0], n.get('sp', ''),
                                   'the compiler process ends without a diagnostic'))
    # panic = abort profile
    try:
        cargo = open(os.path.join(os.environ.get('VF_REPO', '/repo'), 'Cargo.toml')).read()
        if re.search(r'panic\s*=\s*"abort"', cargo):
            obs.append(bad('NO-ABORT', 'profile/panic-abort', 'workspace profile sets panic = "abort"', 'Cargo.toml', 'a panic aborts instead of unwinding'))
    except OSError:
        pass
    if nf < 100:
        obs.append(bad('NO-ABORT', 'floor', 'anchor-missing: only %d fns scanned' % nf))
    elif not obs:
        obs.append(ok('NO-ABORT', 'scan', '%d fns of the three compiler-side crates: no unsafe, no abort/exit/forget, no extern block, unwinding panics' % nf))
    return obs


@rule('PIPE-DRAIN')
def rule_pipe_drain(ctx):
    """a child process whose stdout is a pipe is never waited for before that pipe has been drained
    (`wait()` with an unread piped stdout blocks forever once the child has written more than the pipe buffer)"""
    obs = []
    nsp = 0
    for ck in ('cli', 'codegen', 'derive'):
        for fn in ctx.crate(ck).all_fns():
            if fn.from_macro:
                continue
            spawns = [n for n in H.calls_in(fn) if any(p.endswith('process::Command::spawn') for p in H.callee_paths(n))]
            if not spawns:
                continue
            nsp += 1
            inst = '%s/child' % short(fn.path)
            piped = False
            for n in fn.walk(lambda x: x['k'] == 'mcall' and x['method'] == 'stdout'):
                if any(x['k'] in ('call', 'path') and ((x.get('callee') or {}).get('path', '') + x.get('res', {}).get('path', '')).endswith('Stdio::piped') for x in walk(n['args'])):
                    piped = True
            if not piped:
                obs.append(ok('PIPE-DRAIN', inst, 'the child\'s stdout is not a pipe', spawns[0].get('sp', '')))
                continue
            waits = [n for n in H.calls_in(fn) if any(p.endswith('process::Child::wait') or p.endswith('process::Child::try_wait') for p in H.callee_paths(n))]
            wwo = [n for n in H.calls_in(fn) if any(p.endswith('process::Child::wait_with_output') for p in H.callee_paths(n))]
            reads = [n for n in fn.walk(lambda x: x['k'] == 'mcall' and x['method'] in ('read_to_string', 'read_to_end', 'read', 'read_exact', 'lines', 'bytes', 'copy'))
                     if any(x['k'] == 'field' and x['name'] == 'stdout' for x in H.walk_through_locals(fn, n['recv']))]
            badw = []
            for w in waits:
                if not any(H.precedes(fn, r, w)[0] for r in reads):
                    badw.append(w)
            if badw:
                obs.append(bad('PIPE-DRAIN', inst, 'Child::wait() is called while the child\'s piped stdout has not been read', badw[0].get('sp', ''),
                               'the command hangs forever as soon as the child writes more than one pipe buffer (64 KiB)'))
            elif wwo or waits:
                obs.append(ok('PIPE-DRAIN', inst, 'the piped stdout is drained (%s)' % ('wait_with_output' if wwo else 'read before wait'), (wwo or waits)[0].get('sp', '')))
            else:
                obs.append(undecided('PIPE-DRAIN', inst, 'the child is spawned with a piped stdout but never awaited in this function', spawns[0].get('sp', '')))
    if nsp < 1:
        obs.append(bad('PIPE-DRAIN', 'floor', 'anchor-missing: no child process is spawned anywhere (rustfmt step not found)'))
    return obs
