"""C07 (front-end agreement), decision tables (TYPES-3/4, DEPR-TABLE), KW-TABLE, IDENT-2 and the remaining
HIR-side rules of C01/C02/C03/C04/C05/C09/C10."""
import os
import re

from . import prov as P
from . import terms as TM
from . import hirx as H
from . import qeval as Q
from . import tmpl as T
from .core import Ob, ok, bad, undecided, short
from .facts import norm_path, REPO
from .rules_hir import walk, callgraph, entry_keys
from .rules_hir2 import attr_args, item_attrs, derives_of
from .rules_c06 import returns_err, is_err_ctor

REGISTRY = []


def rule(*ids):
    def deco(fn):
        REGISTRY.append((fn, ids))
        return fn
    return deco


SDL_MOD = 'graphql_client_codegen::schema::graphql_parser_conversion'
JSON_MOD = 'graphql_client_codegen::schema::json_conversion'
STORED = ['StoredObject', 'StoredField', 'StoredInterface', 'StoredUnion', 'StoredScalar', 'StoredEnum', 'StoredInputType',
          'StoredInputFieldType', 'StoredFieldType']


def front_of(fn):
    p = norm_path(fn.path)
    if p.startswith(SDL_MOD):
        return 'sdl'
    if p.startswith(JSON_MOD):
        return 'json'
    if p == 'graphql_client_codegen::schema::resolve_field_type':
        return 'sdl'
    return None


def is_input_derived(t, ctx=None, depth=2):
    """does the term carry information from the parsed input (some field/param origin), not only constants?"""
    for o, _ in TM.paths(t):
        if o[0] in ('field', 'param'):
            return True
    for s in P.subterms(t):
        if s[0] in ('field', 'param', 'call'):
            return True
        if s[0] == 'agg' and ctx is not None and depth > 0:
            # a record literal (built by a helper): look at what its members are made from
            _, adt, fnkey, nodeid, envid = s
            afn = ctx.pv.fn_by_key.get(fnkey)
            node = afn.nodes.get(nodeid) if afn is not None else None
            for f in (node or {}).get('fields', []):
                if is_input_derived(ctx.pv.eval(afn, f['e'], ctx.pv.envs[envid], 0), ctx, depth - 1):
                    return True
    return False


@rule('SIB-1', 'SIB-2', 'SIB-3')
def rule_sib(ctx):
    obs = []
    prog = ctx.prog
    # SIB-1: field by field
    n = 0
    for adt in STORED:
        full = 'graphql_client_codegen::schema::' + adt
        aggs = prog.aggregates_norm.get(full, [])
        per = {'sdl': {}, 'json': {}}
        for fn, node in aggs:
            fr = front_of(fn)
            if fr is None:
                continue
            for f in node['fields']:
                t = ctx.pv.eval(fn, f['e'], H.sym_env(fn), 0)
                per[fr].setdefault(f['name'], []).append((is_input_derived(t, ctx), t, fn, node))
        names = set(per['sdl']) | set(per['json'])
        for fname in sorted(names):
            a = per['sdl'].get(fname)
            b = per['json'].get(fname)
            inst = '%s.%s' % (adt, fname)
            if not a or not b:
                if adt in ('StoredFieldType',) and (a or b):
                    # built by the shared/own extractor of each front end: covered by TYPES-3
                    continue
                obs.append(bad('SIB-1', inst, 'only the %s front end builds this record' % ('SDL' if a else 'JSON'), '', 'schemas using it differ between renderings'))
                continue
            n += 1
            da = all(x[0] for x in a)
            db = all(x[0] for x in b)
            if da and db:
                obs.append(ok('SIB-1', inst, 'both front ends derive it from their input', a[0][3].get('sp', '')))
            elif not da and not db and all(not x[0] for x in a) and all(not x[0] for x in b):
                obs.append(ok('SIB-1', inst, 'constant in both front ends', a[0][3].get('sp', '')))
            else:
                lag = [x for x in (b if da else a) if not x[0]][0]
                obs.append(bad('SIB-1', inst, 'the %s front end sets it to a constant (%s) while the %s front end computes it from the schema'
                               % ('JSON' if da else 'SDL', P.show(lag[1], 0, 3)[:40], 'SDL' if da else 'JSON'), lag[3].get('sp', ''),
                               'the two renderings of one schema generate different code for schemas using this feature'))
    if n < 12:
        obs.append(bad('SIB-1', 'floor', 'anchor-missing: expected >= 12 record fields built by both front ends, found %d' % n))
    # SIB-2: kinds ingested, names registered, roots set
    kinds = {'sdl': set(), 'json': set()}
    roots = {'sdl': set(), 'json': set()}
    stores = {'sdl': set(), 'json': set()}
    cg = callgraph(ctx)
    # lower-case constructor helpers of TypeId (`TypeId::r#enum(idx)`): which variant each builds
    id_helpers = {}
    for hf in ctx.crate('codegen').all_fns():
        hp = norm_path(hf.path)
        if hp.startswith('graphql_client_codegen::schema::TypeId::') and not hf.from_macro and 'TypeId' in hf.d.get('output', ''):
            try:
                ht = ctx.pv.eval(hf, hf.body, H.sym_env(hf), 0)
            except Exception:
                continue
            ks_ = {s_[1].split('::')[-1] for s_ in P.subterms(ht) if isinstance(s_, tuple) and s_ and s_[0] == 'ctor' and 'TypeId::' in s_[1]}
            if len(ks_) == 1:
                id_helpers[hp] = next(iter(ks_))
    for fr, mod in (('sdl', SDL_MOD), ('json', JSON_MOD)):
        fam = [fn for fn in ctx.crate('codegen').all_fns() if norm_path(fn.path).startswith(mod) and not fn.from_macro]
        # .. and the Schema methods they reach (`push_named_scalar`, a generic `push_indexed` ..)
        reach = cg.reachable([f_.key for f_ in fam])
        for k_ in sorted(reach):
            f_ = ctx.fn_by_key(k_)
            if f_ is not None and f_ not in fam and not f_.from_macro and norm_path(f_.path).startswith('graphql_client_codegen::schema::Schema::') \
                    and not norm_path(f_.path).endswith(('Schema::new', 'Schema::push_default_scalars')):
                fam.append(f_)
        names_written = False
        for fn in fam:
            for n_ in walk(fn.body):
                # a TypeId constructor helper named as a function item or called: the kind it builds is registered
                if n_['k'] == 'path' and norm_path((n_.get('res') or {}).get('path', '') or '') in id_helpers:
                    kinds[fr].add(id_helpers[norm_path(n_['res']['path'])])
                # `&mut schema.stored_x` handed to a helper that appends
                if n_['k'] == 'ref' and n_.get('mut'):
                    r_ = n_['e']
                    while r_.get('k') in ('ref', 'wrap'):
                        r_ = r_['e']
                    if r_.get('k') == 'field' and r_['name'].startswith('stored_') and r_.get('adt', '').endswith('schema::Schema'):
                        stores[fr].add(r_['name'])
                if n_['k'] == 'mcall' and n_['method'] == 'insert':
                    r = n_['recv']
                    while r.get('k') in ('ref', 'wrap'):
                        r = r['e']
                    is_names = (r.get('k') == 'field' and r['name'] == 'names') or ('BTreeMap<std::string::String, graphql_client_codegen::schema::TypeId>' in (r.get('ty', '') + r.get('aty', '')))
                    if is_names and len(n_['args']) == 2:
                        t = ctx.pv.eval(fn, n_['args'][1], H.sym_env(fn), 0)
                        for s in P.subterms(t):
                            if s[0] == 'ctor' and 'TypeId::' in s[1]:
                                kinds[fr].add(s[1].split('::')[-1])
                if n_['k'] == 'assign' and n_['l'].get('k') == 'field' and n_['l']['name'] in ('query_type', 'mutation_type', 'subscription_type'):
                    roots[fr].add(n_['l']['name'])
                if n_['k'] == 'mcall' and n_['method'] == 'push':
                    r = n_['recv']
                    while r.get('k') in ('ref', 'wrap'):
                        r = r['e']
                    if r.get('k') == 'field' and r['name'].startswith('stored_'):
                        stores[fr].add(r['name'])
                if n_['k'] in ('call', 'mcall'):
                    for lf in ctx.pv.local_fns(n_.get('callee')):
                        m = re.match(r'.*Schema::push_(\w+)$', norm_path(lf.path))
                        if m:
                            stores[fr].add('stored_' + m.group(1) + 's')
    allk = {'Enum', 'Object', 'Interface', 'Union', 'Input', 'Scalar'}
    for fr in ('sdl', 'json'):
        if kinds[fr] == allk:
            obs.append(ok('SIB-2', fr + '/names', 'all six kinds are registered in the names map', ''))
        else:
            obs.append(bad('SIB-2', fr + '/names', 'names map registers kinds %s (missing %s)' % (sorted(kinds[fr]), sorted(allk - kinds[fr])), '',
                           'types of the missing kind cannot be referenced when the schema is given in this rendering'))
        if roots[fr] == {'query_type', 'mutation_type', 'subscription_type'}:
            obs.append(ok('SIB-2', fr + '/roots', 'all three root operation types are set', ''))
        else:
            obs.append(bad('SIB-2', fr + '/roots', 'root types set: %s' % sorted(roots[fr]), '', 'operations of the missing kind are rejected/accepted differently'))
        need = {'stored_objects', 'stored_interfaces', 'stored_unions', 'stored_scalars', 'stored_enums', 'stored_inputs', 'stored_fields'}
        got = {s.replace('stored_objectss', 'stored_objects') for s in stores[fr]}
        if need <= got:
            obs.append(ok('SIB-2', fr + '/kinds', 'all kinds are ingested', ''))
        else:
            obs.append(bad('SIB-2', fr + '/kinds', 'not ingested: %s' % sorted(need - got), '', 'types of that kind are lost in this rendering'))
    # JSON skips exactly the built-in scalars
    sm = ctx.fn('codegen', JSON_MOD + '::scalars_mut')
    if sm is not None:
        txt = repr([n_ for n_ in walk(sm.body) if n_['k'] == 'path'])
        if 'DEFAULT_SCALARS' in txt and any(n_['k'] == 'unary' and n_['op'] == '!' for n_ in walk(sm.body)):
            obs.append(ok('SIB-2', 'json/builtin-scalars', 'built-in scalars listed by introspection are skipped (pre-registered by Schema::new)', sm.loc))
        else:
            obs.append(bad('SIB-2', 'json/builtin-scalars', 'JSON scalar ingestion does not skip DEFAULT_SCALARS', sm.loc, 'built-in scalars get second ids: types differ from SDL'))
    # SIB-3: deprecation
    fd = ctx.fn('codegen', SDL_MOD + '::find_deprecation')
    if fd is None:
        obs.append(bad('SIB-3', 'sdl/floor', 'anchor-missing: find_deprecation not found'))
    else:
        lits = {n_['lit']['v'] for n_ in walk(fd.body) if n_['k'] == 'lit' and n_['lit']['lk'] == 'str'}
        if {'deprecated', 'reason'} <= lits:
            obs.append(ok('SIB-3', 'sdl/directive', 'reads @deprecated(reason:)', fd.loc))
        else:
            obs.append(bad('SIB-3', 'sdl/directive', 'directive/argument names are %s' % sorted(lits), fd.loc, 'deprecations in SDL are not seen'))
        t = ctx.pv.eval(fd, fd.body, H.sym_env(fd), 0)
        # the reason is the *content* of the string argument: taken out of `Value::String(s)`, not printed back as GraphQL
        # source (`value.to_string()` escapes quotes, backslashes, newlines) and not trimmed or otherwise rewritten
        printed = [n_ for n_ in walk(fd.body) if n_['k'] == 'mcall' and n_['method'] in ('to_string', 'trim_matches', 'trim', 'trim_start_matches', 'trim_end_matches', 'replace', 'strip_prefix', 'strip_suffix', 'to_lowercase', 'to_uppercase')
                   and not any(p_.get('k') == 'macro' for p_, r_, c_ in fd.ancestors(n_))]
        printed = [n_ for n_ in printed if 'Value' in (n_['recv'].get('ty', '') + n_['recv'].get('aty', '')) or n_['method'] != 'to_string']
        if printed:
            obs.append(bad('SIB-3', 'sdl/reason-verbatim', 'the deprecation reason goes through `%s`' % printed[0]['method'], printed[0].get('sp', fd.loc),
                           'reasons containing quotes, backslashes or line breaks reach #[deprecated(note = ..)] mangled (and differ from the JSON rendering)'))
        else:
            obs.append(ok('SIB-3', 'sdl/reason-verbatim', 'the reason is the content of the string argument, unchanged', fd.loc))
        # found directive without reason -> Some(None): the outer Option must not depend on the reason
        txt = P.show(t, 0, 8)
    full = 'graphql_client_codegen::schema::StoredField'
    cnt = {'sdl': 0, 'json': 0}
    for fn, node in prog.aggregates_norm.get(full, []):
        fr = front_of(fn)
        if fr is None:
            continue
        for f in node['fields']:
            if f['name'] != 'deprecation':
                continue
            cnt[fr] += 1
            inst = '%s/%s' % (fr, short(fn.path))
            t = ctx.pv.eval(fn, f['e'], H.sym_env(fn), 0)
            if fr == 'sdl':
                calls = [n_ for _f, n_ in H.deep_nodes(ctx, fn, f['e'], 1, None, True) if n_['k'] == 'call' and any(p.endswith('find_deprecation') for p in H.callee_paths(n_))]
                dfields = TM.fields_in(ctx.pv.eval(fn, calls[0]['args'][0], H.sym_env(fn), 0)) if calls else set()
                dirs = {x for x in dfields if x.endswith('.directives')}
                # the directives of the very field definition whose name/type are stored (not those of the enclosing
                # type / extension)
                nm = [x for x in node['fields'] if x['name'] == 'name']
                nfields = {x for x in TM.fields_in(ctx.pv.eval(fn, nm[0]['e'], H.sym_env(fn), 0)) if x.endswith('.name')} if nm else set()
                same_owner = bool(dirs) and {x.split('.')[0] for x in dirs} == {x.split('.')[0] for x in nfields}
                if calls and same_owner:
                    obs.append(ok('SIB-3', inst, 'deprecation = find_deprecation(field.directives)', node.get('sp', '')))
                elif calls and dirs:
                    obs.append(bad('SIB-3', inst, 'deprecation is read from %s, but the field stored is %s' % (sorted(dirs), sorted(nfields)), node.get('sp', ''),
                                   'a field gets the deprecation of its enclosing type/extension and loses its own'))
                else:
                    obs.append(bad('SIB-3', inst, 'deprecation is not read from the field\'s directives', node.get('sp', ''), 'deprecation lost for SDL schemas'))
            else:
                fields = TM.fields_in(t)
                # decide the term for each possible isDeprecated (null / true / false): Some(reason) exactly for true,
                # and the reason never decides (a null reason still means deprecated)
                cond_fields = set()
                for conds, leaf in P.leaves(t):
                    for c in conds:
                        if c[1] is not None:
                            cond_fields |= TM.fields_in(c[1])
                verdict = {}
                undec = None
                for label, val in (('null', Q.NONE), ('true', True), ('false', False)):
                    def atoms(x, val=val):
                        if x[0] == 'field' and x[3] == 'is_deprecated':
                            return val
                        return None
                    try:
                        leaf = Q.select_leaf(Q.QEval(ctx.pv, [], atoms), t)
                    except Q.Undecided as ex:
                        undec = str(ex)
                        break
                    is_none = leaf[0] in ('none', 'absent')
                    verdict[label] = 'None' if is_none else ('Some(reason)' if 'FullTypeFields.deprecation_reason' in TM.fields_in(leaf) and not TM.consts_in(leaf) else 'other')
                reason_decides = 'FullTypeFields.deprecation_reason' in cond_fields
                # `reason.map(Some)`-like plumbing: the Option of the *reason* becomes the outer Option (deprecated or not)
                for f_, n_ in H.deep_nodes(ctx, fn, f['e'], 2, None, True):
                    if n_['k'] in ('mcall', 'call'):
                        rcv = n_['recv'] if n_['k'] == 'mcall' else (n_['args'][0] if n_['args'] else None)
                        if rcv is None:
                            continue
                        rty = (rcv.get('ty', '') or '').replace('&mut ', '').replace('&', '').replace(' ', '')
                        oty = (n_.get('ty', '') or '').replace(' ', '')
                        if rty.count('Option<') == 1 and 'String' in rty and oty.count('Option<') == 2 and 'String' in oty and \
                                not (n_['k'] == 'call' and (n_.get('callee') or {}).get('path', '').endswith('Some')):
                            if 'FullTypeFields.deprecation_reason' in TM.fields_in(ctx.pv.eval(f_, rcv, H.sym_env(f_), 0)):
                                reason_decides = True
                if reason_decides:
                    obs.append(bad('SIB-3', inst, 'deprecation is not `isDeprecated == true => Some(reason)`: the reason decides whether the field is deprecated (reads %s)'
                                   % sorted(f_ for f_ in fields if 'eprecat' in f_), node.get('sp', ''), 'a field deprecated without a reason is not deprecated in the JSON rendering'))
                elif undec:
                    obs.append(undecided('SIB-3', inst, 'cannot evaluate the deprecation expression (%s): %s' % (undec, P.show(t, 0, 5)[:120]), node.get('sp', '')))
                elif verdict == {'null': 'None', 'true': 'Some(reason)', 'false': 'None'}:
                    obs.append(ok('SIB-3', inst, 'isDeprecated == true -> Some(deprecationReason) (reason may be null); null/false -> None', node.get('sp', '')))
                else:
                    obs.append(bad('SIB-3', inst, 'deprecation is not `isDeprecated == true => Some(reason)`: isDeprecated null/true/false give %s' % verdict,
                                   node.get('sp', ''), 'deprecations differ between the JSON and the SDL rendering of a schema'))
    if cnt['sdl'] < 1 or cnt['json'] < 1:
        obs.append(bad('SIB-3', 'floor', 'anchor-missing: StoredField built at %d SDL / %d JSON sites (expected at least one in each front end)' % (cnt['sdl'], cnt['json'])))
    return obs


@rule('EXTENSIONS', 'ROOTS-AGREE', 'ID-ORDER', 'INGEST-ALL')
def rule_sdl_details(ctx):
    obs = []
    fn = ctx.fn('codegen', SDL_MOD + '::ingest_object_type_extension')
    if fn is None:
        obs.append(bad('EXTENSIONS', 'floor', 'anchor-missing: ingest_object_type_extension not found'))
    else:
        ext = {}
        for n in walk(fn.body):
            if n['k'] == 'mcall' and n['method'] in ('extend', 'push', 'append', 'extend_from_slice'):
                r = n['recv']
                while r.get('k') in ('ref', 'wrap'):
                    r = r['e']
                if r.get('k') == 'field' and r.get('adt', '').endswith('StoredObject'):
                    ext[r['name']] = n
        senv = H.sym_env(fn)
        FILT = ('filter', 'take', 'skip', 'retain', 'take_while', 'skip_while', 'step_by', 'filter_map', 'dedup')

        def sources_of(local_expr):
            """(fields referenced, filter methods) on the way a local collection is filled"""
            fields, filt = set(), set()
            while local_expr.get('k') in ('ref', 'wrap') and 'e' in local_expr:
                local_expr = local_expr['e']      # `append(&mut ids)`
            hid = local_expr['res'].get('hid') if local_expr.get('k') == 'path' and local_expr['res'].get('r') == 'local' else None
            exprs = [local_expr]
            if hid:
                for srcb in fn.binds.get(hid, []):
                    if srcb[0] == 'expr':
                        exprs.append(srcb[1])
                    if srcb[0] == 'mut':
                        exprs.append(srcb[2])
                        # the loop that performs the push
                        for parent, role, child in fn.ancestors(srcb[3]):
                            if parent.get('k') == 'for':
                                exprs.append(parent['iter'])
                            pcs = [pc for pc in P.path_conds(fn, srcb[3]) if pc[0] in ('if', 'match')]
                            if pcs:
                                filt.add('conditional-push')
            for e in exprs:
                fields |= TM.fields_in(ctx.pv.eval(fn, e, senv, 0))
                for m_ in walk(e):
                    if m_['k'] == 'mcall' and m_['method'] in FILT:
                        filt.add(m_['method'])
                    # a helper that builds the collection: what it is handed, and how it walks it
                    if m_['k'] in ('call', 'mcall') and ctx.pv.local_fns(m_.get('callee')):
                        for a_ in m_['args']:
                            fields |= TM.fields_in(ctx.pv.eval(fn, a_, senv, 0))
                        for _f, h_ in H.deep_nodes(ctx, fn, m_, 2):
                            if h_['k'] == 'mcall' and h_['method'] in FILT:
                                filt.add(h_['method'])
            return fields, filt
        for fname, src in (('fields', 'ObjectTypeExtension.fields'), ('implements_interfaces', 'ObjectTypeExtension.implements_interfaces')):
            inst = 'extend-type/' + fname
            if fname not in ext:
                obs.append(bad('EXTENSIONS', inst, '`extend type` does not add its %s to the object' % fname, fn.loc,
                               'SDL with type extensions generates different code than its introspection JSON'))
                continue
            n = ext[fname]
            fields, filt = sources_of(n['args'][0])
            if src not in fields:
                obs.append(bad('EXTENSIONS', inst, 'object.%s is extended from %s, not from the extension\'s %s' % (fname, sorted(fields)[:5], fname), n.get('sp', ''), 'extension members lost'))
            elif filt:
                obs.append(bad('EXTENSIONS', inst, 'extension %s are filtered (%s) before being added' % (fname, sorted(filt)), n.get('sp', ''), 'some extension members are lost'))
            else:
                obs.append(ok('EXTENSIONS', inst, 'all extension %s are added to the extended object' % fname, n.get('sp', '')))
    # INGEST-ALL: every definition of a kind is ingested — the stream handed to an `ingest_*` function is selected by
    # kind only (a `filter_map` whose closure is a pure pattern match), never by a predicate on the definition's content
    from .rules_c06 import _chain_methods
    POSITIONAL = {'take', 'skip', 'step_by', 'take_while', 'skip_while', 'dedup', 'dedup_by', 'dedup_by_key', 'nth', 'last', 'rev', 'find', 'find_map', 'max_by_key', 'min_by_key'}
    KIND_FIELDS = {'FullType.kind', 'FullType.name', 'FullTypeWrapper.full_type', 'SchemaTypes.full_type'}
    n_ing = 0
    for fr, mod in (('sdl', SDL_MOD), ('json', JSON_MOD)):
        cf = ctx.fn('codegen', mod + '::convert')
        if cf is None:
            continue
        for c_ in H.calls_in(cf):
            lfs = [f_ for f_ in ctx.pv.local_fns(c_.get('callee')) if short(f_.path).split('::')[-1].startswith('ingest_')]
            if not lfs:
                continue
            itn = H.iteration_of(cf, c_)
            if itn is None:
                continue
            n_ing += 1
            inst = '%s/%s' % (fr, short(lfs[0].path).split('::')[-1])
            narrowing = []
            meths = set()
            stack = [(cf, itn[1], 0)]
            while stack:
                f_, e_, dp = stack.pop()
                cur = e_
                while cur is not None:
                    if cur.get('k') == 'mcall':
                        m_ = cur['method']
                        meths.add(m_)
                        if m_ in POSITIONAL:
                            narrowing.append(m_)
                        elif m_ in ('filter', 'filter_map') and cur['args']:
                            # a selector may look at the kind of a definition only, never at its content
                            ct = ctx.pv.apply_closure(ctx.pv.eval(f_, cur['args'][0], H.sym_env(f_), 0), [('unknown', 'definition')], 0)
                            content = {x for x in TM.fields_in(ct) if x not in KIND_FIELDS}
                            if 'FullType.name' in TM.fields_in(ct) and not any(g_[0] == 'global' and g_[1].endswith('DEFAULT_SCALARS') for g_ in P.subterms(ct)):
                                content.add('FullType.name')
                            if content:
                                narrowing.append('%s on %s' % (m_, sorted(content)[:3]))
                        for lf in ctx.pv.local_fns(cur.get('callee')):
                            if dp < 2:
                                stack.append((lf, lf.body.get('expr') if lf.body.get('k') == 'block' else lf.body, dp + 1))
                        cur = cur['recv']
                    elif cur.get('k') in ('wrap', 'ref'):
                        cur = cur['e']
                    elif cur.get('k') == 'call':
                        for lf in ctx.pv.local_fns(cur.get('callee')):
                            if dp < 2:
                                stack.append((lf, lf.body.get('expr') if lf.body.get('k') == 'block' else lf.body, dp + 1))
                        cur = None
                    else:
                        cur = None
            if narrowing:
                obs.append(bad('INGEST-ALL', inst, 'the definitions handed to %s are narrowed by %s' % (short(lfs[0].path).split('::')[-1], narrowing), c_.get('sp', ''),
                               'some definitions of the schema are silently ignored: types/fields/implementors differ from the schema (and from its other rendering)'))
            else:
                obs.append(ok('INGEST-ALL', inst, 'every definition of the kind is ingested (stream selected by kind only: %s)' % sorted(meths), c_.get('sp', '')))
    if n_ing < 6:
        obs.append(bad('INGEST-ALL', 'floor', 'anchor-missing: only %d per-kind ingestion streams found in the two convert functions' % n_ing))
    # ROOTS-AGREE
    conv = ctx.fn('codegen', SDL_MOD + '::convert')
    jconv = ctx.fn('codegen', JSON_MOD + '::convert')
    if conv is None or jconv is None:
        obs.append(bad('ROOTS-AGREE', 'floor', 'anchor-missing: convert fns not found'))
    else:
        for root, dflt, sdl_field, json_field in (('query_type', 'Query', 'SchemaDefinition.query', 'Schema.query_type'),
                                                   ('mutation_type', 'Mutation', 'SchemaDefinition.mutation', 'Schema.mutation_type'),
                                                   ('subscription_type', 'Subscription', 'SchemaDefinition.subscription', 'Schema.subscription_type')):
            for fr, f, srcfield in (('sdl', conv, sdl_field), ('json', jconv, json_field)):
                assigns = [n for n in walk(f.body) if n['k'] == 'assign' and n['l'].get('k') == 'field' and n['l']['name'] == root]
                inst = '%s/%s' % (fr, root)
                if not assigns:
                    obs.append(bad('ROOTS-AGREE', inst, '%s is never set' % root, f.loc, 'operation kind unavailable in this rendering'))
                    continue
                good = True
                why = ''
                for a in assigns:
                    t = ctx.pv.eval(f, a['r'], H.sym_env(f), 0)
                    pcs = P.path_conds(f, a)
                    fields = {('I.' if s_[2].startswith('graphql_introspection_query') else '') + s_[2].split('::')[-1] + '.' + s_[3] for s_ in P.subterms(t) if s_[0] == 'field'}
                    consts = {c for c in TM.consts_in(t) if isinstance(c, str)}
                    explicit = (('I.' + srcfield) if fr == 'json' else srcfield) in fields
                    if fr == 'sdl':
                        pass        # decided below over all assignments, per scenario
                    else:
                        if not explicit or consts & {'Query', 'Mutation', 'Subscription'}:
                            good = False
                            why = 'root is taken from %s / constants %s' % (sorted(f_ for f_ in fields if f_.startswith('Schema.')), sorted(consts))
                    if 'Schema.names' not in fields:
                        good = False
                        why = why or 'root is not resolved through the names map'
                if fr == 'sdl' and good:
                    # which name is looked up in each situation?  (no schema block -> the conventional name; a schema block
                    # that declares the root -> the declared name; a schema block that omits it -> no root at all)
                    member = sdl_field.split('.')[-1]
                    verdicts = {}
                    for label, defs, mval, want in (('no schema block', 'NOSD', Q.NONE, dflt), ('declared in the schema block', 'SD', 'DECL', 'DECL'),
                                                     ('schema block omits it', 'SD', Q.NONE, None)):
                        keys = []

                        class RootQ(Q.QEval):
                            def pat_matches(self_, pat, v):
                                if pat[0] == 'ctor' and pat[1].endswith('Definition::SchemaDefinition'):
                                    return v == 'SD'
                                if pat[0] == 'ctor' and pat[1].endswith('TypeId::Object'):
                                    return isinstance(v, tuple) and v and v[0] == 'LOOKUP'
                                return Q.QEval.pat_matches(self_, pat, v)

                        def atoms(x, defs=defs, mval=mval, keys=keys):
                            if x[0] == 'field' and x[2].endswith('::Document') and x[3] == 'definitions':
                                return defs
                            if x[0] == 'cproj' and x[2].endswith('Definition::SchemaDefinition'):
                                return 'SDVAL' if defs == 'SD' else Q.NONE
                            if x[0] == 'field' and x[2].endswith('::SchemaDefinition'):
                                if x[1] == ('none',) or defs != 'SD':
                                    return Q.NONE
                                return mval if x[3] == member else 'OTHER-MEMBER'
                            if x[0] == 'sel' and x[1] == 'get' and x[2][0] == 'field' and x[2][3] == 'names':
                                kv = qe.ev(x[3])
                                if kv is Q.NONE:
                                    return Q.NONE
                                keys.append(kv)
                                return ('LOOKUP', kv)
                            return None
                        qe = RootQ(ctx.pv, [], atoms)
                        results = []
                        try:
                            for a in assigns:
                                t = ctx.pv.guarded_local(f, a, ctx.pv.eval(f, a['r'], H.sym_env(f), 0), H.sym_env(f), 0)
                                del keys[:]
                                leaf = Q.select_leaf(qe, t)
                                if leaf[0] == 'absent':
                                    continue
                                results.append(keys[-1] if (keys and leaf[0] not in ('none',)) else None)
                        except Q.Undecided as ex:
                            verdicts[label] = 'undecided (%s)' % ex
                            continue
                        got = results[-1] if results else '<never assigned>'
                        verdicts[label] = 'ok' if got == want else 'looks up %r, expected %r' % (got, want)
                    if any(v.startswith('undecided') for v in verdicts.values()):
                        obs.append(undecided('ROOTS-AGREE', inst, 'cannot evaluate the root selection: %s' % verdicts, assigns[0].get('sp', '')))
                        continue
                    wrong = {k: v for k, v in verdicts.items() if v != 'ok'}
                    if wrong:
                        good = False
                        why = '; '.join('%s: %s' % kv for kv in sorted(wrong.items()))
                if good:
                    obs.append(ok('ROOTS-AGREE', inst, 'explicit root when given%s, resolved through the names map' % ('; default name `%s` otherwise' % dflt if fr == 'sdl' else ''), assigns[0].get('sp', '')))
                else:
                    obs.append(bad('ROOTS-AGREE', inst, why, assigns[0].get('sp', ''), 'root operation types differ between SDL and JSON renderings'))
    # ID-ORDER: ids by position within kind in source order (enumerate over kind-filtered definitions)
    for fr, name in (('sdl', SDL_MOD + '::populate_names_map'), ('json', JSON_MOD + '::build_names_map')):
        f = ctx.fn('codegen', name)
        if f is None:
            obs.append(bad('ID-ORDER', fr + '/floor', 'anchor-missing: %s not found' % name))
            continue
        bad_chain = []
        n_ins = 0
        for n in walk(f.body):
            if n['k'] == 'mcall' and n['method'] == 'for_each':
                ch = set()
                cur = n['recv']
                while cur is not None and cur.get('k') == 'mcall':
                    ch.add(cur['method'])
                    cur = cur['recv']
                n_ins += 1
                if 'enumerate' not in ch or ch & {'rev', 'sorted', 'skip', 'step_by'}:
                    bad_chain.append(sorted(ch))
        if not bad_chain and n_ins < 4:
            # other spellings: `for (idx, x) in xs.iter().enumerate()`, possibly in a helper called once per kind
            fam_ = [(f, 1)]
            for c_ in H.calls_in(f):
                for lf_ in ctx.pv.local_fns(c_.get('callee')):
                    if not lf_.from_macro and norm_path(lf_.path).startswith(SDL_MOD if fr == 'sdl' else JSON_MOD) and lf_.key != f.key:
                        fam_.append((lf_, 1))
            mult = {}
            for lf_, _m in fam_[1:]:
                mult[lf_.key] = mult.get(lf_.key, 0) + 1
            n_enum = 0
            seen_ = set()
            for lf_, _m in fam_:
                if lf_.key in seen_:
                    continue
                seen_.add(lf_.key)
                for n in walk(lf_.body):
                    if n['k'] == 'mcall' and n['method'] == 'enumerate':
                        ch = set()
                        cur = n['recv']
                        while cur is not None and cur.get('k') in ('mcall', 'ref', 'wrap'):
                            if cur.get('k') == 'mcall':
                                ch.add(cur['method'])
                                cur = cur['recv']
                            else:
                                cur = cur['e']
                        if ch & {'rev', 'sorted', 'skip', 'step_by', 'take', 'filter', 'filter_map'} and lf_ is not f:
                            bad_chain.append(sorted(ch))
                        n_enum += mult.get(lf_.key, 1) if lf_ is not f else 1
            if not bad_chain and n_enum >= 4:
                obs.append(ok('ID-ORDER', fr + '/ids', 'ids = position within kind, in source order (%d enumerations, through a per-kind helper)' % n_enum, f.loc))
                continue
            if not bad_chain:
                obs.append(undecided('ID-ORDER', fr + '/ids', 'the way ids are numbered was not recognised (%d for_each chains, %d enumerations)' % (n_ins, n_enum), f.loc))
                continue
        if bad_chain or n_ins < 4:
            obs.append(bad('ID-ORDER', fr + '/ids', 'ids are not assigned by enumerate() over the kind-filtered definitions in source order (%s; %d loops)' % (bad_chain, n_ins), f.loc,
                           'item order of generated code differs between renderings'))
        else:
            obs.append(ok('ID-ORDER', fr + '/ids', 'ids = position within kind, in source order (%d kinds)' % n_ins, f.loc))
    return obs


@rule('JSON-SHAPES', 'EXT-DISPATCH')
def rule_json_shapes(ctx):
    obs = []
    c = ctx.crate('introspection')
    ir = c.ast_item('IntrospectionResponse', 'enum')
    if ir is None:
        obs.append(bad('JSON-SHAPES', 'floor', 'anchor-missing: IntrospectionResponse not found'))
    else:
        sa = {k for k in item_attrs(ir, 'serde') if k != '__present__'}
        if sa != {'untagged'}:
            obs.append(bad('JSON-SHAPES', 'IntrospectionResponse/untagged', 'attributes %s' % sorted(sa), ir['loc'], 'one of the two response shapes is rejected'))
        else:
            obs.append(ok('JSON-SHAPES', 'IntrospectionResponse/untagged', 'untagged over the two shapes', ir['loc']))
        vs = ir['variants']
        tys = [[f['ty'].replace(' ', '') for f in v['fields']] for v in vs]
        first = tys[0][0] if tys and tys[0] else ''
        if len(vs) == 2 and first.startswith('FullResponse<') and tys[1] == ['SchemaContainer']:
            obs.append(ok('JSON-SHAPES', 'IntrospectionResponse/order', 'the data-wrapped shape (required key `data`) is tried first', ir['loc']))
        else:
            obs.append(bad('JSON-SHAPES', 'IntrospectionResponse/order', 'variant payloads in order: %s' % tys, ir['loc'],
                           'the bare container (all-optional) swallows {"data":{..}} as an empty schema'))
        fr_ = c.ast_item('FullResponse', 'struct')
        if fr_ is not None:
            df = [f for f in fr_['fields'] if f['name'] == 'data']
            if not df or df[0]['ty'].replace(' ', '').startswith('Option<') or item_attrs(df[0], 'serde'):
                obs.append(bad('JSON-SHAPES', 'FullResponse/data', '`data` is optional/attributed', fr_['loc'], 'the wrapped variant matches bare schemas'))
            else:
                obs.append(ok('JSON-SHAPES', 'FullResponse/data', '`data` is required', fr_['loc']))
        sc = c.ast_item('SchemaContainer', 'struct')
        if sc is not None:
            f = [f for f in sc['fields'] if f['name'] == 'schema']
            if f and item_attrs(f[0], 'serde').get('rename') == '__schema':
                obs.append(ok('JSON-SHAPES', 'SchemaContainer/key', 'key __schema', sc['loc']))
            else:
                obs.append(bad('JSON-SHAPES', 'SchemaContainer/key', 'schema member is not keyed `__schema`', sc['loc'], 'introspection results are read as empty'))
    for it in c.ast_items:
        if it['kind'] in ('struct', 'enum'):
            a = item_attrs(it, 'serde')
            if 'deny_unknown_fields' in a:
                obs.append(bad('JSON-SHAPES', it['name'] + '/deny_unknown_fields', 'deny_unknown_fields', it['loc'], 'introspection results with extra members are rejected'))
            # (the wire key of every member is decided by INTRO-KEYS from the effective serde attributes)
    # EXT-DISPATCH
    fn = ctx.fn('codegen', 'graphql_client_codegen::get_set_schema_from_file')
    if fn is None:
        obs.append(bad('EXT-DISPATCH', 'floor', 'anchor-missing: get_set_schema_from_file not found'))
    else:
        ms = [n for n in walk(fn.body) if n['k'] == 'match' and any(P.pat_summary(a['pat'])[0] in ('lit', 'or') for a in n['arms'])]
        if not ms:
            obs.append(undecided('EXT-DISPATCH', 'schema-ext/shape', 'no match on the extension string', fn.loc))
        else:
            m = ms[0]
            table = {}
            for a in m['arms']:
                ps = P.pat_summary(a['pat'])
                lits = [ps[1]] if ps[0] == 'lit' else ([p[1] for p in ps[1] if p[0] == 'lit'] if ps[0] == 'or' else ['<other>'])
                body_paths = set()
                for n in walk(a['body']):
                    if n['k'] in ('call', 'mcall'):
                        body_paths |= H.callee_paths(n)
                    if n['k'] == 'path' and n['res'].get('r') == 'def':
                        body_paths.add(norm_path(n['res'].get('path', '')))
                kind = 'sdl' if any('parse_schema' in p for p in body_paths) else 'json' if any('serde_json::from_str' in p or 'serde_json::from_' in p for p in body_paths) else \
                    'reject' if P.diverges(a['body']) or returns_err(a['body']) else '?'
                for l in lits:
                    table[l] = kind
            want = {'graphql': 'sdl', 'graphqls': 'sdl', 'gql': 'sdl', 'json': 'json', '<other>': 'reject'}
            if table == want:
                obs.append(ok('EXT-DISPATCH', 'schema-ext/table', '.graphql/.graphqls/.gql -> SDL, .json -> JSON, other -> rejected', m.get('sp', '')))
            else:
                obs.append(bad('EXT-DISPATCH', 'schema-ext/table', 'extension table is %s' % table, m.get('sp', ''), 'a documented extension is rejected or read by the wrong front end'))
            # the scrutinee is the file's extension (not lowercased stem etc.)
            st = ctx.pv.eval(fn, m['scrut'], H.sym_env(fn), 0)
            xfs = {x for _, xs in TM.paths(st) for x in xs}
            if 'extension' in xfs and not (xfs - {'extension'}):
                obs.append(ok('EXT-DISPATCH', 'schema-ext/scrutinee', 'dispatch on Path::extension()', m.get('sp', '')))
            else:
                obs.append(bad('EXT-DISPATCH', 'schema-ext/scrutinee', 'dispatch string is derived by %s' % sorted(xfs), m.get('sp', ''), 'wrong front end chosen'))
    return obs


# ================================================================================================
# decision tables
# ================================================================================================

@rule('TYPES-3')
def rule_types3(ctx):
    """both qualifier extractors: list -> List, non-null -> Required, pushed outer-to-inner (before descending)"""
    obs = []
    extractor_fns = set()
    for fr, name, want in (('sdl', 'graphql_client_codegen::schema::resolve_field_type', {'ListType': 'List', 'NonNullType': 'Required'}),
                           ('json', JSON_MOD + '::from_json_type_inner', {'LIST': 'List', 'NON_NULL': 'Required'})):
        fn = ctx.fn('codegen', name)
        if fn is None:
            obs.append(bad('TYPES-3', fr + '/floor', 'anchor-missing: %s not found' % name))
            continue
        extractor_fns.add(fn.key)
        # the extractor and the schema-layer helpers it delegates to
        cgx = callgraph(ctx)
        family = [fn] + [f_ for f_ in (ctx.fn_by_key(k_) for k_ in sorted(cgx.reachable([fn.key])) if k_ != fn.key)
                         if f_ is not None and not f_.from_macro and norm_path(f_.path).startswith('graphql_client_codegen::schema')]
        table = {}
        terminal = False
        npush = 0
        first_push = None
        in_loop = False

        def keys_of(pat_repr):
            return {k for k in want if ('::' + k) in pat_repr}
        for f_ in family:
            for n_ in walk(f_.body):
                if not (n_['k'] == 'mcall' and n_['method'] in ('push', 'insert', 'push_front', 'extend') and
                        'GraphqlTypeQualifier' in (n_['recv'].get('ty', '') + n_['recv'].get('aty', '')) and 'Vec<' in (n_['recv'].get('ty', '') + n_['recv'].get('aty', ''))):
                    continue
                npush += 1
                first_push = first_push or n_
                pcs = P.path_conds(f_, n_)
                arm_keys = set()
                cond_push = False
                for pc in pcs:
                    if pc[0] == 'match':
                        arm_keys |= keys_of(repr(pc[2]))
                    elif pc[0] == 'if':
                        cond_push = True
                if any(p_.get('k') == 'loop' or p_.get('k') == 'for' for p_, r_, c_ in f_.ancestors(n_)):
                    in_loop = True
                else:
                    # appended in a helper that the walk calls once per wrapper
                    for g_ in family:
                        for c_ in cgx.sites.get((g_.key, f_.key), []):
                            if any(p_.get('k') in ('loop', 'for') for p_, r_, cc_ in g_.ancestors(c_)):
                                in_loop = True
                # the value pushed, with the conditions under which each alternative is pushed (call sites of a
                # helper contribute the arm they sit in)
                t = ctx.pv.eval(f_, n_['args'][-1], {}, 0)
                for conds, leaf in P.leaves(t):
                    ks = set(arm_keys)
                    for c in conds:
                        if c[0] == 'match':
                            ks |= keys_of(repr(c[2]))
                        elif c[0] == 'if':
                            pass
                    val = leaf[1].split('::')[-1] if leaf[0] == 'global' and 'GraphqlTypeQualifier::' in leaf[1] else '<computed>'
                    if leaf[0] == 'diverge':
                        continue
                    for k in (ks or {'<unkeyed>'}):
                        table.setdefault(k, set()).add(val)
                        if n_['method'] != 'push':
                            table[k].add('<not-appended>')
                        if cond_push:
                            table[k].add('<conditional>')
            # terminal: the named type ends the walk
            for m_ in f_.walk(lambda x: x['k'] == 'match'):
                for a in m_['arms']:
                    ps = repr(P.pat_summary(a['pat']))
                    if 'NamedType' in ps or (fr == 'json' and "('ctor', 'std::prelude::v1::None', ())" in ps and 'Some' in ps):
                        if any(x['k'] == 'ret' for x in walk(a['body'])):
                            terminal = True
        m = first_push or {}
        if npush == 0 or not in_loop:
            obs.append(undecided('TYPES-3', fr + '/shape', 'extractor does not append qualifiers in a loop (%d appends found)' % npush, fn.loc))
        else:
            good = all(table.get(k) == {v} for k, v in want.items()) and set(table) <= set(want)
            if good and terminal:
                obs.append(ok('TYPES-3', fr + '/table', 'list -> List, non-null -> Required, appended outer-to-inner; ends at the named type', m.get('sp', '')))
            else:
                obs.append(bad('TYPES-3', fr + '/table', 'qualifier table is %s (terminal on named type: %s)' % ({k: sorted(v) for k, v in table.items()}, terminal), m.get('sp', ''),
                               'list / non-null nesting is read wrongly from this schema format'))
        # name lookup
        if fr == 'sdl':
            lk = [n for n in walk(fn.body) if n['k'] in ('call', 'mcall') and any(p.endswith('Schema::find_type_id') for p in H.callee_paths(n))]
        else:
            lk = [n for n in walk(fn.body) if n['k'] == 'mcall' and n['method'] == 'get' and 'names' in repr(n['recv'])[:400]]
        if lk:
            obs.append(ok('TYPES-3', fr + '/named', 'named type resolved through the names map', lk[0].get('sp', '')))
        else:
            obs.append(bad('TYPES-3', fr + '/named', 'named type is not looked up in the names map', fn.loc, 'wrong type id'))
    # the walk over the wrappers is not cut short: no bounded / skipping adaptor anywhere in the extractors and what they call
    # (other workspace crates included); C13 quantifies over list depth 4 = up to 9 wrappers
    cgw = callgraph(ctx)
    fam_keys = set(extractor_fns)
    for k_ in extractor_fns:
        fam_keys |= cgw.reachable([k_])
    ncut = 0
    for k_ in sorted(fam_keys):
        wf = ctx.fn_by_key(k_)
        if wf is None or wf.from_macro or norm_path(wf.path).endswith('Schema::find_type_id'):
            continue
        if wf.d.get('output', '').strip() in ('usize', 'u32', 'u64', 'u8', 'u16', 'i32', 'i64', 'isize', 'bool'):
            continue        # a count (the capacity hint of the qualifier vector), not the qualifiers
        for n_ in walk(wf.body):
            if not (n_['k'] == 'mcall' and n_['method'] in ('take', 'skip', 'step_by', 'truncate', 'nth', 'split_off')):
                continue
            rt_ = n_['recv'].get('ty', '') + n_['recv'].get('aty', '')
            if 'HashMap' in rt_ or 'BTreeMap' in rt_ or 'Option<' in rt_.split('<')[0] + '<':
                if n_['method'] == 'take' and not n_.get('args'):
                    continue        # Option::take / mem-take
            ncut += 1
            bound = None
            a_ = (n_.get('args') or [None])[0]
            if isinstance(a_, dict) and a_.get('k') == 'lit' and isinstance((a_.get('lit') or {}).get('v'), int):
                bound = a_['lit']['v']
            elif isinstance(a_, dict):
                t_ = ctx.pv.eval(wf, a_, H.sym_env(wf), 0)
                if t_[0] == 'global':
                    cname = t_[1].rsplit('::', 1)[-1]
                    for dp_, dn_, fs_ in os.walk(REPO):
                        dn_[:] = [d_ for d_ in dn_ if d_ not in ('target', '.git', 'tests')]
                        for f_ in fs_:
                            if f_.endswith('.rs'):
                                mm_ = re.search(r'\b(?:const|static)\s+%s\s*:\s*\w+\s*=\s*(\d+)\s*;' % re.escape(cname), open(os.path.join(dp_, f_), errors='replace').read())
                                if mm_:
                                    bound = int(mm_.group(1))
            inst_ = 'walk/%s.%s' % (short(wf.path), n_['method'])
            if n_['method'] in ('take', 'truncate') and bound is not None and bound >= 9:
                obs.append(ok('TYPES-3', inst_, 'the wrapper walk is bounded by %d levels (>= the 9 wrappers of list depth 4)' % bound, n_.get('sp', wf.loc)))
            else:
                obs.append(bad('TYPES-3', inst_, 'the walk over the type wrappers is cut by .%s(%s)' % (n_['method'], bound if bound is not None else '..'), n_.get('sp', wf.loc),
                               'type expressions with more wrappers lose their inner list / non-null modifiers in this schema format only'))
    if not ncut:
        obs.append(ok('TYPES-3', 'walk/complete', 'no bounded or skipping adaptor on the wrapper walk (%d functions of the two extractors scanned)' % len(fam_keys), ''))
    # no other code of the schema layer edits a qualifier list (dedup / retain / remove / insert / reverse / assignment ...)
    cgr = callgraph(ctx)
    helpers = set()
    for k_ in extractor_fns:
        helpers |= cgr.reachable([k_])
    n_scanned = 0
    for sf in ctx.crate('codegen').all_fns():
        np_ = norm_path(sf.path)
        if sf.from_macro or not np_.startswith('graphql_client_codegen::schema'):
            continue
        n_scanned += 1
        edits = []
        for n_ in walk(sf.body):
            if n_['k'] == 'mcall':
                rt = n_['recv'].get('ty', '')
                at = n_['recv'].get('aty', '')
                if 'GraphqlTypeQualifier' in rt and 'Iter<' not in rt and 'Option<' not in rt and at.startswith('&mut'):
                    if n_['method'] == 'push' and sf.key in helpers:
                        continue
                    edits.append(n_['method'])
            elif n_['k'] == 'assign' and 'GraphqlTypeQualifier' in (n_['l'].get('ty', '')):
                edits.append('=')
        inst = 'edited/' + short(sf.path)
        if edits:
            obs.append(bad('TYPES-3', inst, 'a qualifier list is edited after extraction (%s)' % ', '.join(sorted(set(edits))), sf.loc,
                           'the stored list / non-null nesting differs from the schema\'s type expression for some nestings'))
    if n_scanned >= 10:
        obs.append(ok('TYPES-3', 'edited/none', 'no schema-layer function edits a qualifier list outside the two extractors (%d fns scanned)' % n_scanned, ''))
    else:
        obs.append(bad('TYPES-3', 'edited/floor', 'anchor-missing: only %d schema-layer functions found' % n_scanned))
    return obs


@rule('TYPES-4')
def rule_types4(ctx):
    """decorate_type as a two-state transducer over {List, Required}"""
    obs = []
    # the mapping fn = the fn owning the Option</Vec< templates (TYPES-1)
    fns = [fn for fn in ctx.crate('codegen').all_fns() if not fn.from_macro and
           any(n['k'] == 'macro' and n['name'].split('::')[-1] == 'quote' and re.search(r'\bVec\s*<', n['text']) for n in walk(fn.body))]
    if len(fns) != 1:
        return [undecided('TYPES-4', 'mapping/shape', 'expected one fn emitting Vec<..> templates, found %d' % len(fns))]
    fn = fns[0]
    inst = short(fn.path)
    fors = [n for n in walk(fn.body) if n['k'] == 'for']
    if len(fors) != 1:
        return [undecided('TYPES-4', inst + '/shape', 'mapping fn is not a single loop over the qualifiers', fn.loc)]
    loop = fors[0]
    chain = set()
    cur = loop['iter']
    while cur is not None and cur.get('k') == 'mcall':
        chain.add(cur['method'])
        cur = cur['recv']
    inner_to_outer = 'rev' in chain
    ms = [n for n in walk(loop['body']) if n['k'] == 'match']
    if not ms or ms[0]['scrut'].get('k') != 'tup':
        return [undecided('TYPES-4', inst + '/shape', 'loop body is not a match on (state, qualifier)', fn.loc)]
    m = ms[0]
    # which tuple component is the state (bool local) and which the qualifier
    comps = m['scrut']['es']
    state_idx = next((i for i, c in enumerate(comps) if c.get('ty') == 'bool'), None)
    if state_idx is None or len(comps) != 2:
        return [undecided('TYPES-4', inst + '/shape', 'scrutinee is not (bool, qualifier)', fn.loc)]
    q_idx = 1 - state_idx
    state_hid = comps[state_idx]['res'].get('hid') if comps[state_idx].get('k') == 'path' else None
    table = {}
    for a in m['arms']:
        ps = P.pat_summary(a['pat'])
        if ps[0] != 'tuple':
            continue
        sp, qp = ps[1][state_idx], ps[1][q_idx]
        states = [sp[1]] if sp[0] == 'lit' else [True, False]
        quals = [qp[1].split('::')[-1]] if qp[0] == 'ctor' else ['List', 'Required']
        eff = {'tmpl': None, 'state': None, 'diverges': P.diverges(a['body'])}
        for n in walk(a['body']):
            if n['k'] == 'assign' and n['l'].get('k') == 'path':
                if n['l']['res'].get('hid') == state_hid and n['r'].get('k') == 'lit':
                    eff['state'] = n['r']['lit']['v']
                elif n['r'].get('k') == 'macro':
                    eff['tmpl'] = re.sub(r'\s+', '', T.strip_macro(n['r']['text']))
        for s_ in states:
            for q_ in quals:
                table.setdefault((s_, q_), eff)
    # final wrap
    init_state = None
    for n in walk(fn.body):
        if n['k'] == 'let' and n['pat'].get('k') == 'bind' and n['pat'].get('hid') == state_hid and n.get('init') is not None and n['init'].get('k') == 'lit':
            init_state = n['init']['lit']['v']
    final = None
    for n in walk(fn.body):
        if n['k'] == 'if' and n is not loop:
            c = n['cond']
            neg = False
            while c.get('k') == 'unary' and c.get('op') == '!':
                neg = not neg
                c = c['e']
            if c.get('k') == 'path' and c['res'].get('hid') == state_hid:
                tm = [x for x in walk(n['then']) if x['k'] == 'macro']
                if tm:
                    final = (neg, re.sub(r'\s+', '', T.strip_macro(tm[0]['text'])))
    want = {
        (True, 'List'): ('Vec<#H>', False),
        (False, 'List'): ('Vec<Option<#H>>', None),
        (False, 'Required'): (None, True),
    }

    def norm(t):
        return re.sub(r'#\w+', '#H', t) if t else t
    problems = []
    for k, (wt, ws) in want.items():
        e = table.get(k)
        if e is None:
            problems.append('%s: no arm' % (k,))
            continue
        if norm(e['tmpl']) != wt:
            problems.append('%s: wraps as %s, expected %s' % (k, e['tmpl'], wt))
        st_after = e['state'] if e['state'] is not None else k[0]
        ws_eff = ws if ws is not None else k[0]
        if st_after != ws_eff:
            problems.append('%s: non-null state becomes %s, expected %s' % (k, st_after, ws_eff))
    e = table.get((True, 'Required'))
    if e is not None and not e['diverges'] and (e['tmpl'] or e['state'] is False):
        problems.append('(True, Required): double non-null is mapped to something')
    if init_state is not False:
        problems.append('initial state is %s, expected false (nullable)' % init_state)
    if final is None or final != (True, 'Option<#qualified>') and norm(final[1]) != 'Option<#H>' or (final and final[0] is not True):
        problems.append('final wrap is %s, expected `if !non_null { Option<..> }`' % (final,))
    if not inner_to_outer:
        problems.append('qualifiers are not traversed inner-to-outer (.rev())')
    if problems:
        obs.append(bad('TYPES-4', inst + '/transducer', '; '.join(problems), m.get('sp', ''),
                       'some GraphQL type expression maps to the wrong Option/Vec nesting (for every field, variable and input field)'))
    else:
        obs.append(ok('TYPES-4', inst + '/transducer', 'table over (non_null, qualifier) = specification: (T,List)->Vec<t>,F; (F,List)->Vec<Option<t>>,F; (F,Required)->t,T; '
                      'end: F->Option<t>; inner-to-outer — equal for type expressions of every depth', m.get('sp', '')))
    return obs



def _depr_table_by_terms(ctx):
    """the allow / warn / deny table read off the *grammar*: for each (deprecated?, strategy) cell, is a named response
    field emitted, and does it carry #[deprecated]?  Decided by evaluating the presence conditions of the field
    productions and of their `deprecated` attributes, whatever functions the generator is split into."""
    from .rules_gen import role_of, _string_of_ident

    class DQ(Q.QEval):
        def pat_matches(self, pat, v):
            if pat[0] == 'ctor' and '::DeprecationStrategy::' in pat[1]:
                return v == pat[1].split('::')[-1]
            if pat[0] == 'ctor' and pat[1].endswith('::Some') and v == 'SOME':
                return True
            return Q.QEval.pat_matches(self, pat, v)

    def relevant(t):
        fs = TM.fields_in(t)
        return any(x.endswith('.deprecation') or 'deprecation_strategy' in x for x in fs)

    res = {}
    nfields = 0
    for dep in ('None', 'Some'):
        for strat in ('Allow', 'Warn', 'Deny'):
            def atoms(t, dep=dep, strat=strat):
                if t[0] == 'tuple':
                    return None
                fs = TM.fields_in(t)
                if any('deprecation_strategy' in f for f in fs):
                    return strat
                if any(f.endswith('.deprecation') for f in fs):
                    return Q.NONE if dep == 'None' else 'SOME'
                return None
            qe = DQ(ctx.pv, [], atoms)

            def holds(conds):
                for c in conds:
                    if c[1] is None or c[1][0] == 'abs' or not relevant(c[1]):
                        continue
                    if c[0] == 'match':
                        if not qe.pat_matches(c[2], qe.ev(c[1])):
                            return False
                    elif c[0] == 'if':
                        if qe.ev(c[1]) is not c[2]:
                            return False
                return True
            # every production of a named response field that can be taken in this cell has to agree
            outcomes = set()
            for it in ctx.all_items():
                if it.kind != 'struct':
                    continue
                for f in it.fields:
                    if f.name['t'] != 'leaf' or role_of({o for o, _ in TM.paths(_string_of_ident(f.name))}) != 'response-field':
                        continue
                    nfields += 1
                    if holds(f.conds):
                        outcomes.add('attr' if any(a.path == 'deprecated' and holds(a.rel(f.conds)) for a in f.attrs) else 'none')
            res[(dep, strat)] = 'omit' if not outcomes else (next(iter(outcomes)) if len(outcomes) == 1 else 'mixed: some productions carry #[deprecated], some do not')
    return res, nfields

@rule('DEPR-TABLE')
def rule_depr_table(ctx):
    obs = []
    # primary: the table read off the grammar by evaluating presence conditions (independent of how the generator is
    # split into functions); the shape-based reading below is only the fallback when a condition cannot be evaluated
    want_t = {('None', 'Allow'): 'none', ('None', 'Warn'): 'none', ('None', 'Deny'): 'none', ('Some', 'Allow'): 'none',
              ('Some', 'Warn'): 'attr', ('Some', 'Deny'): 'omit'}
    try:
        tt, nf_ = _depr_table_by_terms(ctx)
    except Q.Undecided:
        tt, nf_ = None, 0
    term_diffs = None
    if tt is not None and nf_ > 0:
        term_diffs = ['%s/%s: %s (expected %s)' % (k[0], k[1], tt.get(k), v) for k, v in want_t.items() if tt.get(k) != v]
        if not term_diffs:
            return [ok('DEPR-TABLE', 'response-fields/table', 'evaluated on the grammar: not deprecated or allow -> plain field; deprecated+warn -> #[deprecated]; deprecated+deny -> field omitted (2x3 cells)', '')]
    # the grammar evaluation disagrees or is undecidable (e.g. `Some(None)` vs `None` of an Option<Option<_>> helper are not
    # distinguished by the term language): read the table from the shape of the code; a violation needs both to disagree
    shape_obs = _depr_table_by_shape(ctx)
    if shape_obs and all(o.status == 'ok' for o in shape_obs):
        return shape_obs
    if term_diffs and any(o.status == 'violated' for o in shape_obs):
        return [bad('DEPR-TABLE', 'response-fields/table', '; '.join(term_diffs), '', 'a strategy does something else than documented (or touches non-deprecated fields)')]
    if term_diffs:
        return [undecided('DEPR-TABLE', 'response-fields/table', 'the grammar reading gives %s but the code shape is not the recognised (deprecation, strategy) match: not decided' % '; '.join(term_diffs), '')]
    return shape_obs


def _depr_table_by_shape(ctx):
    obs = []
    fns = [fn for fn in ctx.crate('codegen').all_fns() if not fn.from_macro and
           any(n['k'] == 'macro' and 'deprecated' in n['text'] and n['name'].split('::')[-1] == 'quote' for n in walk(fn.body))]
    if not fns:
        return [bad('DEPR-TABLE', 'floor', 'anchor-missing: no template emits #[deprecated]')]
    fn = fns[0]
    inst = short(fn.path)
    ms = [n for n in walk(fn.body) if n['k'] == 'match' and n['scrut'].get('k') == 'tup' and any('DeprecationStrategy' in c.get('ty', '') for c in n['scrut']['es'])]
    if not ms:
        return [undecided('DEPR-TABLE', inst + '/shape', 'no match on (deprecation, strategy)', fn.loc)]
    m = ms[0]
    comps = m['scrut']['es']
    s_idx = next(i for i, c in enumerate(comps) if 'DeprecationStrategy' in c.get('ty', ''))
    d_idx = 1 - s_idx
    # scrutinee origins
    dt = ctx.pv.eval(fn, comps[d_idx], H.sym_env(fn), 0)
    stt = ctx.pv.eval(fn, comps[s_idx], H.sym_env(fn), 0)
    if 'GraphQLClientCodegenOptions.deprecation_strategy' not in TM.fields_in(stt):
        # a helper that is handed the strategy: look at what its callers pass
        stt = ctx.pv.eval(fn, comps[s_idx], {}, 0)
    # "omit the field": `return None` from the rendering fn, or the outer None of an Option<Option<..>> helper whose call
    # site propagates it with `?`
    helper_omit = False
    if fn.d.get('output', '').replace(' ', '').startswith('std::option::Option<std::option::Option<'):
        sites = ctx.pv.call_sites(fn)
        helper_omit = bool(sites) and all(H.consumption(cf_, cn_)[0] == 'propagated' for cf_, cn_ in sites)
    if 'GraphQLClientCodegenOptions.deprecation_strategy' not in TM.fields_in(stt):
        obs.append(bad('DEPR-TABLE', inst + '/strategy-origin', 'strategy is not options.deprecation_strategy()', m.get('sp', ''), 'configured strategy ignored'))
    table = {}
    for dep in ('None', 'Some'):
        for strat in ('Allow', 'Warn', 'Deny'):
            for a in m['arms']:
                ps = P.pat_summary(a['pat'])
                if ps[0] not in ('tuple', 'or'):
                    continue

                def covers(p, v):
                    if p[0] in ('wild', 'bind'):
                        return True
                    if p[0] == 'or':
                        return any(covers(x, v) for x in p[1])
                    if p[0] == 'ctor':
                        return p[1].split('::')[-1] == v
                    return False
                pats = [ps] if ps[0] == 'tuple' else []
                hit = False
                full = P.pat_summary(a['pat'])
                alts = full[1] if full[0] == 'or' else [full]
                for alt in alts:
                    if alt[0] == 'tuple' and covers(alt[1][d_idx], dep) and covers(alt[1][s_idx], strat):
                        hit = True
                if not hit:
                    continue
                body = a['body']
                eff = 'none'
                rets = [n for n in walk(body) if n['k'] == 'ret']
                bv = body
                while bv.get('k') in ('wrap', 'block') and not bv.get('stmts'):
                    bv = bv.get('e') or bv.get('expr') or {}
                outer_none = bv.get('k') == 'path' and bv.get('res', {}).get('path', '').endswith('::None')
                if rets or (helper_omit and outer_none):
                    eff = 'omit'
                elif any(n['k'] == 'macro' and 'deprecated' in n['text'] for n in walk(body)):
                    note = any(n['k'] == 'macro' and 'note' in n['text'] for n in walk(body))
                    eff = 'attr+note?' if note else 'attr'
                table[(dep, strat)] = eff
                break
    # or-patterns at arm top level
    if len(table) < 6:
        for a in m['arms']:
            full = P.pat_summary(a['pat'])
    want = {('None', 'Allow'): 'none', ('None', 'Warn'): 'none', ('None', 'Deny'): 'none', ('Some', 'Allow'): 'none',
            ('Some', 'Warn'): 'attr+note?', ('Some', 'Deny'): 'omit'}
    diffs = ['%s/%s: %s (expected %s)' % (k[0], k[1], table.get(k), v) for k, v in want.items() if table.get(k) != v]
    # the table only decides the field if no rendered field leaves the function before the match is evaluated
    def _posn(n_):
        mm = re.search(r':(\d+):(\d+)', n_.get('sp', ''))
        return (int(mm.group(1)), int(mm.group(2))) if mm else (0, 0)
    bypass = []
    for r_ in walk(fn.body):
        if r_['k'] == 'ret' and _posn(r_) < _posn(m) and not any(p_ is m for p_, _r, _c in fn.ancestors(r_)):
            v_ = r_.get('e') or {}
            while v_.get('k') in ('wrap',):
                v_ = v_['e']
            is_none = v_.get('k') == 'path' and v_.get('res', {}).get('path', '').endswith('::None')
            if not is_none:
                bypass.append(r_)
    if bypass:
        diffs.append('a rendered field is returned before the (deprecation, strategy) match is evaluated')
    if diffs:
        obs.append(bad('DEPR-TABLE', inst + '/table', '; '.join(diffs), (bypass[0] if bypass else m).get('sp', ''), 'a strategy does something else than documented (or touches non-deprecated fields)'))
    else:
        obs.append(ok('DEPR-TABLE', inst + '/table', 'None/* and Some/Allow -> no attribute; Some/Warn -> #[deprecated(note?)]; Some/Deny -> field omitted (total over 2x3)', m.get('sp', '')))
    # note only when the schema gives a reason: `msg.map(|m| quote!((note = #m)))`
    return obs


# ================================================================================================
# KW-TABLE, IDENT-2
# ================================================================================================

@rule('KW-TABLE')
def rule_kw_table(ctx):
    obs = []
    cg = ctx.crate('codegen')
    # escape fns recognised by what they compute
    esc = []
    for fn in cg.all_fns():
        if fn.from_macro or fn.dk not in ('Fn', 'AssocFn'):
            continue
        if len(fn.params) == 1 and ctx.pv.is_escape_fn(fn, 0):
            esc.append(fn)
    if not esc:
        return [bad('KW-TABLE', 'floor', 'anchor-missing: no identifier-escaping fn (x -> x | table-entry + constant affix) found')]
    oracle = set()
    for ed in ('2015', '2018', '2021'):
        oracle |= set(cg.kw.get(ed, []))
    oracle.discard('_')   # `_` alone: handled below
    for fn in esc:
        inst = short(fn.path)
        res = ctx.pv.escape_fns.get(fn.key)
        tables = {s[1] for s in P.subterms(res) if s[0] == 'global'}
        entries = None
        tpath = None
        for tp in tables:
            for cf in cg.fns.get(tp, []) or [f for f in cg.all_fns() if norm_path(f.path) == tp]:
                lits = [n for n in walk(cf.body) if n['k'] == 'lit' and n['lit']['lk'] == 'str']
                lits.sort(key=lambda n: tuple(int(x) for x in n['id'].split('.')))
                vals = [n['lit']['v'] for n in lits]
                if len(vals) > 5:
                    entries = vals
                    tpath = tp
        if entries is None:
            obs.append(bad('KW-TABLE', inst + '/table', 'keyword table not found / not a literal array', fn.loc, 'cannot establish which names are escaped'))
            continue
        missing = sorted(oracle - set(entries))
        if missing:
            obs.append(bad('KW-TABLE', inst + '/complete', 'reserved words (rustc editions 2015-2021) missing from %s: %s' % (tpath.split('::')[-1], missing), fn.loc,
                           'a GraphQL name equal to one of them yields a non-compiling identifier'))
        else:
            obs.append(ok('KW-TABLE', inst + '/complete', '%d entries cover all %d words rustc reserves in editions 2015-2021' % (len(entries), len(oracle)), fn.loc))
        uses_bsearch = any(n['k'] == 'mcall' and n['method'].startswith('binary_search') for n in walk(fn.body))
        if uses_bsearch:
            unsorted = [(a, b) for a, b in zip(entries, entries[1:]) if not (a.encode() < b.encode())]
            if unsorted:
                obs.append(bad('KW-TABLE', inst + '/sorted', 'table is searched with binary_search but is not strictly ascending (bytewise) at %s' % unsorted[:3], fn.loc,
                               'some keywords are not found, hence not escaped'))
            else:
                obs.append(ok('KW-TABLE', inst + '/sorted', 'strictly ascending in byte order (precondition of binary_search)', fn.loc))
        else:
            obs.append(ok('KW-TABLE', inst + '/sorted', 'table is not binary-searched', fn.loc))
        # suffix: entry + suffix must not be reserved and must be an identifier
        consts = {s[1] for s in P.subterms(res) if s[0] == 'const' and isinstance(s[1], str)}
        affixes = [c for c in consts if c and c not in entries]
        if len(affixes) != 1 or not re.match(r'^[_A-Za-z0-9]+$', affixes[0]):
            obs.append(bad('KW-TABLE', inst + '/affix', 'escape affix is %s' % affixes, fn.loc, 'escaped identifier is not a legal identifier'))
        else:
            bad_e = [e + affixes[0] for e in entries if (e + affixes[0]) in oracle]
            if bad_e:
                obs.append(bad('KW-TABLE', inst + '/affix', 'escaped forms are themselves reserved: %s' % bad_e, fn.loc, 'still a keyword after escaping'))
            else:
                obs.append(ok('KW-TABLE', inst + '/affix', 'escape appends `%s`; no escaped form is reserved' % affixes[0], fn.loc))
    return obs


@rule('IDENT-2')
def rule_ident2(ctx):
    """identifiers naming the same thing are built the same way where they are defined and where they are used"""
    obs = []
    items, ip, trees, roots = ctx.grammar()
    # collect identifier leaves by origin
    by_origin = {}
    def rec(seq):
        for el in seq:
            if el['t'] == 'leaf' and el['kind'] == 'ident' and el['term'][0] == 'ident':
                S = el['term'][1]
                for o, x in TM.paths(S):
                    if o[0] == 'field':
                        by_origin.setdefault(o[1], {}).setdefault(x, []).append(el)
            elif el['t'] in ('group', 'rep'):
                rec(el['seq'])
            elif el['t'] == 'choice':
                for _, a in el['alts']:
                    rec(a)
    for t in trees:
        rec(t)
    # value-literal templates (default values) are not reached from the module grammar through holes typed TokenStream? they are: via #value
    watched = {'StoredInputType.fields': 'input-object field name', 'StoredEnum.variants': 'enum value'}
    for origin, what in watched.items():
        chains = by_origin.get(origin, {})
        if not chains:
            obs.append(bad('IDENT-2', 'floor/' + origin, 'anchor-missing: no identifier made from %s' % origin))
            continue
        # per site: the set of transform chains (alternatives under options) it can apply
        per_site = {}
        for x, els in chains.items():
            for el in els:
                role = 'variant' if (x and x[0] == 'camel') or origin == 'StoredEnum.variants' else 'field'
                per_site.setdefault(role, {}).setdefault(short(ctx.site_fn(el['site']).path), set()).add(x)
        for role, sites in per_site.items():
            inst = '%s/%s' % (origin, role)
            sets = {frozenset(v) for v in sites.values()}
            if len(sets) == 1:
                obs.append(ok('IDENT-2', inst, 'every identifier made from %s (%s position) is built the same way %s at %s' %
                              (origin, role, sorted('→'.join(x) or 'raw' for x in next(iter(sets))), sorted(sites)), ''))
            else:
                desc = '; '.join('%s: %s' % (k, sorted('→'.join(x) or 'raw' for x in v)) for k, v in sorted(sites.items()))
                anyel = next(iter(chains.values()))[0]
                obs.append(bad('IDENT-2', inst, 'the same %s is turned into an identifier in different ways: %s' % (what, desc), ctx.site_loc(anyel['site']),
                               'definition and use disagree for names where the transforms differ: the generated module does not compile'))
    return obs


@rule('ENUM-VALUES')
def rule_enum_values(ctx):
    """every value the schema lists for an enum is stored, in order: the value list is built by an un-narrowed walk over
    the schema's values and never edited afterwards (no retain / dedup / remove / truncate / sort on StoredEnum.variants)"""
    obs = []
    NARROW = {'filter', 'filter_map', 'take', 'skip', 'step_by', 'take_while', 'skip_while', 'dedup', 'dedup_by', 'dedup_by_key', 'nth', 'last', 'rev', 'find'}
    per = {'sdl': 0, 'json': 0}
    for fn, node in ctx.prog.aggregates_norm.get('graphql_client_codegen::schema::StoredEnum', []):
        fr = front_of(fn)
        if fr is None:
            continue
        for f in node['fields']:
            if f['name'] != 'variants':
                continue
            per[fr] += 1
            inst = '%s/%s' % (fr, short(fn.path))
            meths = set()
            for n_ in H.walk_through_locals(fn, f['e']):
                if n_['k'] == 'mcall':
                    # iterator / collection adaptors only (`Option::take`, `mem::take` of a name are not narrowing)
                    if any(('Iterator::' in p_ or 'iter::' in p_ or 'vec::Vec' in p_ or 'slice::' in p_) for p_ in H.callee_paths(n_)):
                        meths.add(n_['method'])
            t = ctx.pv.eval(fn, f['e'], H.sym_env(fn), 0)
            src = {x for x in TM.fields_in(t) if 'values' in x.lower() or 'enum_values' in x.lower()}
            narrowing = sorted(meths & NARROW)
            if narrowing:
                obs.append(bad('ENUM-VALUES', inst, 'the value list is narrowed by %s while it is read' % narrowing, node.get('sp', ''),
                               'a schema value without a variant deserializes to Other(..) instead of its own variant'))
            elif not src:
                obs.append(undecided('ENUM-VALUES', inst, 'source of the value list not recognised (%s)' % sorted(TM.fields_in(t))[:4], node.get('sp', '')))
            else:
                obs.append(ok('ENUM-VALUES', inst, 'all values of %s, in order' % sorted(src), node.get('sp', '')))
    for fr, c in per.items():
        if c < 1:
            obs.append(bad('ENUM-VALUES', fr + '/floor', 'anchor-missing: the %s front end builds no StoredEnum' % fr))
    edits = []
    for sf in ctx.crate('codegen').all_fns():
        if sf.from_macro or not norm_path(sf.path).startswith('graphql_client_codegen::schema'):
            continue
        for n_ in walk(sf.body):
            if n_['k'] == 'mcall' and n_['recv'].get('aty', '').startswith('&mut'):
                r = n_['recv']
                while r.get('k') in ('ref', 'wrap', 'unary'):
                    r = r.get('e')
                if r.get('k') == 'field' and r['name'] == 'variants' and r.get('adt', '').endswith('StoredEnum'):
                    edits.append((sf, n_))
            elif n_['k'] == 'assign' and n_['l'].get('k') == 'field' and n_['l']['name'] == 'variants' and n_['l'].get('adt', '').endswith('StoredEnum'):
                edits.append((sf, {'method': '=', 'sp': n_.get('sp', '')}))
    if edits:
        for sf, n_ in edits:
            obs.append(bad('ENUM-VALUES', 'edited/' + short(sf.path), 'the stored value list of an enum is edited (%s) after it was read from the schema' % n_['method'], n_.get('sp', ''),
                           'values are dropped or reordered: they no longer map to their own variant'))
    else:
        obs.append(ok('ENUM-VALUES', 'edited/none', 'no schema-layer function edits StoredEnum.variants', ''))
    return obs
