"""Rules over the generated-module grammar (E3 + E4): WIRE, IDENT-1, SERDE-CRATE, SERDE-PATH,
ATTR-PRECISION, OPT, SKIP-NONE, OTHER-GUARD, ONEOF-SHAPE, ENUM-*, BODY-IMPL, SEL-FLATTEN, ID-*,
DEPR-*, TYPES-1/5, BOX-*."""
import re

from . import prov as P
from . import terms as TM
from . import tmpl as T
from . import qeval as Q
from .core import Ob, ok, bad, undecided, short

OPT = 'GraphQLClientCodegenOptions.'
NEUTRAL_OPTIONS = {OPT + x for x in ('normalization', 'response_derives', 'variables_derives', 'module_visibility',
                                      'custom_scalars_module', 'serde_path', 'extern_enums', 'struct_ident',
                                      'struct_name')}
WIRE_OPTIONS = {OPT + x for x in ('skip_serializing_none', 'fragments_other_variant', 'deprecation_strategy', 'mode',
                                   'operation_name', 'query_file', 'schema_file')}

ROLE_ORIGINS = {
    'response-field': {'SelectedField.alias', 'StoredField.name'},
    'variable': {'ResolvedVariable.name'},
    'input-field': {'StoredInputType.fields'},
    'enum-value': {'StoredEnum.variants'},
    'spread-field': {'ResolvedFragment.name'},
}
TYPE_NAME_ORIGINS = {'StoredObject.name', 'StoredInterface.name', 'StoredUnion.name', 'StoredScalar.name',
                     'StoredEnum.name', 'StoredInputType.name'}

SERDE_WHITELIST = {'rename', 'flatten', 'crate', 'tag', 'deserialize_with', 'skip_serializing_if', 'default', 'other'}


def site_short(ctx, sitekey):
    if not sitekey:
        return '?'
    return short(ctx.site_fn(sitekey).path)


def role_of(origins):
    fields = {o[1] for o in origins if o[0] == 'field'}
    for role, allowed in ROLE_ORIGINS.items():
        if fields and fields <= allowed:
            return role
    if fields and fields <= TYPE_NAME_ORIGINS:
        return 'type-name'
    return None


def origin_sig(term):
    fs = sorted({o[1] for o, _ in TM.paths(term) if o[0] == 'field'})
    cs = sorted({str(o[1]) for o, _ in TM.paths(term) if o[0] == 'const'})
    if fs:
        return '+'.join(fs[:3])
    if cs:
        return 'const:' + '+'.join(cs[:2])
    return 'other'


def name_sig(el):
    if el is None:
        return '?'
    if el['t'] == 'tok':
        return el['s']
    if el['t'] == 'leaf':
        return '<' + origin_sig(el['term']) + '>'
    return '?'


def attr_value_term(val):
    """the term / literal string of an attribute value element"""
    if val is None:
        return None
    if val['t'] == 'tok' and val['kind'] == 'lit':
        return ('const', T.lit_value(val['s']))
    if val['t'] == 'leaf':
        return val['term']
    if val['t'] == 'choice':
        # a hole whose value is chosen under conditions (e.g. what is left of `opt?`): the join of the alternatives
        alts = []
        for c_, seq_ in val['alts']:
            if not seq_:
                continue
            if len(seq_) != 1:
                return ('unknown', 'attr-value')
            t_ = attr_value_term(seq_[0])
            if t_ is None or t_[0] == 'unknown':
                return ('unknown', 'attr-value')
            alts.append(t_)
        if alts:
            return P.join(alts)
    return ('unknown', 'attr-value')


def serde_attrs(attrs, owner_conds=None):
    """[(key, value element, Attr)] for all serde(...) attributes; Attr.rconds = conditions relative to owner"""
    out = []
    for a in attrs:
        a.rconds = a.rel(owner_conds) if owner_conds is not None else a.conds
        if a.path == 'serde':
            for k, v in a.kv():
                out.append((k, v, a))
    return out


def derive_may_include(item, names):
    """does some derive(..) attribute of the item possibly list one of `names`?"""
    for a in item.attrs:
        if a.path != 'derive':
            continue
        stack = list(a.args)
        while stack:
            el = stack.pop()
            if el['t'] == 'tok' and el['s'] in names:
                return True
            if el['t'] == 'leaf':
                cs = TM.consts_in(el['term'])
                if cs & set(names):
                    return True
                if any(o[0] in ('param', 'other') for o, _ in TM.paths(el['term'])):
                    return True
            if el['t'] in ('group', 'rep'):
                stack.extend(el['seq'])
            if el['t'] == 'choice':
                for _, alt in el['alts']:
                    stack.extend(alt)
    return False


def conds_text(conds):
    out = []
    for c in conds:
        if c[0] == 'if':
            out.append(('' if c[2] else 'not ') + P.show(c[1], 1, 4))
        elif c[0] == 'match':
            out.append('%s is %s' % (P.show(c[1], 1, 3), P.show_pat(c[2])))
    return ' && '.join(out)


class Dedup:
    def __init__(self):
        self.obs = {}

    def add(self, ob):
        cur = self.obs.get(ob.key)
        rank = {'violated': 2, 'undecided': 1, 'ok': 0}
        if cur is None or rank[ob.status] > rank[cur.status]:
            self.obs[ob.key] = ob

    def list(self):
        return list(self.obs.values())


# ------------------------------------------------------------------------------------------------
# grammar sanity (fail closed)
# ------------------------------------------------------------------------------------------------

def rule_grammar(ctx):
    items, ip, trees, roots = ctx.grammar()
    obs = []
    if not roots:
        return [bad('GRAMMAR', 'root', 'no template reaches the return value of generate_module_token_stream_inner',
                    breaks='nothing can be said about the emitted code')]
    if ctx.ex.errors:
        for sk, msg in ctx.ex.errors:
            obs.append(bad('GRAMMAR', 'template/' + site_short(ctx, sk), 'template not tokenisable: ' + msg, ctx.site_loc(sk)))
    if ip.unparsed:
        for kind, el, conds in ip.unparsed[:10]:
            seq = el if isinstance(el, list) else [el]
            site = next((x.get('site') for x in seq if isinstance(x, dict) and x.get('site')), None)
            obs.append(bad('GRAMMAR', 'unparsed-%s/%s' % (kind, site_short(ctx, site)),
                           'emitted tokens not recognised as Rust %s: %s' % (kind, T.render(seq)[:160]),
                           ctx.site_loc(site) if site else ''))
    kinds = {}
    for it in ctx.all_items():
        kinds[it.kind] = kinds.get(it.kind, 0) + 1
    need = {'struct': 3, 'enum': 3, 'mod': 1, 'impl': 3, 'type': 5, 'const': 2, 'use': 2}
    for k, n in need.items():
        if kinds.get(k, 0) < n:
            obs.append(bad('GRAMMAR', 'floor/' + k, 'expected at least %d `%s` productions in the module grammar, found %d'
                           % (n, k, kinds.get(k, 0))))
    if not obs:
        obs.append(ok('GRAMMAR', 'module', 'module grammar recovered: %s; %d template sites expanded' %
                      (', '.join('%s×%d' % kv for kv in sorted(kinds.items())), len(ctx.ex.expanded_sites))))
    return obs


# ------------------------------------------------------------------------------------------------
# WIRE / IDENT-1 on fields and serde-derived variants
# ------------------------------------------------------------------------------------------------

def _string_of_ident(el):
    """string term behind an identifier element"""
    if el['t'] == 'tok':
        return ('const', el['s'])
    t = el['term']
    if t[0] == 'ident':
        return t[1]
    return t


def _wire_check(ctx, dd, what, owner_sig, name_el, attrs, conds, site, roles_found, kw_required=True):
    """WIRE-1/2 + IDENT-1 for one named position (struct field or serde-derived variant)"""
    fnshort = site_short(ctx, site)
    loc = ctx.site_loc(site) if site else ''
    S = _string_of_ident(name_el)
    sattrs = serde_attrs(attrs, conds)
    flatten = [a for k, v, a in sattrs if k == 'flatten']
    renames = [(v, a) for k, v, a in sattrs if k == 'rename']
    s_paths = list(TM.paths(S))
    s_origins = {o for o, _ in s_paths}
    role = role_of(s_origins)
    inst = '%s/%s[%s]' % (fnshort, what, origin_sig(S))
    if flatten and all(not a.rconds for a in flatten):
        # a spread / `on` field: nothing of it is on the wire; it must not carry a rename
        if renames and any(not a.conds or True for _, a in renames):
            live = [a for _, a in renames if _attr_live(a)]
            if live:
                dd.add(bad('WIRE-2', inst, 'flattened field also carries serde(rename)', loc,
                           'a flattened fragment has no key of its own'))
        roles_found.add('spread-field' if role == 'spread-field' else 'on-field')
        # IDENT-1 still applies to spread fields (they are Rust identifiers made from fragment names)
        if name_el['t'] == 'leaf':
            for o, x in s_paths:
                if o[0] == 'field' and (not x or x[-1] != 'kw'):
                    dd.add(bad('IDENT-1', inst, 'identifier made from %s by %s is not keyword-escaped last'
                               % (o[1], '→'.join(x) or 'nothing'), loc,
                               'a fragment named like a Rust keyword yields `pub type: ...` (does not compile)'))
                    break
            else:
                dd.add(ok('IDENT-1', inst, 'spread field identifier = %s' % P.show(S, 1, 4)[:120], loc))
        return
    if name_el['t'] == 'tok':
        dd.add(ok('WIRE-1', inst, 'fixed identifier `%s`' % name_el['s'], loc))
        return
    if role is None:
        if s_origins and all(o[0] == 'const' for o in s_origins):
            dd.add(ok('WIRE-1', inst, 'constant identifier %s' % sorted(str(o[1]) for o in s_origins), loc))
            return
        dd.add(bad('WIRE-1', inst, 'cannot establish which GraphQL name this identifier is made from: %s'
                   % P.show(S, 1, 4)[:200], loc, 'wire key not traceable to the schema/query name'))
        return
    roles_found.add(role)
    base, xfs = None, None
    # every data path of the ident
    raw_terms = set()
    for conds_s, leaf in P.leaves(S):
        b, x = P.strip_xf(leaf)
        raw_terms.add(TM.strip_bases(b))
    all_xf = {x for _, x in s_paths}
    transformed = any(x for x in all_xf)
    # IDENT-1
    if kw_required:
        bad_paths = [(o, x) for o, x in s_paths if o[0] == 'field' and (not x or x[-1] != 'kw')]
        if bad_paths:
            o, x = bad_paths[0]
            dd.add(bad('IDENT-1', inst, 'identifier made from %s by [%s]: keyword escape is not the last transform'
                       % (o[1], '→'.join(x) or 'none'), loc,
                       'a GraphQL name that is (or becomes) a Rust keyword yields a non-compiling identifier'))
        else:
            dd.add(ok('IDENT-1', inst, 'transforms %s end in the keyword escape' % sorted('→'.join(x) for x in all_xf), loc))
    # WIRE
    if not transformed:
        if renames:
            dd.add(ok('WIRE-2', inst, 'identifier is the raw name; rename present but harmless', loc))
        dd.add(ok('WIRE-1', inst, 'identifier is the raw GraphQL name (%s)' % role, loc))
        return
    live = [(v, a) for v, a in renames if _attr_live(a)]
    if not live:
        dd.add(bad('WIRE-2', inst, 'identifier is a transformed name (%s) but no serde(rename) can be attached'
                   % sorted('→'.join(x) for x in all_xf), loc, 'the wire key becomes the Rust identifier'))
        return
    for v, a in live:
        V = attr_value_term(v)
        v_paths = list(TM.paths(V))
        # WIRE-1: rename literal is the raw name, untransformed
        if any(x for _, x in v_paths) or role_of({o for o, _ in v_paths}) != role:
            dd.add(bad('WIRE-1', inst, 'serde(rename) value is not the raw %s name: %s' % (role, P.show(V, 1, 4)[:160]),
                       loc, 'wire key differs from the GraphQL name'))
            continue
        # WIRE-2: the rename is present exactly when raw != the string that becomes the identifier
        good = False
        why = 'rename is unconditional' if not a.rconds else ''
        for c in a.rconds:
            if c[0] == 'if' and c[2] is True and c[1][0] == 'op' and c[1][1] == '!=':
                l, r = c[1][2]
                pair = {repr(TM.strip_bases(l)), repr(TM.strip_bases(r))}

                def same_value(a_, b_):
                    """same term, or — when one side was split into its alternatives by a conditional hole — the same
                    set of (origin, transforms) data paths"""
                    if repr(TM.strip_bases(a_)) == repr(TM.strip_bases(b_)):
                        return True
                    pa, pb = set(TM.paths(a_)), set(TM.paths(b_))
                    return bool(pa) and pa == pb
                if pair == {repr(TM.strip_bases(V)), repr(TM.strip_bases(S))}:
                    good = True
                elif (same_value(l, V) and same_value(r, S)) or (same_value(r, V) and same_value(l, S)):
                    good = True
                else:
                    other = r if repr(TM.strip_bases(l)) == repr(TM.strip_bases(V)) else l
                    why = 'rename decided by comparing the raw name with %s, but the identifier is %s' % (
                        P.show(other, 1, 4)[:100], P.show(S, 1, 4)[:100])
        if not a.rconds:
            good = True  # an unconditional rename to the raw name is always correct
        if good:
            dd.add(ok('WIRE-2', inst, 'rename=%s attached iff it differs from the identifier string' % P.show(V, 1, 3)[:80], loc))
            dd.add(ok('WIRE-1', inst, 'wire key = raw %s name' % role, loc))
        else:
            dd.add(bad('WIRE-2', inst, why or 'rename condition is not `raw != identifier-string`', loc,
                       'for names where the two strings differ the wire key silently becomes the Rust identifier'))


def _const_cond(c):
    """truth value of a condition term that is decided by constants alone (None if it is not)"""
    if not isinstance(c, tuple) or not c:
        return None
    if c[0] == 'const' and isinstance(c[1], bool):
        return c[1]
    if c[0] == 'op' and c[1] in ('is_some', 'is_none') and len(c[2]) == 1:
        x = c[2][0]
        if x == ('none',):
            return c[1] == 'is_none'
        if x[0] in ('const', 'fmt', 'xf', 'tmpl', 'agg', 'list'):
            return c[1] == 'is_some'
    if c[0] == 'op' and c[1] == '!' and len(c[2]) == 1:
        v = _const_cond(c[2][0])
        return None if v is None else (not v)
    return None


def _attr_live(a):
    for c in getattr(a, 'rconds', a.conds):
        if c[0] == 'if':
            v = _const_cond(c[1])
            if v is not None and v != c[2]:
                return False
    return True


def rule_wire(ctx):
    dd = Dedup()
    roles = set()
    for it in ctx.all_items():
        if it.kind == 'struct':
            for f in it.fields:
                if f.name['t'] == 'leaf' and f.name['kind'] in ('tokens', 'rec', 'value', 'unbound', 'unparsed'):
                    dd.add(bad('WIRE-1', '%s/opaque-field' % site_short(ctx, f.site),
                               'field tokens of unknown origin inside an emitted struct: %s' % T.elem_text(f.name)[:120],
                               ctx.site_loc(f.site) if f.site else ''))
                    continue
                _wire_check(ctx, dd, 'field', name_sig(it.name), f.name, f.attrs, f.conds, f.site, roles)
        elif it.kind == 'enum' and derive_may_include(it, ('Serialize', 'Deserialize')) and not _is_graphql_enum(it):
            tagged = any(k == 'tag' for k, v, a in serde_attrs(it.attrs))
            for v in it.variants:
                if v.name['t'] == 'leaf' and v.name['kind'] in ('tokens', 'rec', 'value', 'unbound', 'unparsed'):
                    dd.add(bad('WIRE-1', '%s/opaque-variant' % site_short(ctx, v.site),
                               'variant tokens of unknown origin', ctx.site_loc(v.site) if v.site else ''))
                    continue
                if tagged:
                    _variant_typename_check(ctx, dd, v, roles)
                else:
                    _wire_check(ctx, dd, 'variant', name_sig(it.name), v.name, v.attrs, v.conds, v.site, roles)
                    roles.add('oneof-member')
    # role floor
    for r in ('response-field', 'variable', 'input-field', 'spread-field', 'oneof-member', 'typename-variant'):
        if r not in roles:
            dd.add(bad('WIRE-1', 'floor/' + r, 'anchor-missing: no emitted position of role `%s` found in the grammar' % r))
    return dd.list()


def _variant_typename_check(ctx, dd, v, roles):
    """variants of a `__typename`-tagged enum: the variant identifier IS the wire value"""
    loc = ctx.site_loc(v.site) if v.site else ''
    S = _string_of_ident(v.name)
    inst = '%s/typename-variant[%s]' % (site_short(ctx, v.site), origin_sig(S))
    sattrs = serde_attrs(v.attrs, v.conds)
    other = [a for k, val, a in sattrs if k == 'other']
    renames = [a for k, val, a in sattrs if k == 'rename']
    ps = list(TM.paths(S))
    if other and all(o[0] == 'const' for o, _ in ps):
        dd.add(ok('WIRE-1', inst, 'catch-all variant with constant name', loc))
        return
    roles.add('typename-variant')
    if renames:
        dd.add(bad('WIRE-1', inst, 'abstract-type variant carries a rename', loc, '__typename no longer selects it'))
        return
    neutral = sorted(o[1] for o in TM.all_origins(S) if o[0] == 'field' and o[1] in NEUTRAL_OPTIONS)
    if neutral:
        dd.add(bad('OPT-1', inst, '__typename variant name depends on %s' % neutral, loc, 'the accepted __typename strings change with a Rust-side option'))
    badp = [(o, x) for o, x in ps if x or (o[0] == 'field' and o[1] not in TYPE_NAME_ORIGINS) or o[0] not in ('field', 'const')]
    consts = [o for o, x in ps if o[0] == 'const']
    if badp:
        o, x = badp[0]
        dd.add(bad('WIRE-1', inst, 'variant identifier is not the raw type name: %s via [%s]' % (o[1], '→'.join(x)), loc,
                   'a known __typename selects no/another variant'))
    elif consts and not other:
        dd.add(bad('WIRE-1', inst, 'constant-named variant %s without serde(other)' % consts, loc,
                   'a variant no server type name can select'))
    else:
        ctrl = TM.ctrl_origins(S) & NEUTRAL_OPTIONS_T
        if ctrl:
            dd.add(bad('OPT-1', inst, 'variant name depends on %s' % sorted(c[1] for c in ctrl), loc,
                       'wire format changes with a Rust-side option'))
        dd.add(ok('WIRE-1', inst, 'variant identifier = raw schema type name (%s)' % origin_sig(S), loc))


NEUTRAL_OPTIONS_T = {('field', x) for x in NEUTRAL_OPTIONS}


def _is_graphql_enum(it):
    return any(v.name['t'] == 'tok' and v.name['s'] == 'Other' for v in it.variants)


# ------------------------------------------------------------------------------------------------
# SERDE-CRATE / SERDE-PATH / ATTR-PRECISION
# ------------------------------------------------------------------------------------------------

def rule_serde_crate(ctx):
    dd = Dedup()
    n = 0
    for it in ctx.all_items():
        if it.kind not in ('struct', 'enum'):
            continue
        if not derive_may_include(it, ('Serialize', 'Deserialize')):
            continue
        if it.kind == 'enum' and _is_graphql_enum(it):
            continue
        n += 1
        loc = ctx.site_loc(it.site) if it.site else ''
        keys = sorted({k for k, v, a in serde_attrs(it.attrs)})
        inst = '%s/%s[%s]%s' % (site_short(ctx, it.site), it.kind, name_sig(it.name), '{' + ','.join(k for k in keys if k != 'crate') + '}')
        crate = [(v, a) for k, v, a in serde_attrs(it.attrs, it.conds) if k == 'crate']
        if not crate:
            dd.add(bad('SERDE-CRATE', inst, 'item derives Serialize/Deserialize but has no #[serde(crate = ..)]', loc,
                       'in a consumer whose only dependency is graphql_client the derive expands to ::serde paths that do not resolve'))
            continue
        v, a = crate[0]
        V = attr_value_term(v)
        if a.rconds:
            dd.add(bad('SERDE-CRATE', inst, 'serde(crate) is conditional: ' + conds_text(a.rconds), loc, 'see above'))
        elif OPT + 'serde_path' not in TM.fields_in(V):
            dd.add(bad('SERDE-CRATE', inst, 'serde(crate = ..) value does not come from options.serde_path(): ' + P.show(V, 1, 4)[:120],
                       loc, 'derive output refers to the wrong serde path'))
        else:
            dd.add(ok('SERDE-CRATE', inst, 'serde(crate = options.serde_path)', loc))
    if n < 5:
        dd.add(bad('SERDE-CRATE', 'floor', 'anchor-missing: expected >= 5 serde-derived productions, found %d' % n))
    return dd.list()


def _walk_seq(seq):
    for el in seq:
        yield el
        if el['t'] in ('group', 'rep'):
            yield from _walk_seq(el['seq'])
        elif el['t'] == 'choice':
            for _, a in el['alts']:
                yield from _walk_seq(a)


def _flat_seqs(seq):
    """yield every linear token sequence (list) in the tree"""
    yield seq
    for el in seq:
        if el['t'] in ('group', 'rep'):
            yield from _flat_seqs(el['seq'])
        elif el['t'] == 'choice':
            for _, a in el['alts']:
                yield from _flat_seqs(a)


def rule_serde_path(ctx):
    items, ip, trees, roots = ctx.grammar()
    dd = Dedup()
    uses = 0
    for tree in trees:
        for seq in _flat_seqs(tree):
            for i, el in enumerate(seq):
                # a literal `serde ::` path segment
                if el['t'] == 'tok' and el['s'] == 'serde' and i + 1 < len(seq) and seq[i + 1]['t'] == 'tok' and seq[i + 1]['s'] == '::':
                    dd.add(bad('SERDE-PATH', '%s/literal-serde-path' % site_short(ctx, el.get('site')),
                               'template spells a `serde::` path instead of using options.serde_path()',
                               ctx.site_loc(el['site']), 'does not resolve in a consumer without a direct serde dependency'))
                if el['t'] == 'tok' and el['s'] in ('Serialize', 'Deserialize', 'Serializer', 'Deserializer') and i >= 2 \
                        and seq[i - 1]['t'] == 'tok' and seq[i - 1]['s'] == '::':
                    prev = seq[i - 2]
                    inst = '%s/trait-path' % site_short(ctx, el.get('site'))
                    if prev['t'] == 'leaf' and OPT + 'serde_path' in TM.fields_in(prev['term']):
                        uses += 1
                        dd.add(ok('SERDE-PATH', inst, 'serde trait paths are `#serde::…` with #serde = options.serde_path', ctx.site_loc(el['site'])))
                    elif prev['t'] == 'tok' and prev['s'] in ('S', 'D', 'Self'):
                        pass
                    else:
                        dd.add(bad('SERDE-PATH', inst, 'serde trait `%s` reached through %s' % (el['s'], T.elem_text(prev)[:60]),
                                   ctx.site_loc(el['site']), 'trait path does not resolve through the configured serde path'))
    if uses < 3:
        dd.add(bad('SERDE-PATH', 'floor', 'anchor-missing: expected serde trait paths through options.serde_path (use + enum impls), found %d' % uses))
    return dd.list()


def rule_attr_precision(ctx):
    dd = Dedup()
    n = 0

    def check(attrs, where, site):
        nonlocal n
        for k, v, a in serde_attrs(attrs):
            n += 1
            loc = ctx.site_loc(a.site or site) if (a.site or site) else ''
            inst = '%s/%s/%s' % (site_short(ctx, a.site or site), where, k)
            if k not in SERDE_WHITELIST:
                dd.add(bad('ATTR-PRECISION', inst, 'serde attribute `%s` is outside the audited set %s' % (k, sorted(SERDE_WHITELIST)),
                           loc, 'changes what payloads the generated type accepts/produces'))
                continue
            val = attr_value_term(v)
            if k == 'tag':
                if val != ('const', '__typename'):
                    dd.add(bad('ATTR-PRECISION', inst, 'serde(tag) is %s, not "__typename"' % P.show(val), loc,
                               'abstract types are not discriminated by the GraphQL type name'))
                else:
                    dd.add(ok('ATTR-PRECISION', inst, 'tag = "__typename"', loc))
            elif k == 'skip_serializing_if':
                if val != ('const', 'Option::is_none'):
                    dd.add(bad('ATTR-PRECISION', inst, 'skip_serializing_if = %s' % P.show(val), loc,
                               'values other than None may be omitted'))
                else:
                    dd.add(ok('ATTR-PRECISION', inst, 'skip_serializing_if = "Option::is_none"', loc))
            elif k == 'deserialize_with':
                if val[0] != 'const' or not str(val[1]).startswith('graphql_client::serde_with::deserialize_'):
                    dd.add(bad('ATTR-PRECISION', inst, 'deserialize_with = %s is not one of the ID helpers' % P.show(val), loc,
                               'a custom deserializer changes the accepted payloads'))
                else:
                    dd.add(ok('ATTR-PRECISION', inst, 'deserialize_with = %s' % val[1], loc))
            elif k == 'default':
                # only admissible together with the Option-returning ID helper under the same conditions
                sib = [(k2, attr_value_term(v2)) for k2, v2 in a.kv()]
                okk = any(k2 == 'deserialize_with' and t2 == ('const', 'graphql_client::serde_with::deserialize_option_id') for k2, t2 in sib)
                if okk:
                    dd.add(ok('ATTR-PRECISION', inst, 'default only next to deserialize_option_id (absent nullable ID -> None)', loc))
                else:
                    dd.add(bad('ATTR-PRECISION', inst, 'serde(default) on an emitted field', loc,
                               'a missing key at a non-null position is silently accepted'))
            else:
                dd.add(ok('ATTR-PRECISION', inst, 'serde(%s)' % k, loc))

    for it in ctx.all_items():
        if it.kind in ('struct', 'enum'):
            check(it.attrs, it.kind, it.site)
            for f in it.fields:
                check(f.attrs, 'field', f.site)
            for v in it.variants:
                check(v.attrs, 'variant', v.site)
    if n < 10:
        dd.add(bad('ATTR-PRECISION', 'floor', 'anchor-missing: expected >= 10 serde attribute productions, found %d' % n))
    return dd.list()


# ------------------------------------------------------------------------------------------------
# OPT: wire-neutral options never influence wire positions
# ------------------------------------------------------------------------------------------------

def _id_preserving(t):
    """does the name term t spell the built-in `ID` as "ID" under every normalization?  Decided by evaluating t on the
    sample name (rules_hir7.NameEval); the shape reading below is the fallback when t is not evaluable."""
    from .rules_hir7 import NameEval, UNK
    got = set()
    for norm in ('None', 'Rust'):
        r = NameEval('*', 'ID', norm).ev(t)
        if UNK in r or any(isinstance(v, str) and v.startswith('\0') for v in r):
            return _id_preserving_shape(t)
        got |= r
    return got <= {'ID'}


def _id_preserving_shape(t):
    """is every alternative of t either a raw name or the result of a normalizer guarded by `name == "ID"` returning
    the raw name?  (shape: if(..=="ID".. ? raw : normalized))"""
    tag = t[0]
    if tag == 'join':
        return all(_id_preserving_shape(x) for x in t[1])
    if tag in ('field', 'const', 'cproj', 'tproj', 'sel', 'absent', 'none', 'unit', 'rec', 'diverge'):
        return True
    if tag == 'if':
        has_id_test = any(s_ == ('const', 'ID') for s_ in P.subterms(t[1]))
        if has_id_test:
            return _id_preserving(t[2]) if True else False
        return _id_preserving(t[2]) and _id_preserving(t[3])
    if tag == 'match':
        return all(_id_preserving(a) for _, a in t[2])
    if tag == 'orelse':
        return _id_preserving(t[1]) and _id_preserving(t[2])
    return False


def _norm_id_fixed(ctx):
    """is every fn named like a type-name normalizer the identity on the literal "ID"? (see NORM-ID)"""
    from .facts import norm_path
    fns = [f for f in ctx.crate('codegen').all_fns() if norm_path(f.path).endswith(('Normalization::field_type_impl', 'Normalization::field_type'))]
    if not fns:
        return False
    okc = False
    for f in fns:
        x = ('argvar', 'x')
        env = {}
        ctx.pv.bind_params(f, f.params, [('param', f.key, 0, 'self'), x], env, 0)
        t = ctx.pv.eval(f, f.body, env, 0)
        from .rules_hir7 import NameEval, UNK
        rs = [NameEval('*', 'ID', norm).ev(t) for norm in ('None', 'Rust')]
        if all(r == {'ID'} for r in rs):
            okc = True
            continue
        for conds, leaf in P.leaves(t):
            if leaf == x and any(c[0] == 'if' and c[2] and ('const', 'ID') in list(P.subterms(c[1])) for c in conds):
                okc = True
    return okc


def rule_opt(ctx):
    dd = Dedup()
    checked = 0

    def neutral_in(origins):
        return sorted(o[1] for o in origins if o[0] == 'field' and o[1] in NEUTRAL_OPTIONS)

    norm_id_ok = _norm_id_fixed(ctx)

    def neutralise_id_tests(conds):
        """`<type name> == "ID"` does not depend on normalization when the normalizer is the identity on "ID"
        (NORM-ID): a user type that normalizes to `ID` collides with the built-in alias and cannot compile."""
        if not norm_id_ok:
            return conds

        def rw(t):
            if not isinstance(t, tuple) or not t:
                return t
            if t[0] == 'op' and t[1] in ('==', '!=') and len(t[2]) == 2 and ('const', 'ID') in t[2]:
                other = [x for x in t[2] if x != ('const', 'ID')]
                if other and _id_preserving(other[0]):
                    return ('op', t[1], (('const', '<schema type name>'), ('const', 'ID')))
                return t
            if t[0] == 'join':
                return P.join([rw(x) for x in t[1]])
            return tuple(rw(x) if isinstance(x, tuple) else x for x in t)
        out = []
        for c in conds:
            if c[0] in ('if', 'match') and c[1] is not None:
                out.append((c[0], rw(c[1])) + tuple(c[2:]))
            else:
                out.append(c)
        return tuple(out)

    def check_conds(conds, what, site, allow_extern=False):
        nonlocal checked
        checked += 1
        conds = neutralise_id_tests(conds)
        os_ = TM.cond_origins(conds)
        hit = neutral_in(os_)
        if allow_extern:
            hit = [h for h in hit if h != OPT + 'extern_enums']
        loc = ctx.site_loc(site) if site else ''
        inst = '%s/%s' % (site_short(ctx, site), what)
        if hit:
            dd.add(bad('OPT-2', inst, 'production is chosen under a condition on %s: %s' % (hit, conds_text(conds)[:200]), loc,
                       'the wire format differs between settings of a Rust-side option'))
        else:
            dd.add(ok('OPT-2', inst, 'guards mention only %s' % (sorted(o[1] for o in os_ if o[0] == 'field' and o[1].startswith(OPT)) or 'no option'), loc))

    def check_value(term, what, site):
        nonlocal checked
        checked += 1
        hit = neutral_in(TM.all_origins(term))
        loc = ctx.site_loc(site) if site else ''
        inst = '%s/%s' % (site_short(ctx, site), what)
        if hit:
            dd.add(bad('OPT-1', inst, 'wire string depends on %s: %s' % (hit, P.show(term, 1, 4)[:160]), loc,
                       'the wire format differs between settings of a Rust-side option'))
        else:
            dd.add(ok('OPT-1', inst, 'no wire-neutral option among the origins', loc))

    for it in ctx.all_items():
        if it.kind in ('struct', 'enum'):
            for k, v, a in serde_attrs(it.attrs, it.conds):
                if k in ('crate',):
                    continue
                check_conds(a.rconds, '%s-attr:%s' % (it.kind, k), a.site or it.site)
                if v is not None and k in ('tag', 'rename'):
                    check_value(attr_value_term(v), '%s-attr:%s=' % (it.kind, k), a.site or it.site)
            # item-level existence
            check_conds(it.conds, '%s[%s]' % (it.kind, name_sig(it.name)), it.site, allow_extern=(it.kind == 'enum' and _is_graphql_enum(it)))
            for f in it.fields:
                check_conds(f.conds, 'field[%s]' % name_sig(f.name), f.site)
                for k, v, a in serde_attrs(f.attrs, f.conds):
                    check_conds(a.rconds, 'field-attr:%s[%s]' % (k, name_sig(f.name)), a.site or f.site)
                    if k == 'rename' and v is not None:
                        check_value(attr_value_term(v), 'field-attr:rename=[%s]' % name_sig(f.name), a.site or f.site)
            for v_ in it.variants:
                check_conds(v_.conds, 'variant[%s]' % name_sig(v_.name), v_.site)
                for k, v, a in serde_attrs(v_.attrs, v_.conds):
                    check_conds(a.rconds, 'variant-attr:%s[%s]' % (k, name_sig(v_.name)), a.site or v_.site)
                    if k == 'rename' and v is not None:
                        check_value(attr_value_term(v), 'variant-attr:rename=[%s]' % name_sig(v_.name), a.site or v_.site)
        if it.kind == 'const' and it.name is not None and it.name['t'] == 'tok' and it.name['s'] in ('OPERATION_NAME', 'QUERY'):
            # value = tokens after '=' in header
            for el in it.header:
                if el['t'] == 'leaf':
                    check_value(el['term'], 'const:' + it.name['s'], it.site)
    if checked < 30:
        dd.add(bad('OPT-2', 'floor', 'anchor-missing: expected >= 30 wire positions/guards, found %d' % checked))
    return dd.list()


# ------------------------------------------------------------------------------------------------
# guards evaluated over qualifier lists: SKIP-NONE, ID-TYPING/ATTACH/ABSENT
# ------------------------------------------------------------------------------------------------

def _atoms_factory(assign):
    """atoms(term) -> bool|None for non-qualifier atoms, from a dict {predicate-name: bool}"""
    def atoms(t):
        if t[0] == 'field' and t[2].endswith('GraphQLClientCodegenOptions'):
            return assign.get('opt:' + t[3])
        if t[0] == 'op' and t[1] in ('==', '!=') and len(t[2]) == 2:
            consts = [a for a in t[2] if a[0] == 'const' and isinstance(a[1], str)]
            if consts and consts[0][1] == 'ID':
                v = assign.get('is_id')
                if v is None:
                    return None
                return v if t[1] == '==' else (not v)
        return None
    return atoms


def _eval_conds(ctx, conds, q, assign, free=None):
    """truth of a conjunction of leaf conditions for qualifier list q.
    Conditions that cannot be evaluated over (qualifiers, atoms) are collected in `free` (if given) and treated as
    true — the caller decides what an extra, unknown condition means; without `free` they raise Undecided."""
    ev = Q.QEval(ctx.pv, q, _atoms_factory(assign))
    for c in conds:
        try:
            if c[0] == 'if':
                v = ev.ev(c[1])
                if not isinstance(v, bool):
                    raise Q.Undecided('condition value')
                if v != c[2]:
                    return False
            elif c[0] == 'match':
                s = ev.ev(c[1])
                if not ev.pat_matches(c[2], s):
                    return False
        except Q.Undecided:
            if free is None:
                raise
            free.append(c)
    return True


def _qualifier_terms(conds):
    out = set()
    for c in conds:
        if c[0] in ('if', 'match') and c[1] is not None:
            for s in P.subterms(c[1]):
                if s[0] == 'field' and s[3] == 'qualifiers':
                    out.add(TM.strip_bases(s))
                if s[0] == 'list' and s[1] and all(x[0] == 'global' and 'GraphqlTypeQualifier' in x[1] for x in s[1]):
                    out.add(s)
    return out


def decorate_rust_type(q):
    """specification transducer (C13): qualifier list (outer->inner) -> shape of the Rust type"""
    t = 'T'
    non_null = False
    for x in reversed(q):
        if x == Q.LIST:
            t = 'Vec<%s>' % t if non_null else 'Vec<Option<%s>>' % t
            non_null = False
        else:
            non_null = True
    return t if non_null else 'Option<%s>' % t


def rule_skip_none(ctx):
    """SKIP-NONE: skip_serializing_if is attached iff option on and the outermost qualifier is nullable"""
    dd = Dedup()
    sites = 0
    lists = Q.wellformed_lists(4)
    for it in ctx.all_items():
        if it.kind != 'struct':
            continue
        for f in it.fields:
            sk = [(k, v, a) for k, v, a in serde_attrs(f.attrs, f.conds) if k == 'skip_serializing_if']
            role = role_of({o for o, _ in TM.paths(_string_of_ident(f.name))}) if f.name['t'] == 'leaf' else None
            if not sk:
                continue
            for k, v, a in sk:
                if not _attr_live(a):
                    continue
                sites += 1
                loc = ctx.site_loc(a.site or f.site)
                inst = '%s/skip[%s]' % (site_short(ctx, a.site or f.site), name_sig(f.name))
                os_ = TM.cond_origins(a.rconds)
                if ('field', OPT + 'skip_serializing_none') not in os_:
                    dd.add(bad('SKIP-NONE', inst, 'skip_serializing_if is not guarded by options.skip_serializing_none: ' + conds_text(a.rconds)[:160],
                               loc, 'None members are omitted although the option is off'))
                    continue
                qts = _qualifier_terms(a.rconds)
                # spread fields have the constant list [Required]; named fields a schema qualifier list
                try:
                    wrong = None
                    for on in (True, False):
                        for q in lists:
                            free = []
                            got = _eval_conds(ctx, a.rconds, q, {'opt:skip_serializing_none': on}, free)
                            want = on and (len(q) == 0 or q[0] != Q.REQ)
                            if got and free:
                                wrong = ('attachment additionally depends on %s' % conds_text(tuple(free))[:160], q)
                                break
                            const_lists = [t for t in qts if t[0] == 'list']
                            if const_lists and len(qts) == len(const_lists):
                                cl = [Q.REQ if x[1].endswith('Required') else Q.LIST for x in const_lists[0][1]]
                                want = on and (len(cl) == 0 or cl[0] != Q.REQ)
                            if not qts:
                                # guard does not look at qualifiers at all
                                want = got
                                wrong = wrong or ('guard does not test the qualifiers', q)
                                break
                            if got != want:
                                wrong = ('option=%s qualifiers=%s: attached=%s expected=%s' % (on, q, got, want), q)
                                break
                        if wrong:
                            break
                    if wrong:
                        dd.add(bad('SKIP-NONE', inst, wrong[0], loc,
                                   'a non-null member can be omitted / a None member is sent as null against the option'))
                    else:
                        dd.add(ok('SKIP-NONE', inst, 'attached iff option && outermost qualifier nullable (checked on %d qualifier lists × 2)' % len(lists), loc))
                except Q.Undecided as ex:
                    dd.add(undecided('SKIP-NONE', inst, 'guard predicate not evaluable: %s' % ex, loc))
    roles_ = {k.split('[')[-1] for k in dd.obs}
    if not any('ResolvedVariable' in r for r in roles_) or not any('StoredInputType' in r for r in roles_):
        dd.add(bad('SKIP-NONE', 'floor', 'anchor-missing: expected skip_serializing_if productions for variables and input fields, found %s' % sorted(roles_)))
    return dd.list()


def _helper_return(ctx, name):
    """return type of graphql_client::serde_with::<name>: 'String' | 'Option<String>' | None"""
    fn = ctx.fn('client', 'graphql_client::' + name.split('graphql_client::')[-1])
    if fn is None:
        return None, None
    out = fn.d.get('output', '')
    m = re.match(r'^std::result::Result<(.+), .*>$', out)
    inner = m.group(1) if m else out
    inner = inner.replace('std::string::String', 'String').replace('std::option::Option', 'Option')
    return inner, fn


def rule_id(ctx):
    """ID-ATTACH / ID-TYPING / ID-ABSENT on every deserialize_with production"""
    dd = Dedup()
    sites = 0
    lists = Q.wellformed_lists(4)
    for it in ctx.all_items():
        if it.kind != 'struct':
            continue
        for f in it.fields:
            sat = serde_attrs(f.attrs, f.conds)
            dw = [(k, v, a) for k, v, a in sat if k == 'deserialize_with' and _attr_live(a)]
            if not dw:
                continue
            for k, v, a in dw:
                val = attr_value_term(v)
                if val[0] != 'const':
                    continue
                sites += 1
                helper = val[1]
                loc = ctx.site_loc(a.site or f.site)
                inst = '%s/%s[%s]' % (site_short(ctx, a.site or f.site), helper.split('::')[-1], name_sig(f.name))
                ret, hfn = _helper_return(ctx, helper)
                if hfn is None:
                    dd.add(bad('ID-SHAPE', inst, 'attribute names %s but graphql_client defines no such fn' % helper, loc,
                               'the generated module does not compile'))
                    continue
                if hfn.d.get('vis') != 'Public':
                    dd.add(bad('ID-SHAPE', inst, '%s is not pub' % helper, loc, 'the generated module does not compile'))
                # ID-ATTACH: guarded by a comparison with the literal "ID"
                has_id_test = False
                # conditions that hold where the attribute is emitted: `if` tests and the guards of the match arms it sits in
                held = [c[1] for c in a.rconds if c[0] == 'if'] + \
                       [c[2][2] for c in a.rconds if c[0] == 'match' and len(c) > 2 and isinstance(c[2], tuple) and c[2] and c[2][0] == 'guarded']
                for ct_ in held:
                    for s in P.subterms(ct_):
                        if s[0] == 'op' and s[1] == '==' and ('const', 'ID') in s[2]:
                            has_id_test = True
                unpreserved = []
                for ct_ in held:
                    if True:
                        for s in P.subterms(ct_):
                            if s[0] == 'op' and s[1] == '==' and ('const', 'ID') in s[2]:
                                other = [x for x in s[2] if x != ('const', 'ID')]
                                if other and OPT + 'normalization' in TM.fields_in(other[0]) and not _id_preserving(other[0]):
                                    unpreserved.append(other[0])
                if unpreserved:
                    dd.add(bad('ID-ATTACH', inst + '/normalized-name', 'the `== "ID"` test is applied to a name that went through a normalizer which does not keep "ID" unchanged', loc,
                               'under normalization = rust no ID field gets the coercion (and the field type becomes an undefined `Id`)'))
                if not has_id_test:
                    dd.add(bad('ID-ATTACH', inst, 'helper attached without testing that the field type is ID: ' + conds_text(a.rconds)[:160], loc,
                               'non-ID fields are coerced through the ID helper'))
                else:
                    dd.add(ok('ID-ATTACH', inst, 'attached only under `type == "ID"`', loc))
                # spread fields (constant qualifier list, fragment names) are never IDs: skip typing
                s_or = {o[1] for o, _ in TM.paths(_string_of_ident(f.name)) if o[0] == 'field'} if f.name['t'] == 'leaf' else set()
                if s_or and s_or <= {'ResolvedFragment.name'}:
                    continue
                # ID-TYPING: whenever attached, the field's type equals the helper's return type
                try:
                    wrong = None
                    n_att = 0
                    for q in lists:
                        att = _eval_conds(ctx, a.rconds, q, {'is_id': True, 'opt:skip_serializing_none': False})
                        if not att:
                            continue
                        n_att += 1
                        ty = decorate_rust_type(q).replace('T', 'String')
                        if ty != ret:
                            wrong = 'for qualifiers %s the field type is %s but %s returns %s' % (q, ty, helper.split('::')[-1], ret)
                            break
                    if wrong:
                        dd.add(bad('ID-TYPING', inst, wrong, loc, 'E0308 in the generated module (e.g. `[ID!]!`)'))
                    elif n_att == 0:
                        dd.add(bad('ID-TYPING', inst, 'helper can never be attached (guard unsatisfiable)', loc, 'integer IDs are rejected'))
                    else:
                        dd.add(ok('ID-TYPING', inst, 'attached for %d qualifier list(s); field type always %s' % (n_att, ret), loc))
                except Q.Undecided as ex:
                    dd.add(undecided('ID-TYPING', inst, 'guard predicate not evaluable: %s' % ex, loc))
                # ID-ABSENT: Option-returning helper needs `default` so that an absent key is None
                if ret and ret.startswith('Option<'):
                    has_default = any(k2 == 'default' for k2, _ in a.kv())
                    if not has_default:
                        dd.add(bad('ID-ABSENT', inst, 'deserialize_with on an Option field without serde(default)', loc,
                                   'an absent nullable ID is an error instead of None'))
                    else:
                        dd.add(ok('ID-ABSENT', inst, 'default present: absent -> None', loc))
    # exactly the ID-typed response fields: both helpers must be attachable somewhere
    if sites < 2:
        dd.add(bad('ID-ATTACH', 'floor', 'anchor-missing: expected deserialize_with productions for both ID helpers, found %d' % sites))
    return dd.list()


# ------------------------------------------------------------------------------------------------
# OTHER-GUARD, VARIANTS, SEL-EMPTY-ENUM
# ------------------------------------------------------------------------------------------------

def rule_other_guard(ctx):
    dd = Dedup()
    n = 0
    for it in ctx.all_items():
        if it.kind != 'enum':
            continue
        for v in it.variants:
            for k, val, a in serde_attrs(v.attrs, v.conds):
                if k != 'other' or not _attr_live(a):
                    continue
                n += 1
                loc = ctx.site_loc(a.site or v.site)
                inst = '%s/other[%s]' % (site_short(ctx, a.site or v.site), name_sig(v.name))
                os_ = TM.cond_origins(v.conds) | TM.cond_origins(a.rconds)
                if ('field', OPT + 'fragments_other_variant') in os_:
                    # polarity: must be the `true` side
                    def direct(t):
                        while t[0] == 'op' and t[1] == '!' :
                            t = t[2][0]
                        while t[0] == 'join' and len({TM.strip_bases(x) for x in t[1]}) == 1:
                            t = next(iter(t[1]))
                        return t[0] == 'field' and t[3] == 'fragments_other_variant'
                    pol = [c for c in (v.conds + a.rconds) if c[0] == 'if' and direct(c[1])]
                    if all(c[2] for c in pol):
                        dd.add(ok('OTHER-GUARD', inst, 'serde(other) variant only under options.fragments_other_variant', loc))
                    else:
                        dd.add(bad('OTHER-GUARD', inst, 'serde(other) variant emitted when the option is OFF', loc,
                                   'unknown __typename accepted with the option off / rejected with it on'))
                else:
                    dd.add(bad('OTHER-GUARD', inst, 'serde(other) variant not guarded by options.fragments_other_variant: ' + conds_text(v.conds + a.rconds)[:200],
                               loc, 'unknown __typename silently accepted'))
                # payload-free (a payload hole all of whose alternatives are empty is no payload)
                def live_payload(seq):
                    for el_ in seq or []:
                        if el_['t'] == 'choice':
                            if any(live_payload(sq_) for c_, sq_ in el_['alts']):
                                return True
                        else:
                            return True
                    return False
                if live_payload(v.payload):
                    dd.add(bad('OTHER-GUARD', inst + '/unit', 'serde(other) variant has a payload', loc, 'serde rejects a non-unit `other` variant'))
    if n < 1:
        dd.add(bad('OTHER-GUARD', 'floor', 'anchor-missing: no serde(other) production found'))
    return dd.list()


def rule_sel_empty_enum(ctx):
    """SEL-EMPTY-ENUM: a tagged enum production whose variants all come from a repetition must be guarded by a
    non-emptiness test of that collection"""
    dd = Dedup()
    n = 0
    for it in ctx.all_items():
        if it.kind != 'enum' or not any(k == 'tag' for k, v, a in serde_attrs(it.attrs, it.conds)):
            continue
        n += 1
        loc = ctx.site_loc(it.site)
        inst = '%s/enum[%s]' % (site_short(ctx, it.site), name_sig(it.name))
        body = it.body['seq'] if it.body else []
        fixed = [el for el in body if el['t'] == 'tok' and el['kind'] == 'ident']
        if fixed:
            dd.add(ok('SEL-EMPTY-ENUM', inst, 'has fixed variants', loc))
            continue
        # which collection feeds the repetition?  the production (template site) must be control-dependent on a
        # non-emptiness test of that very collection (read on the HIR: guards may be abstracted in terms)
        guard_ok = False
        sfn, snode = ctx.pv.sites[it.site]
        holes = ctx.ex.holes_of(it.site)
        rep_names = set()

        def rep_holes(seq):
            for el in seq:
                if el['t'] == 'rep':
                    for x in el['seq']:
                        if x['t'] == 'hole':
                            rep_names.add(x['name'])
                if el['t'] in ('group', 'rep'):
                    rep_holes(el['seq'])
        rep_holes(ctx.ex.site_tree(it.site))
        rep_hids = {holes[n]['hid'] for n in rep_names if n in holes}
        from .facts import root_local
        for pc in P.path_conds(sfn, snode):
            if pc[0] != 'if':
                continue
            stack = [(pc[1], pc[2])]
            while stack:
                e, pol = stack.pop()
                k = e.get('k')
                if k == 'binary' and e.get('op') == '&&' and pol:
                    stack += [(e['l'], True), (e['r'], True)]
                elif k == 'binary' and e.get('op') == '||' and not pol:
                    stack += [(e['l'], False), (e['r'], False)]
                elif k == 'unary' and e.get('op') == '!':
                    stack.append((e['e'], not pol))
                elif k in ('wrap',):
                    stack.append((e['e'], pol))
                elif k == 'mcall' and e['method'] == 'is_empty' and root_local(e['recv']) in rep_hids and not pol:
                    guard_ok = True
                elif k == 'binary' and e.get('op') in ('>', '!=', '>=') and pol:
                    l = e['l']
                    if l.get('k') == 'mcall' and l['method'] == 'len' and root_local(l['recv']) in rep_hids:
                        guard_ok = True
        if guard_ok:
            dd.add(ok('SEL-EMPTY-ENUM', inst, 'enum production guarded by a non-empty variants test', loc))
        else:
            dd.add(bad('SEL-EMPTY-ENUM', inst, 'enum whose variants all come from a repetition is emitted without testing that there is at least one variant: '
                       + conds_text(it.conds)[:200], loc,
                       'a selection with no fields on a concrete object (e.g. `{ __typename }`) yields `enum X {}` which rejects every payload'))
    if n < 2:
        dd.add(bad('SEL-EMPTY-ENUM', 'floor', 'anchor-missing: expected the two __typename-tagged enum productions, found %d' % n))
    return dd.list()


# ------------------------------------------------------------------------------------------------
# ONEOF-SHAPE, TYPES-1/2/5, BOX
# ------------------------------------------------------------------------------------------------

def rule_oneof_shape(ctx):
    dd = Dedup()
    found = 0
    for it in ctx.all_items():
        if it.kind != 'enum' or _is_graphql_enum(it):
            continue
        co = TM.cond_origins(it.conds)
        if ('field', 'StoredInputType.is_one_of') not in co:
            continue
        found += 1
        loc = ctx.site_loc(it.site)
        inst = '%s/oneof-enum' % site_short(ctx, it.site)
        pol = [c for c in it.conds if c[0] == 'if' and 'StoredInputType.is_one_of' in TM.fields_in(c[1])]
        if not all(c[2] for c in pol):
            dd.add(bad('ONEOF-SHAPE', inst, 'enum form is chosen when is_one_of is false', loc, '@oneOf inputs get the struct form (several keys)'))
        keys = {k for k, v, a in serde_attrs(it.attrs, it.conds)}
        if keys & {'tag', 'untagged', 'content'}:
            dd.add(bad('ONEOF-SHAPE', inst, '@oneOf enum carries serde(%s)' % sorted(keys & {'tag', 'untagged', 'content'}), loc,
                       'not the externally tagged form: not exactly one key'))
        nvar = 0
        for v in it.variants:
            nvar += 1
            if not v.payload or not (len(v.payload) == 1 and v.payload[0]['t'] == 'group' and v.payload[0]['d'] == '('):
                dd.add(bad('ONEOF-SHAPE', inst + '/variant', '@oneOf member is not a newtype variant: %s' % T.render(v.payload or [])[:80], loc,
                           'member does not serialize as {"name": value}'))
            else:
                inner = v.payload[0]['seq']
                if any(is_comma(el) for el in inner):
                    dd.add(bad('ONEOF-SHAPE', inst + '/variant', 'variant has several fields', loc, 'serializes as an array'))
        if nvar == 0:
            dd.add(bad('ONEOF-SHAPE', inst, 'no variant production', loc, 'uninhabited enum'))
        if inst not in dd.obs and not any(k.startswith('ONEOF-SHAPE/' + inst) for k in dd.obs):
            dd.add(ok('ONEOF-SHAPE', inst, 'externally tagged enum of newtype variants, chosen iff is_one_of', loc))
    # the struct form must be the is_one_of == false alternative
    for it in ctx.all_items():
        if it.kind == 'struct':
            pol = [c for c in it.conds if c[0] == 'if' and 'StoredInputType.is_one_of' in TM.fields_in(c[1])]
            if pol:
                found += 1
                if any(c[2] for c in pol):
                    dd.add(bad('ONEOF-SHAPE', '%s/input-struct' % site_short(ctx, it.site), 'struct form chosen when is_one_of is true',
                               ctx.site_loc(it.site), '@oneOf inputs may serialize several keys'))
                else:
                    dd.add(ok('ONEOF-SHAPE', '%s/input-struct' % site_short(ctx, it.site), 'struct form iff !is_one_of', ctx.site_loc(it.site)))
    if found < 2:
        dd.add(bad('ONEOF-SHAPE', 'floor', 'anchor-missing: expected an enum and a struct production selected by StoredInputType.is_one_of'))
    return dd.list()


def is_comma(el):
    return el['t'] == 'tok' and el['s'] == ','


def rule_types_grammar(ctx):
    """TYPES-1 (single mapping fn), TYPES-5 (built-in aliases), shape of every emitted type position"""
    items, ip, trees, roots = ctx.grammar()
    dd = Dedup()
    # TYPES-1: every `Option <` / `Vec <` token pair in any template belongs to one fn
    fns = {}
    for tree in trees:
        for seq in _flat_seqs(tree):
            for i, el in enumerate(seq):
                if el['t'] == 'tok' and el['s'] in ('Option', 'Vec') and i + 1 < len(seq) and seq[i + 1]['t'] == 'tok' and seq[i + 1]['s'] == '<':
                    fns.setdefault(short(ctx.site_fn(el['site']).path), set()).add(el['site'])
    if len(fns) == 1:
        R = next(iter(fns))
        dd.add(ok('TYPES-1', 'single-mapping', 'all Option<>/Vec<> wrappers are emitted by `%s` (%d templates)' % (R, len(fns[R]))))
    elif not fns:
        dd.add(bad('TYPES-1', 'floor', 'anchor-missing: no template emits Option<..>/Vec<..>'))
    else:
        # the mapping fn is the one with most templates; others are second mapping rules
        main = max(fns, key=lambda k: len(fns[k]))
        # a mapping fn may delegate steps to private helpers: a fn all of whose callers belong to the family is part of
        # the same rule (and so is the single caller of the main fn)
        from .rules_hir import callgraph
        cg_ = callgraph(ctx)
        key_of = {}
        for tree in trees:
            for seq in _flat_seqs(tree):
                for el in seq:
                    if el['t'] == 'tok' and el.get('site') is not None:
                        f_ = ctx.site_fn(el['site'])
                        key_of[short(f_.path)] = f_.key
        callers = {}
        for a_, bs_ in cg_.edges.items():
            for b_ in bs_:
                callers.setdefault(b_, set()).add(a_)
        family = {key_of.get(main)}
        changed = True
        while changed:
            changed = False
            for f in fns:
                k_ = key_of.get(f)
                if k_ in family or k_ is None:
                    continue
                cs_ = callers.get(k_, set()) - {k_}
                if (cs_ and cs_ <= family) or any((callers.get(m_, set()) - {m_}) == {k_} for m_ in family):
                    family.add(k_)
                    changed = True
        if all(key_of.get(f) in family for f in fns):
            dd.add(ok('TYPES-1', 'single-mapping', 'all Option<>/Vec<> wrappers are emitted by `%s` and its private step helpers %s' % (main, sorted(f for f in fns if f != main))))
        for f, sites in fns.items():
            if f != main and key_of.get(f) not in family:
                dd.add(bad('TYPES-1', 'second-mapping/' + f, 'Option<>/Vec<> wrapper emitted outside the single mapping fn `%s`' % main,
                           ctx.site_loc(next(iter(sites))), 'a type position maps GraphQL modifiers by a different rule'))
    # TYPES-5
    want = {'Boolean': 'bool', 'Float': 'f64', 'Int': 'i64', 'ID': 'String'}
    seen = {}
    for it in ctx.all_items():
        if it.kind == 'type' and it.name is not None and it.name['t'] == 'tok':
            rhs = [el for el in it.header if not (el['t'] == 'tok' and el['s'] == '=')]
            seen[it.name['s']] = T.render(rhs)
            if it.name['s'] == 'String':
                dd.add(bad('TYPES-5', 'alias/String', 'module aliases `String`', ctx.site_loc(it.site), 'String no longer means std String'))
    for k, v in want.items():
        if seen.get(k) != v:
            dd.add(bad('TYPES-5', 'alias/' + k, 'built-in scalar alias `type %s = %s` expected, found %r' % (k, v, seen.get(k)), '',
                       'built-in scalar maps to the wrong Rust type'))
        else:
            dd.add(ok('TYPES-5', 'alias/' + k, 'type %s = %s' % (k, v)))
    # every type position of fields / newtype variants: [Box<] (mapping-fn tokens | ident leaf) [>]
    mapping_fns = set(fns)
    npos = 0
    for it in ctx.all_items():
        for f in it.fields:
            if f.ty is None or f.name['t'] == 'tok':
                continue
            npos += 1
            _check_type_seq(ctx, dd, f.ty, f.site, 'field[%s]' % name_sig(f.name), mapping_fns)
        for v in it.variants:
            if v.payload and _is_graphql_enum(it) is False and derive_may_include(it, ('Serialize', 'Deserialize')) \
                    and not any(k == 'tag' for k, vv, a in serde_attrs(it.attrs)):
                npos += 1
                _check_type_seq(ctx, dd, v.payload[0]['seq'] if v.payload[0]['t'] == 'group' else v.payload, v.site,
                                'variant[%s]' % name_sig(v.name), mapping_fns)
    if npos < 4:
        dd.add(bad('TYPES-2', 'floor', 'anchor-missing: expected >= 4 GraphQL-typed positions, found %d' % npos))
    return dd.list()


def _check_type_seq(ctx, dd, seq, site, what, mapping_fns):
    """tokens of a type position may come only from the owner site (Box < >) or from the mapping fn"""
    loc = ctx.site_loc(site) if site else ''
    inst = '%s/%s' % (site_short(ctx, site), what)
    foreign = []
    for el in _walk_seq(seq):
        if el['t'] == 'tok':
            fshort = short(ctx.site_fn(el['site']).path)
            if fshort in mapping_fns:
                continue
            if el['s'] in ('Box', '<', '>'):
                continue
            foreign.append(el)
        elif el['t'] == 'leaf':
            fshort = short(ctx.site_fn(el['site']).path)
            if el['kind'] in ('ident', 'rec') and fshort in mapping_fns:
                continue
            foreign.append(el)
    if foreign:
        dd.add(bad('TYPES-2', inst, 'type position contains tokens not produced by the type mapping fn: %s' %
                   ', '.join(T.elem_text(e)[:40] for e in foreign[:3]), loc,
                   'this position maps GraphQL type modifiers by its own rule'))
    else:
        dd.add(ok('TYPES-2', inst, 'type = [Box<] mapping-fn output [>]', loc))


def rule_box(ctx):
    """BOX-SITES / BOX-INVISIBLE on the grammar"""
    items, ip, trees, roots = ctx.grammar()
    dd = Dedup()
    sites = {}

    def scan(seq, conds):
        for i, el in enumerate(seq):
            if el['t'] == 'choice':
                # does an alternative start with Box < ... > ?
                boxed = [(c, a) for c, a in el['alts'] if a and a[0]['t'] == 'tok' and a[0]['s'] == 'Box']
                plain = [(c, a) for c, a in el['alts'] if not (a and a[0]['t'] == 'tok' and a[0]['s'] == 'Box')]
                for c, a in boxed:
                    sites.setdefault(a[0]['site'], []).append((c, a, plain, el))
                for c, a in el['alts']:
                    scan(a, conds + c)
            elif el['t'] in ('group', 'rep'):
                scan(el['seq'], conds)
            elif el['t'] == 'tok' and el['s'] == 'Box':
                sites.setdefault(el['site'], []).append((None, seq, None, None)) if not any(
                    x[1] and x[1][0] is el for x in sites.get(el['site'], [])) else None
    for tree in trees:
        scan(tree, ())
    roles = set()
    for site, occ in sites.items():
        fnshort = site_short(ctx, site)
        loc = ctx.site_loc(site)
        for c, a, plain, el in occ:
            # the production that owns the choice (where the possibly-boxed type is placed), not where `Box` is spelled
            if el is not None and el.get('site') is not None:
                fnshort = site_short(ctx, el['site'])
                loc = ctx.site_loc(el['site'])
            inst = '%s/box' % fnshort
            if c is None:
                # Box token that is not the head of a choice alternative => unconditional boxing
                continue
            os_ = TM.cond_origins(c)
            fields = {o[1] for o in os_ if o[0] == 'field'}
            if not c or all(x[0] == 'rep' for x in c):
                dd.add(bad('BOX-SITES', inst, 'Box is emitted unconditionally', loc, 'types differ from the documented shape'))
                continue
            if not plain:
                dd.add(bad('BOX-SITES', inst, 'no unboxed alternative', loc, ''))
                continue
            if 'StoredInputType.fields' in fields or 'StoredInputFieldType.id' in fields:
                roles.add(fnshort + ':input')
                reads_quals = 'StoredInputFieldType.qualifiers' in fields
                if not reads_quals:
                    # the qualifier test may sit in an iterator adaptor of the walk (`.filter(|f| !f.is_indirected())`)
                    # whose reads the loop summary does not carry: look at the predicate's own functions
                    try:
                        from .rules_hir import callgraph
                        sfn = ctx.site_fn(el['site'] if el is not None and el.get('site') is not None else site)
                        for k_ in callgraph(ctx).reachable([sfn.key]):
                            f_ = ctx.fn_by_key(k_)
                            if f_ is None or f_.from_macro or 'schema::' not in f_.path:
                                continue
                            for n_ in f_.walk(lambda x: x['k'] == 'field' and x.get('name') == 'qualifiers' and 'StoredInputFieldType' in x.get('adt', '')):
                                reads_quals = True
                    except Exception:
                        pass
                if not reads_quals:
                    dd.add(bad('REACH-INPUT', inst, 'input recursion predicate never looks at list qualifiers (is_indirected)', loc,
                               'cycles through lists are boxed needlessly or not at all'))
                else:
                    dd.add(ok('BOX-SITES', inst, 'Box chosen under the input-recursion predicate (reads fields, qualifiers, referenced inputs)', loc))
            elif 'ResolvedFragment.selection_set' in fields or 'Query.selections' in fields:
                roles.add(fnshort + ':fragment')
                dd.add(ok('BOX-SITES', inst, 'Box chosen under the fragment-recursion predicate', loc))
            else:
                dd.add(bad('BOX-SITES', inst, 'Box chosen under a condition that is not a recursion predicate: ' + conds_text(c)[:160], loc,
                           'recursive types are not boxed (E0072) or non-recursive ones are'))
            # BOX-INVISIBLE: the boxed alternative = Box < plain alternative >
            inner = a[2:-1] if len(a) >= 3 else []
            if len(inner) == 1 and inner[0]['t'] == 'choice':
                inner_set = {T.render(x) for _, x in inner[0]['alts']}
            else:
                inner_set = {T.render(inner)}
            plain_set = {T.render(x) for _, x in plain}
            if plain and inner_set != plain_set:
                dd.add(bad('BOX-INVISIBLE', inst, 'boxed and unboxed alternatives differ by more than the Box wrapper', loc,
                           'the indirection is visible in the type/JSON'))
    need = 4
    if len(roles) < need:
        dd.add(bad('BOX-SITES', 'floor', 'anchor-missing: expected >= %d conditional Box productions (input field, @oneOf variant, spread field, alias), found %s' % (need, sorted(roles))))
    return dd.list()


# ------------------------------------------------------------------------------------------------
# ENUM-* (C10)
# ------------------------------------------------------------------------------------------------

def _find_groups(seq, pred):
    for el in _walk_seq(seq):
        if el['t'] == 'group' and pred(el):
            yield el


def _tokens(seq):
    return [el['s'] if el['t'] == 'tok' else ('‹%s›' % el['t']) for el in seq]


def _match_groups(fn_body_seq):
    """brace groups that directly follow a `match <scrutinee>` inside a fn body"""
    out = []
    for seq in _flat_seqs(fn_body_seq):
        for i, el in enumerate(seq):
            if el['t'] == 'tok' and el['s'] == 'match':
                for j in range(i + 1, len(seq)):
                    if seq[j]['t'] == 'group' and seq[j]['d'] == '{':
                        out.append((seq[i + 1:j], seq[j]))
                        break
    return out


def rule_enum(ctx):
    dd = Dedup()
    enums = [it for it in ctx.all_items() if it.kind == 'enum' and _is_graphql_enum(it)]
    if not enums:
        return [bad('ENUM-SHAPE', 'floor', 'anchor-missing: no enum production with a fixed `Other` variant found')]
    seen_sites = set()
    for en in enums:
        if en.site in seen_sites:
            continue
        seen_sites.add(en.site)
        loc = ctx.site_loc(en.site)
        fs = site_short(ctx, en.site)
        inst = fs + '/enum'
        # -- declaration: rep of variant idents + Other(String)
        decl_variants = [v for v in en.variants if not (v.name['t'] == 'tok')]
        other = [v for v in en.variants if v.name['t'] == 'tok' and v.name['s'] == 'Other']
        if len(decl_variants) != 1 or not any(c[0] == 'rep' for c in decl_variants[0].conds[len(en.conds):]):
            dd.add(bad('ENUM-SHAPE', inst + '/decl', 'enum declaration is not `#(#variants,)* Other(String)`', loc, 'variants missing/duplicated'))
            continue
        if not other or T.render(other[0].payload or []) != '( String )':
            dd.add(bad('ENUM-OPEN', inst + '/decl', 'no `Other(String)` variant', loc, 'unknown strings cannot be represented'))
        if derive_may_include(en, ('Serialize', 'Deserialize')) and False:
            pass
        decl_ident = decl_variants[0].name['term']
        # -- the two impls from the same template
        impls = [it for it in ctx.all_items() if it.kind == 'impl' and it.site == en.site]
        ser = de = None
        for im in impls:
            toks = _tokens(im.header)
            if 'Serialize' in toks:
                ser = im
            if 'Deserialize' in toks:
                de = im
        if ser is None or de is None:
            dd.add(bad('ENUM-SHAPE', inst + '/impls', 'hand-written Serialize/Deserialize impls not found next to the enum', loc,
                       'the enum is not a bare string on the wire'))
            continue
        for im, tr in ((ser, 'Serialize'), (de, 'Deserialize')):
            lead = [el for el in im.header if el['t'] == 'leaf']
            if not lead or OPT + 'serde_path' not in TM.fields_in(lead[0]['term']):
                dd.add(bad('SERDE-PATH', inst + '/' + tr, 'impl trait path does not start with options.serde_path', loc, 'does not resolve'))
        # serialize: ser.serialize_str(match *self { #(#ctor => #str,)* Name::Other(ref s) => &s, })
        sbody = ser.body['seq'] if ser.body else []
        mg = _match_groups(sbody)
        ser_ok = False
        ser_pairs = None
        for scrut, grp in mg:
            reps = [el for el in grp['seq'] if el['t'] == 'rep']
            if len(reps) != 1:
                continue
            rs = reps[0]['seq']
            leaves_ = [el for el in rs if el['t'] == 'leaf']
            arrow = [i for i, el in enumerate(rs) if el['t'] == 'tok' and el['s'] == '=>']
            if len(arrow) != 1 or len(leaves_) < 2:
                continue
            lhs = [el for el in rs[:arrow[0]] if el['t'] == 'leaf']
            rhs = [el for el in rs[arrow[0] + 1:] if el['t'] == 'leaf']
            if not lhs or len(rhs) != 1:
                continue
            ser_pairs = (lhs[-1]['term'], rhs[0]['term'], rhs[0])
            rest = _tokens([el for el in grp['seq'] if el['t'] != 'rep'])
            # catch-all arm: X :: Other ( ref s ) => & s
            txt = ' '.join(T.render([el]) for el in grp['seq'] if el['t'] != 'rep')
            if re.search(r'Other \( ref (\w+) \) => & ?\1', txt):
                ser_ok = True
            # serialize_str must be the method applied to the match
            pre = ' '.join(_tokens([e for e in sbody if e['t'] == 'tok']))
        if ser_pairs is None:
            dd.add(bad('ENUM-SHAPE', inst + '/serialize', 'serialize body is not `match self { #(ctor => str,)* Other(ref s) => s }`', loc,
                       'values do not serialize as their GraphQL names'))
            continue
        stxt = T.render(sbody)
        if 'serialize_str' not in stxt:
            dd.add(bad('ENUM-SHAPE', inst + '/serialize', 'serialize does not call serialize_str', loc, 'enum is not a bare JSON string'))
        if not ser_ok:
            dd.add(bad('ENUM-OPEN', inst + '/serialize', 'no `Other(ref s) => &s` arm', loc, 'serialize(deserialize(s)) != s for unknown s'))
        # deserialize: let s: String = Deserialize::deserialize(d)?; match s.as_str() { #(#str => Ok(#ctor),)* _ => Ok(Name::Other(s)) }
        dbody = de.body['seq'] if de.body else []
        de_pairs = None
        de_open = False
        for scrut, grp in _match_groups(dbody):
            reps = [el for el in grp['seq'] if el['t'] == 'rep']
            if len(reps) != 1:
                continue
            rs = reps[0]['seq']
            arrow = [i for i, el in enumerate(rs) if el['t'] == 'tok' and el['s'] == '=>']
            if len(arrow) != 1:
                continue
            lhs = [el for el in rs[:arrow[0]] if el['t'] == 'leaf']
            rhs_l = [el for el in _walk_seq(rs[arrow[0] + 1:]) if el['t'] == 'leaf']
            if len(lhs) != 1 or not rhs_l:
                continue
            de_pairs = (rhs_l[-1]['term'], lhs[0]['term'], lhs[0])
            txt = ' '.join(T.render([el]) for el in grp['seq'] if el['t'] != 'rep')
            m = re.search(r'_ => Ok \( .*Other \( (\w+) \) \)', txt)
            scr = ' '.join(_tokens(scrut))
            if m and re.match(r'^%s( \. as_str \( \))?( \. as_ref \( \))?$' % m.group(1), scr.replace('(  )', '( )')) or (m and scr.split(' ')[0] == m.group(1)):
                # the catch-all returns the very string that was matched on
                dtxt = T.render(dbody)
                if re.search(r'let %s : String = .*Deserialize :: deserialize \( \w+ \) \?' % m.group(1), dtxt):
                    de_open = True
        if de_pairs is None:
            dd.add(bad('ENUM-SHAPE', inst + '/deserialize', 'deserialize body is not `match s { #(str => Ok(ctor),)* _ => Ok(Other(s)) }`', loc,
                       'names do not deserialize to their variants'))
            continue
        if not de_open:
            dd.add(bad('ENUM-OPEN', inst + '/deserialize', 'no `_ => Ok(Other(s))` arm returning the deserialized string itself', loc,
                       'unknown strings fail or are altered'))
        # ENUM-ZIP: same ident term in decl / ser / de; same str term in ser / de
        s_ctor, s_str, s_el = ser_pairs
        d_ctor, d_str, d_el = de_pairs
        sb_ = lambda x_: repr(TM.strip_bases(x_))     # the same computation, whichever instance of the module it was expanded for
        if sb_(s_ctor) != sb_(d_ctor) or sb_(s_ctor) != sb_(decl_ident):
            dd.add(bad('ENUM-ZIP', inst, 'variant identifiers differ between declaration/serialize/deserialize: %s | %s | %s' %
                       (P.show(decl_ident, 1, 4)[:80], P.show(s_ctor, 1, 4)[:80], P.show(d_ctor, 1, 4)[:80]), loc,
                       'a value maps to another variant (or the code does not compile)'))
        elif sb_(s_str) != sb_(d_str):
            dd.add(bad('ENUM-ZIP', inst, 'wire strings differ between serialize and deserialize: %s | %s' % (P.show(s_str, 1, 4), P.show(d_str, 1, 4)), loc,
                       'serialize(deserialize(s)) != s'))
        else:
            dd.add(ok('ENUM-ZIP', inst, 'declaration, serialize and deserialize zip the same identifier and string collections', loc))
        # WIRE-1 / OPT-1 for the strings
        ps = list(TM.paths(s_str))
        if not ps or any(x for _, x in ps) or any(o != ('field', 'StoredEnum.variants') for o, _ in ps):
            dd.add(bad('WIRE-1', inst + '/enum-value', 'enum wire string is not the raw schema value name: %s' % P.show(s_str, 1, 5)[:160], loc,
                       'the server receives / sends a different string'))
        else:
            dd.add(ok('WIRE-1', inst + '/enum-value', 'wire string = StoredEnum.variants (untransformed)', loc))
        neutral = sorted(o[1] for o in TM.all_origins(s_str) if o[0] == 'field' and o[1] in NEUTRAL_OPTIONS)
        if neutral:
            dd.add(bad('OPT-1', inst + '/enum-value', 'enum wire string depends on %s' % neutral, loc, 'wire format changes with normalization'))
        # ident provenance: same collection, elementwise
        ips = list(TM.paths(_string_of_ident({'t': 'leaf', 'term': s_ctor})))
        if any(o != ('field', 'StoredEnum.variants') for o, _ in ips):
            dd.add(bad('ENUM-ZIP', inst + '/ident-origin', 'variant identifiers are not made from StoredEnum.variants', loc, 'pairing broken'))
        # IDENT-1 for enum values
        badp = [x for o, x in ips if not x or 'kw' not in x]
        # under `normalization = rust` the escape must still be last
        lastbad = [x for o, x in ips if x and x[-1] != 'kw']
        if badp:
            dd.add(bad('IDENT-1', inst + '/enum-value', 'enum variant identifier is never keyword-escaped', loc, 'value named like a keyword does not compile'))
        elif lastbad:
            dd.add(bad('IDENT-1', inst + '/enum-value', 'a transform [%s] is applied after the keyword escape' % '→'.join(lastbad[0]), loc,
                       'under normalization=rust `self` becomes `Self` (a keyword again)'))
        else:
            dd.add(ok('IDENT-1', inst + '/enum-value', 'escape is the last transform on every path', loc))
        if ser_ok and de_open:
            dd.add(ok('ENUM-OPEN', inst, 'Other(String) round-trips unknown strings unchanged', loc))
        dd.add(ok('ENUM-SHAPE', inst, 'enum + hand-written string (de)serialization', loc))
        # derive list must not be able to contain Serialize/Deserialize
        for a in en.attrs:
            if a.path == 'derive':
                for el in _walk_seq(a.args):
                    if el['t'] == 'leaf':
                        cs = TM.consts_in(el['term'])
                        if cs & {'Serialize', 'Deserialize'}:
                            # acceptable only if filtered: checked by DERIVE-FILTER (HIR rule)
                            pass
    return dd.list()


# ------------------------------------------------------------------------------------------------
# BODY-* (C05): module constants and the GraphQLQuery impl
# ------------------------------------------------------------------------------------------------

def rule_body(ctx):
    """per generated operation module (a struct?, its `mod`, its `impl GraphQLQuery`): when the entry has several
    alternative ways to assemble the result (selected operation / all operations), each is one group of top-level items"""
    dd = Dedup()
    all_items, ip, trees, roots = ctx.grammar()
    groups = []
    cur = []
    seen_impl = False
    for it in all_items:
        if seen_impl and it.kind in ('struct', 'mod'):
            groups.append(cur)
            cur = []
            seen_impl = False
        cur.append(it)
        if it.kind == 'impl' and 'GraphQLQuery' in _tokens(it.header):
            seen_impl = True
    if cur:
        groups.append(cur)
    if len(groups) <= 1:
        return _rule_body_group(ctx, all_items, dd)
    for g in groups:
        _rule_body_group(ctx, g, dd)
    return dd.list()


def _rule_body_group(ctx, items, dd):
    mods = [it for it in items if it.kind == 'mod']
    impls = [it for it in items if it.kind == 'impl']
    if not mods or not impls:
        return [bad('BODY-IMPL', 'floor', 'anchor-missing: module / impl GraphQLQuery production not found at the root')]
    mod = mods[0]
    loc = ctx.site_loc(mod.site)
    fs = site_short(ctx, mod.site)
    consts = {it.name['s']: it for it in mod.items if it.kind == 'const' and it.name and it.name['t'] == 'tok'}
    # OPERATION_NAME
    for cname, want, role in (('OPERATION_NAME', {'ResolvedOperation.name'}, 'operation name'), ('QUERY', None, 'query text')):
        c = consts.get(cname)
        if c is None:
            dd.add(bad('BODY-CONST', fs + '/' + cname, 'constant %s not emitted' % cname, loc, 'build_query cannot name the operation/document'))
            continue
        vals = [el for el in _walk_seq(c.header) if el['t'] == 'leaf']
        if len({repr(TM.strip_bases(v['term'])) for v in vals}) != 1:
            dd.add(bad('BODY-CONST', fs + '/' + cname, 'value of %s is not a single string hole' % cname, loc, ''))
            continue
        t = vals[0]['term']
        ps = list(TM.paths(t))
        if any(x for _, x in ps):
            dd.add(bad('WIRE-1', fs + '/' + cname, '%s is transformed on the way: %s' % (cname, P.show(t, 1, 5)[:160]), loc,
                       'the %s sent to the server is not the source one' % role))
            continue
        if want is not None:
            got = {o[1] for o, _ in ps if o[0] == 'field'}
            if got != want or any(o[0] != 'field' for o, _ in ps):
                dd.add(bad('WIRE-1', fs + '/' + cname, '%s does not come from %s: %s' % (cname, sorted(want), P.show(t, 1, 5)[:160]), loc,
                           'operationName is not the name of an operation of the document'))
            else:
                dd.add(ok('WIRE-1', fs + '/' + cname, '%s = ResolvedOperation.name, untransformed' % cname, loc))
        else:
            # QUERY: must be the query text parameter / file text (a param of the entry or read_file result)
            kinds = {o[0] for o, _ in ps}
            if kinds <= {'param'} or all(o[0] in ('param',) or (o[0] == 'other' and 'read' in str(o[1])) for o, _ in ps):
                dd.add(ok('WIRE-1', fs + '/QUERY', 'QUERY = the query text handed to the generator (%s)' % sorted(o[1] for o, _ in ps), loc))
            else:
                dd.add(bad('WIRE-1', fs + '/QUERY', 'QUERY is not the verbatim query text: %s' % P.show(t, 1, 5)[:160], loc,
                           'the document sent differs from the source document'))
    # the operation struct: declared by the generator exactly in CLI/library-file mode (the derive's input already has it)
    ustructs = [it for it in items if it.kind == 'struct' and not it.fields]
    if not ustructs:
        dd.add(bad('BODY-STRUCT', fs + '/struct', 'no production declares the operation struct', loc, 'CLI output lacks `struct Op;`: it does not compile'))
    for it in ustructs[:1]:
        def mode_of(c):
            """the modes under which a condition on options.mode holds ({'Cli'} / {'Derive'}), None if it is not such a test"""
            is_mode = lambda t_: t_[0] == 'field' and t_[3] == 'mode' and t_[2].endswith('GraphQLClientCodegenOptions')
            name = lambda p_: p_[1].split('::')[-1] if p_[0] in ('ctor', 'global') else None
            allm = {'Cli', 'Derive'}
            if c[0] == 'match' and is_mode(c[1]) and c[2][0] == 'ctor':
                return {name(c[2])}
            if c[0] == 'match' and is_mode(c[1]) and c[2][0] == 'not' and c[2][1][0] == 'ctor':
                return allm - {name(c[2][1])}
            if c[0] == 'if' and c[1][0] == 'op' and c[1][1] == 'matches' and is_mode(c[1][2][0]) and c[1][2][1][0] == 'pat' and isinstance(c[1][2][1][1], tuple):
                m_ = {name(c[1][2][1][1])}
                return m_ if c[2] else allm - m_
            if c[0] == 'if' and c[1][0] == 'op' and c[1][1] in ('==', '!=') and any(is_mode(x) for x in c[1][2]):
                g_ = [x for x in c[1][2] if x[0] in ('global', 'ctor')]
                if g_:
                    m_ = {name(g_[0])}
                    pos = (c[1][1] == '==') == bool(c[2])
                    return m_ if pos else allm - m_
            return None
        own = [c for c in it.conds if c[0] in ('match', 'if') and c[1] is not None and mode_of(c) is not None]
        other = [c for c in it.conds if c[0] in ('match', 'if') and c[1] is not None and c not in own and c[1][0] != 'tuple' and
                 any(f_.startswith('GraphQLClientCodegenOptions.') for f_ in TM.fields_in(c[1]))]
        # conditions the whole module stands under (how the entry picked the operations) are not conditions of the struct:
        # only what distinguishes it from the always-present items of the same module counts
        always = [x for x in items if x.kind in ('impl', 'mod')]
        if always:
            shared = set(repr(c_) for c_ in always[0].conds)
            for x in always[1:]:
                shared &= set(repr(c_) for c_ in x.conds)
            other = [c for c in other if repr(c) not in shared]
        modes = {'Cli', 'Derive'}
        for c in own:
            modes &= mode_of(c)
        cli = bool(own) and modes == {'Cli'}
        if cli and not other:
            dd.add(ok('BODY-STRUCT', fs + '/struct', 'the operation struct is declared iff mode == Cli', ctx.site_loc(it.site)))
        else:
            dd.add(bad('BODY-STRUCT', fs + '/struct', 'the operation struct is declared under %s, not exactly under mode == Cli' %
                       (conds_text(tuple(c for c in it.conds if c[0] != 'rep'))[:160] or 'no condition'), ctx.site_loc(it.site),
                       'CLI output for a selected operation lacks its struct (or the derive declares it twice)'))
    # the impl
    gq = None
    for im in impls:
        if 'GraphQLQuery' in _tokens(im.header):
            gq = im
    if gq is None:
        dd.add(bad('BODY-IMPL', fs + '/impl', 'no `impl graphql_client::GraphQLQuery for ..` production', loc, 'build_query missing'))
        return dd.list()
    txt = T.render(gq.body['seq']) if gq.body else ''
    mod_name = mod.name
    mn = T.elem_text(mod_name)
    # types and fields point into the same module hole
    refs = [el for el in _walk_seq(gq.body['seq']) if el['t'] == 'leaf']
    same_mod = all(repr(el['term']) == repr(mod_name.get('term')) for el in refs) if mod_name['t'] == 'leaf' else False
    pat = lambda s: re.search(s, txt) is not None
    L = r'‹[^›]*›'
    checks = [
        ('Variables', pat(r'type Variables = %s :: Variables ;' % L)),
        ('ResponseData', pat(r'type ResponseData = %s :: ResponseData ;' % L)),
        ('query', pat(r'query : %s :: QUERY ,' % L)),
        ('operation_name', pat(r'operation_name : %s :: OPERATION_NAME' % L)),
        ('variables', pat(r'QueryBody \{ variables ,') and pat(r'fn build_query \( variables : Self :: Variables \)')),
    ]
    for name, good in checks:
        if good and same_mod:
            dd.add(ok('BODY-IMPL', fs + '/' + name, '`%s` wired to the generated module' % name, loc))
        else:
            dd.add(bad('BODY-IMPL', fs + '/' + name, 'impl GraphQLQuery does not wire `%s` to this operation\'s module' % name, loc,
                       'request body carries another operation\'s data'))
    # the impl target and the module are made from the same operation name
    tgt = [el for el in gq.header if el['t'] == 'leaf']
    if tgt and mod_name['t'] == 'leaf':
        a = {o for o, _ in TM.paths(tgt[-1]['term'])}
        b = {o for o, _ in TM.paths(mod_name['term'])}
        if a == b == {('field', 'ResolvedOperation.name')}:
            dd.add(ok('BODY-IMPL', fs + '/same-op', 'struct, module and OPERATION_NAME all derive from the same ResolvedOperation.name', loc))
        else:
            dd.add(bad('BODY-IMPL', fs + '/same-op', 'impl target %s / module %s do not both derive from the operation name' % (sorted(a), sorted(b)), loc,
                       'ResponseData/Variables of another operation'))
    # include_str of the query file
    inc = consts.get('__QUERY_WORKAROUND')
    if inc is None:
        dd.add(bad('INCLUDE-STR', fs, 'no include_str! constant for the query file', loc, 'cargo does not rebuild when the query changes'))
    else:
        itxt = T.render(inc.header)
        leafs = [el for el in _walk_seq(inc.header) if el['t'] == 'leaf']
        if 'include_str !' in itxt and leafs and OPT + 'query_file' in TM.fields_in(leafs[0]['term']):
            dd.add(ok('INCLUDE-STR', fs, 'include_str!(options.query_file)', loc))
        else:
            dd.add(bad('INCLUDE-STR', fs, 'include_str! argument is not options.query_file', loc, 'stale generated code'))
    return dd.list()


# ------------------------------------------------------------------------------------------------
# SEL-FLATTEN, DEPR-NOTE (grammar part)
# ------------------------------------------------------------------------------------------------

def rule_sel_flatten(ctx):
    dd = Dedup()
    n_flat = n_named = 0
    for it in ctx.all_items():
        if it.kind != 'struct':
            continue
        for f in it.fields:
            if f.name['t'] != 'leaf':
                continue
            S = _string_of_ident(f.name)
            role = role_of({o for o, _ in TM.paths(S)})
            flat = [a for k, v, a in serde_attrs(f.attrs, f.conds) if k == 'flatten' and _attr_live(a)]
            loc = ctx.site_loc(f.site)
            inst = '%s/field[%s]' % (site_short(ctx, f.site), origin_sig(S))
            if role == 'response-field':
                n_named += 1
                if flat:
                    dd.add(bad('SEL-FLATTEN', inst, 'a named response field can carry serde(flatten)', loc,
                               'its keys are read from the parent object'))
                else:
                    dd.add(ok('SEL-FLATTEN', inst, 'named field: no flatten', loc))
            elif role == 'spread-field':
                n_flat += 1
                if not flat or any(a.rconds for a in flat):
                    dd.add(bad('SEL-FLATTEN', inst, 'a fragment-spread field is emitted without (unconditional) serde(flatten)', loc,
                               'serde expects a JSON key named after the fragment'))
                else:
                    dd.add(ok('SEL-FLATTEN', inst, 'spread field: flatten', loc))
    if n_flat < 2 or n_named < 3:
        dd.add(bad('SEL-FLATTEN', 'floor', 'anchor-missing: expected >=2 spread-field and >=3 named-field productions (found %d/%d)' % (n_flat, n_named)))
    return dd.list()


def rule_depr_note(ctx):
    dd = Dedup()
    n = 0
    for it in ctx.all_items():
        if it.kind != 'struct':
            continue
        for f in it.fields:
            for a in f.attrs:
                if a.path != 'deprecated':
                    continue
                a.rconds = a.rel(f.conds)
                n += 1
                loc = ctx.site_loc(a.site or f.site)
                inst = '%s/deprecated[%s]' % (site_short(ctx, a.site or f.site), name_sig(f.name))
                notes = [el for el in _walk_seq(a.args) if el['t'] == 'leaf']
                for el in notes:
                    ps = list(TM.paths(el['term']))
                    if any(x for _, x in ps) or any(o != ('field', 'StoredField.deprecation') for o, _ in ps):
                        dd.add(bad('DEPR-NOTE', inst, 'note is not the schema\'s deprecation reason verbatim: %s' % P.show(el['term'], 1, 5)[:140], loc,
                                   'the reason shown to users is altered'))
                    else:
                        dd.add(ok('DEPR-NOTE', inst, 'note = StoredField.deprecation (untransformed)', loc))
                # attribute presence must depend on the field's own deprecation and the strategy only
                os_ = TM.cond_origins(a.rconds)
                fields = {o[1] for o in os_ if o[0] == 'field'}
                if OPT + 'deprecation_strategy' not in fields:
                    dd.add(bad('DEPR-TABLE', inst + '/strategy', 'deprecated attribute not selected by options.deprecation_strategy', loc,
                               'allow/warn/deny do not do what is documented'))
                S = _string_of_ident(f.name) if f.name['t'] == 'leaf' else None
                if S is not None and role_of({o for o, _ in TM.paths(S)}) == 'spread-field':
                    dd.add(bad('DEPR-ORIGIN', inst, 'a fragment-spread field can be marked deprecated', loc, 'non-deprecated positions are marked'))
    if n < 1:
        dd.add(bad('DEPR-NOTE', 'floor', 'anchor-missing: no #[deprecated] production found'))
    return dd.list()
