"""MIR control-flow queries (thorough tier): dominators over the real CFG of a function body, success edges of `?`
and of boolean tests, reachability avoiding a set of blocks.

The HIR rules decide ordering structurally (`hirx.precedes`); these queries decide the same obligations on the
compiler's own CFG (`optimized_mir` at -Zmir-opt-level=0), where loops, labelled breaks, `?`, early returns and
closures-called-inline have already been lowered to edges.  Unwind/cleanup edges are not followed: the properties
speak about what the command/generator does when it *returns*."""
import re

TRY_BRANCH = ('::Try::branch',)
FROM_RESIDUAL = ('::FromResidual::from_residual',)
# adaptors that hand the same Result/Option on (possibly with a converted error)
PASS_THROUGH = ('::map_err', '::map_err_with', '::context', '::with_context', '::into', '::from', '::ok_or', '::ok_or_else',
                '::as_ref', '::as_mut', '::as_deref', '::borrow', '::deref')


class MirFn:
    def __init__(self, m):
        self.m = m
        self.path = m['path']
        self.blocks = m['blocks']
        n = len(self.blocks)
        self.succ = [[] for _ in range(n)]
        for i, b in enumerate(self.blocks):
            if b['cleanup']:
                continue
            t = b['term']
            k = t.get('k')
            if k in ('call', 'goto', 'drop', 'assert'):
                if t.get('target') is not None:
                    self.succ[i].append(t['target'])
            elif k == 'switch':
                for v, tb in t['targets']:
                    self.succ[i].append(tb)
                self.succ[i].append(t['otherwise'])
            # return / unreachable / resume: no successor
        self.succ = [sorted(set(s)) for s in self.succ]
        self.pred = [[] for _ in range(n)]
        for i, ss in enumerate(self.succ):
            for s in ss:
                self.pred[s].append(i)
        self._dom = None
        self.reach0 = self.reachable_from(0)

    # ---- basic graph queries -----------------------------------------------------------------
    def reachable_from(self, src, avoid=()):
        avoid = set(avoid)
        seen = set()
        st = [src]
        while st:
            b = st.pop()
            if b in seen or b in avoid:
                continue
            seen.add(b)
            st.extend(self.succ[b])
        return seen

    def path_avoiding(self, src, dst, avoid=()):
        """a block path src..dst that enters no block of `avoid` (None if there is none)"""
        avoid = set(avoid)
        if src in avoid:
            return None
        prev = {src: None}
        q = [src]
        while q:
            b = q.pop(0)
            if b == dst:
                out = []
                while b is not None:
                    out.append(b)
                    b = prev[b]
                return out[::-1]
            for s in self.succ[b]:
                if s not in prev and s not in avoid:
                    prev[s] = b
                    q.append(s)
        return None

    def dominators(self):
        if self._dom is not None:
            return self._dom
        nodes = sorted(self.reach0)
        full = set(nodes)
        dom = {b: set(full) for b in nodes}
        dom[0] = {0}
        changed = True
        while changed:
            changed = False
            for b in nodes:
                if b == 0:
                    continue
                ps = [p for p in self.pred[b] if p in full]
                new = set(full)
                for p in ps:
                    new &= dom[p]
                new = new | {b}
                if new != dom[b]:
                    dom[b] = new
                    changed = True
        self._dom = dom
        return dom

    def dominates(self, a, b):
        """every path from the entry to block b passes through block a"""
        if b not in self.reach0:
            return True
        return a in self.dominators()[b]

    # ---- calls --------------------------------------------------------------------------------
    def calls(self, pred):
        out = []
        for i, b in enumerate(self.blocks):
            if b['cleanup'] or i not in self.reach0:
                continue
            t = b['term']
            if t.get('k') == 'call':
                names = [t.get('fn') or '', t.get('resolved') or '']
                if pred(names, t):
                    out.append(i)
        return out

    def calls_named(self, *suffixes):
        return self.calls(lambda names, t: any(n.endswith(suffixes) for n in names if n))

    def sp(self, b):
        return self.blocks[b]['term'].get('sp', '')

    def returns(self):
        return [i for i, b in enumerate(self.blocks) if not b['cleanup'] and i in self.reach0 and b['term'].get('k') == 'return']

    # ---- value flow on straight-line code ------------------------------------------------------
    def _aliases_after(self, b, aliases):
        """extend the alias set with the `x = move y` statements of block b"""
        for s in self.blocks[b]['stmts']:
            if s['rk'] in ('use', 'cast') and s.get('op', {}).get('o') == 'place' and s['op']['local'] in aliases and s['op'].get('proj') in ('[]', None) and s['dp'] == '[]':
                aliases.add(s['dl'])
            elif s['rk'] == 'ref' and s.get('local') in aliases and s['dp'] == '[]':
                aliases.add(s['dl'])

    def try_edges(self, call_bb, max_hops=6):
        """for a call whose result is consumed by `?` (possibly after map_err-like adaptors):
        returns (continue_block, break_block, switch_block) or None"""
        t = self.blocks[call_bb]['term']
        aliases = {t['dest']}
        cur = t.get('target')
        hops = 0
        while cur is not None and hops < max_hops:
            hops += 1
            self._aliases_after(cur, aliases)
            tt = self.blocks[cur]['term']
            if tt.get('k') == 'call':
                name = tt.get('fn') or ''
                args = [a.get('local') for a in tt['args'] if a.get('o') == 'place']
                if name.endswith(TRY_BRANCH) and args and args[0] in aliases:
                    d = tt['dest']
                    nb = tt.get('target')
                    if nb is None:
                        return None
                    discr = None
                    for s in self.blocks[nb]['stmts']:
                        if s['rk'] == 'discr' and s.get('local') == d:
                            discr = s['dl']
                    sw = self.blocks[nb]['term']
                    if discr is None or sw.get('k') != 'switch' or sw['discr'].get('local') != discr:
                        return None
                    tg = dict((v, bb) for v, bb in sw['targets'])
                    if 0 not in tg:
                        return None
                    brk = tg.get(1, sw['otherwise'])
                    return tg[0], brk, nb
                if args and args[0] in aliases and name.endswith(PASS_THROUGH):
                    aliases.add(tt['dest'])
                    cur = tt.get('target')
                    continue
                return None
            if tt.get('k') in ('goto', 'drop'):
                cur = tt.get('target')
                continue
            return None
        return None

    def bool_edges(self, call_bb, max_hops=4):
        """for a call returning bool that is tested right away: (true_block, false_block, switch_block) or None.
        A negation (`!x`) in between swaps the two."""
        t = self.blocks[call_bb]['term']
        aliases = {t['dest']}
        neg = set()
        cur = t.get('target')
        hops = 0
        while cur is not None and hops < max_hops:
            hops += 1
            for s in self.blocks[cur]['stmts']:
                if s['rk'] == 'use' and s.get('op', {}).get('o') == 'place' and s['op']['local'] in aliases:
                    aliases.add(s['dl'])
                    if s['op']['local'] in neg:
                        neg.add(s['dl'])
                elif s['rk'] == 'un' and s.get('uop') == 'Not' and s.get('op', {}).get('o') == 'place' and s['op']['local'] in aliases:
                    aliases.add(s['dl'])
                    if s['op']['local'] not in neg:
                        neg.add(s['dl'])
            tt = self.blocks[cur]['term']
            if tt.get('k') == 'switch' and tt['discr'].get('local') in aliases:
                tg = dict((v, bb) for v, bb in tt['targets'])
                if 0 not in tg:
                    return None
                tb, fb = tt['otherwise'], tg[0]
                if tt['discr']['local'] in neg:
                    tb, fb = fb, tb
                return tb, fb, cur
            if tt.get('k') in ('goto', 'drop'):
                cur = tt.get('target')
                continue
            return None
        return None

    # ---- error returns --------------------------------------------------------------------------
    def error_blocks(self):
        """blocks that belong to an error exit: `?` residual conversion, or construction of `Err(..)`"""
        out = set()
        for i, b in enumerate(self.blocks):
            if b['cleanup'] or i not in self.reach0:
                continue
            t = b['term']
            if t.get('k') == 'call' and (t.get('fn') or '').endswith(FROM_RESIDUAL):
                out.add(i)
            for s in b['stmts']:
                if s['rk'] == 'agg' and re.search(r'::result::Result\), 1\b', s.get('kind', '')):
                    out.add(i)
        return out
